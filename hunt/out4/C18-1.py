"""C18: 'preparation is reported first and post-processing last' is violated after an extraction without callback.

_extract() puts ("pre", ...) and ("post", ...) into self.q unconditionally, also when no callback (hence no
reporter thread) is attached.  They stay queued and are delivered to the callback of the next extraction on
the same object (history a), or - when a reporter of an earlier call is still alive - to that earlier
callback although the call it belongs to had no callback at all (history b).
"""
import os
import sys
import tempfile

import py7zr
from py7zr.callbacks import ExtractCallback


class Recorder(ExtractCallback):
    def __init__(self):
        self.events = []

    def report_start_preparation(self):
        self.events.append("pre")

    def report_start(self, processing_file_path, processing_bytes):
        self.events.append("s:" + processing_file_path)

    def report_update(self, decompressed_bytes):
        self.events.append("u")

    def report_end(self, processing_file_path, wrote_bytes):
        self.events.append("e:" + processing_file_path)

    def report_postprocess(self):
        self.events.append("post")

    def report_warning(self, message):
        self.events.append("w")


work = tempfile.mkdtemp()
arc = os.path.join(work, "a.7z")
with py7zr.SevenZipFile(arc, "w") as z:
    z.writestr(b"hello", "hello.txt")

bad = False
# history a: extractall() without callback, reset(), extractall(callback=cb)
cb = Recorder()
with py7zr.SevenZipFile(arc) as z:
    z.extractall(os.path.join(work, "o1"))
    z.reset()
    z.extractall(os.path.join(work, "o2"), callback=cb)
print("history a:", cb.events)
if cb.events.count("pre") != 1 or cb.events.count("post") != 1 or cb.events[0] != "pre" or cb.events[-1] != "post":
    bad = True
if cb.events and "post" in cb.events and cb.events.index("post") < len(cb.events) - 1:
    print("  post-processing is reported before the members are processed")

# history b: extractall(callback=cb), reset(), extractall() without callback
cb = Recorder()
with py7zr.SevenZipFile(arc) as z:
    z.extractall(os.path.join(work, "o3"), callback=cb)
    z.reset()
    z.extractall(os.path.join(work, "o4"))
print("history b:", cb.events)
if cb.events.count("pre") != 1 or cb.events.count("post") != 1 or cb.events[-1] != "post" or cb.events[0] != "pre":
    bad = True
if bad:
    print("DEFECT: pre/post events of a callback-less extraction reach a callback; 'post' is not the last event / 'pre' not the only first")
    sys.exit(1)
sys.exit(0)
