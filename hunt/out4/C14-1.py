"""C14 (generous reading): the bytes left by a crash are 'accepted' when they are opened for appending.

Reading a torn archive fails with Bad7zFile, as it should.  But SevenZipFile(file, 'a') treats *any* Bad7zFile
from the existing file - including 'invalid header data', the CRC failure that every torn state produces - as
'not an archive, start a new one' (py7zr.py, __init__: except Bad7zFile: self._prepare_write(...)).  Re-running the
interrupted append therefore opens without error, shows an empty member list (neither the list before nor after
the crashed session) and overwrites the old members' still intact packed data with a fresh archive.
"""
import io
import os
import sys
import tempfile

import py7zr


class Recorder(io.BytesIO):
    """an archive 'file' that records the write operations issued on it"""

    def __init__(self, initial=b""):
        super().__init__(initial)
        self.ops = []

    def write(self, b):
        self.ops.append((self.tell(), bytes(b)))
        return super().write(b)


before = {"a.txt": b"hello world" * 3, "b.bin": b"\x01\x02" * 40}
f0 = io.BytesIO()
with py7zr.SevenZipFile(f0, "w") as z:
    for n, d in before.items():
        z.writestr(d, n)
initial = f0.getvalue()

rec = Recorder(initial)
with py7zr.SevenZipFile(rec, "a") as z:
    z.writestr(b"cc" * 25, "c.txt")

# crash: all operations but the final rewrite of the 32-byte signature header reached the disk
disk = bytearray(initial)
for pos, data in rec.ops:
    if pos < 32:
        break
    disk[pos : pos + len(data)] = data
torn = bytes(disk)

try:
    py7zr.SevenZipFile(io.BytesIO(torn), "r")
    print("reading the torn file: accepted?!")
except py7zr.Bad7zFile as e:
    print(f"reading the torn file: fails with Bad7zFile({e}) - fine")

work = tempfile.mkdtemp()
path = os.path.join(work, "a.7z")
with open(path, "wb") as f:
    f.write(torn)
bad = False
try:
    z = py7zr.SevenZipFile(path, "a")  # the user re-runs the interrupted append
except Exception as e:
    print(f"opening the torn file for append: fails with {type(e).__name__} - fine")
else:
    names = z.namelist()
    print(f"opening the torn file for append: no error, member list {names}")
    z.writestr(b"cc" * 25, "c.txt")
    z.close()
    with py7zr.SevenZipFile(path) as r:
        final = r.namelist()
    print(f"after the re-run append the archive holds {final}; before the crashed session it held {sorted(before)}")
    if sorted(names) not in (sorted(before), sorted(list(before) + ["c.txt"])):
        bad = True
if bad:
    print("DEFECT: a torn archive is accepted in append mode as an empty archive; the old members are destroyed")
    sys.exit(1)
sys.exit(0)
