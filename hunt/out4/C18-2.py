"""C18: with mp=True no member gets a start, update or end event.

Worker.extract() hands the reporter's queue.Queue to multiprocessing.Process workers.  Each child puts its
events into its own forked copy of the queue; the reporter thread in the parent never sees them.  The callback
is told 'pre' and 'post' only, although all members were extracted.
"""
import os
import sys
import tempfile

import py7zr
from py7zr.callbacks import ExtractCallback


class Recorder(ExtractCallback):
    def __init__(self):
        self.events = []

    def report_start_preparation(self):
        self.events.append(("pre",))

    def report_start(self, processing_file_path, processing_bytes):
        self.events.append(("s", processing_file_path))

    def report_update(self, decompressed_bytes):
        self.events.append(("u", int(decompressed_bytes)))

    def report_end(self, processing_file_path, wrote_bytes):
        self.events.append(("e", processing_file_path, int(wrote_bytes)))

    def report_postprocess(self):
        self.events.append(("post",))

    def report_warning(self, message):
        self.events.append(("w", message))


work = tempfile.mkdtemp()
arc = os.path.join(work, "a.7z")
members = [{"a1": b"A" * 1000, "a2": b"B" * 2000}, {"b1": b"C" * 3000}]
for i, folder in enumerate(members):
    with py7zr.SevenZipFile(arc, "w" if i == 0 else "a") as z:
        for name, data in folder.items():
            z.writestr(data, name)
sizes = {n: len(d) for f in members for n, d in f.items()}

bad = False
for mp in (False, True):
    cb = Recorder()
    out = os.path.join(work, f"out{mp}")
    with py7zr.SevenZipFile(arc, mp=mp) as z:
        z.extractall(out, callback=cb)
    extracted = sorted(os.listdir(out))
    starts = sorted(e[1] for e in cb.events if e[0] == "s")
    ends = {e[1]: e[2] for e in cb.events if e[0] == "e"}
    updates = sum(e[1] for e in cb.events if e[0] == "u")
    ok = starts == sorted(sizes) and ends == sizes and updates == sum(sizes.values())
    print(f"mp={mp}: extracted {extracted}; starts {starts}; ends {ends}; update sum {updates} -> {'ok' if ok else 'INCOMPLETE'}")
    bad |= not ok
if bad:
    print("DEFECT: members were extracted without start/end/update events")
    sys.exit(1)
sys.exit(0)
