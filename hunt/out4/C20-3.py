"""C20: a small archive makes py7zr allocate memory in proportion to the declared size of its *encoded header*.

Header._read() decodes the packed header with max_length = the whole declared unpack size, accumulates it in a
bytearray and copies it into a BytesIO before parsing.  Trailing bytes after the header's END mark are ignored,
so an otherwise ordinary archive (one 5-byte member) whose encoded header is padded with 512 MiB of zeros
(LZMA2 packs them into ~80 KB) opens successfully, lists and tests fine - and needs > 1 GiB to be opened.
"""
import io
import os
import subprocess
import sys
import tempfile

BUDGET_MIB = 700
PAD = 512 << 20


def status(key):
    with open("/proc/self/status") as f:
        for line in f:
            if line.startswith(key):
                return int(line.split()[1]) // 1024
    return 0


if len(sys.argv) == 3:  # child: measure open + extract
    import py7zr

    arc = sys.argv[2]
    base = status("VmRSS")
    with py7zr.SevenZipFile(arc) as z:
        names = z.namelist()
        z.extractall(factory=py7zr.io.NullIOFactory())
    print(names)
    print(status("VmHWM") - base)
    sys.exit(0)

import py7zr
import py7zr.archiveinfo as ai
from py7zr.helpers import calculate_crc32

orig_write = ai.Header.write


def padded_write(self, file, afterheader, encoded=True, encrypted=False):
    # the raw header that _encode_header() is about to compress: append PAD zero bytes behind its END mark
    if not encoded and isinstance(file, io.BytesIO):
        start, length, crc = orig_write(self, file, afterheader, False, False)
        block = bytes(1 << 20)
        for _ in range(PAD >> 20):
            file.write(block)
            crc = calculate_crc32(block, crc)
        return start, length + PAD, crc
    return orig_write(self, file, afterheader, encoded, encrypted)


work = tempfile.mkdtemp()
arc = os.path.join(work, "a.7z")
ai.Header.write = padded_write
with py7zr.SevenZipFile(arc, "w") as z:
    z.writestr(b"hello", "hello.txt")
ai.Header.write = orig_write
print(f"archive: one 5-byte member, {os.path.getsize(arc)} bytes on disk")
out = subprocess.run([sys.executable, __file__, "child", arc], capture_output=True, text=True, env=os.environ)
lines = out.stdout.strip().splitlines()
peak = int(lines[-1])
print(f"opened and extracted, members {lines[0]}; peak {peak} MiB above baseline (budget {BUDGET_MIB} MiB)")
os.remove(arc)
if peak > BUDGET_MIB:
    print("DEFECT: memory in proportion to the declared (header) output")
    sys.exit(1)
sys.exit(0)
