"""C20: a small archive makes extraction allocate memory in proportion to a member's declared size.

A member whose attributes say 'symbolic link' is not streamed to its destination: Worker._extract_single()
decodes it completely into an io.BytesIO, read()s that into a second bytes object and decode()s that into a str,
before it even looks at the link target.  An archive of ~17 KB (512 MiB of zeros, ZStandard, flagged as a link)
drives extractall(path) to ~3 GiB.
"""
import os
import stat
import subprocess
import sys
import tempfile

BUDGET_MIB = 700
MEMBER = 512 << 20


def status(key):
    with open("/proc/self/status") as f:
        for line in f:
            if line.startswith(key):
                return int(line.split()[1]) // 1024
    return 0


if len(sys.argv) == 3:  # child: measure the extraction
    import py7zr

    arc = sys.argv[2]
    base = status("VmRSS")
    outcome = "returned normally"
    try:
        with py7zr.SevenZipFile(arc) as z:
            z.extractall(os.path.join(os.path.dirname(arc), "out"))
    except Exception as e:
        outcome = f"raised {type(e).__name__}: {e}"
    print(outcome)
    print(status("VmHWM") - base)
    sys.exit(0)

import py7zr

work = tempfile.mkdtemp()
src = os.path.join(work, "zeros.bin")
with open(src, "wb") as f:
    f.truncate(MEMBER)
arc = os.path.join(work, "a.7z")
with py7zr.SevenZipFile(arc, "w", filters=[{"id": py7zr.FILTER_ZSTD, "level": 1}]) as z:
    z.write(src, "link")
    # what a hostile (or merely odd) archive says: this member is a symbolic link
    z.header.files_info.files[-1]["attributes"] = (
        stat.FILE_ATTRIBUTE_ARCHIVE | stat.FILE_ATTRIBUTE_REPARSE_POINT | 0x8000 | ((stat.S_IFLNK | 0o777) << 16)
    )
os.remove(src)
print(f"archive: one member declared {MEMBER >> 20} MiB, {os.path.getsize(arc)} bytes on disk")
out = subprocess.run([sys.executable, __file__, "child", arc], capture_output=True, text=True, env=os.environ)
lines = out.stdout.strip().splitlines()
peak = int(lines[-1])
print(f"extractall(path) {lines[0]}; peak {peak} MiB above baseline (budget {BUDGET_MIB} MiB)")
if peak > BUDGET_MIB:
    print("DEFECT: memory in proportion to the declared output")
    sys.exit(1)
sys.exit(0)
