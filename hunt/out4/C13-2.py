"""C13: the thread-parallel path fails where the sequential path works: the workers re-open the archive by the
*name it was opened with*, relative to whatever the current directory is at extraction time.

    z = SevenZipFile("a.7z"); os.chdir(target); z.extractall()

works for a single-folder archive (sequential path, uses the open file object) and raises FileNotFoundError for
a multi-folder archive with the same contents (Worker.extract passes fp.name to the worker threads, which
open() it again).  If another file of that name exists in the new directory, the workers read that file instead.
"""
import os
import sys
import tempfile

import py7zr

work = tempfile.mkdtemp()
members = {"a1": b"A" * 1000, "b1": b"C" * 3000, "c1": b"D" * 10}
os.chdir(work)
with py7zr.SevenZipFile("single.7z", "w") as z:  # one folder
    for name, data in members.items():
        z.writestr(data, name)
for i, (name, data) in enumerate(members.items()):  # three folders, same contents
    with py7zr.SevenZipFile("multi.7z", "w" if i == 0 else "a") as z:
        z.writestr(data, name)

results = {}
for arc in ("single.7z", "multi.7z"):
    os.chdir(work)
    target = tempfile.mkdtemp()
    z = py7zr.SevenZipFile(arc)  # opened by (relative) name
    os.chdir(target)  # extractall() without a path extracts into the current directory
    try:
        z.extractall()
        got = {n: open(n, "rb").read() for n in os.listdir(".")}
        results[arc] = "ok" if got == members else f"wrong output {sorted(got)}"
    except Exception as e:
        results[arc] = f"raised {e!r}"
    finally:
        z.close()
    print(f"{arc:10s}: {results[arc]}")
if results["single.7z"] == "ok" and results["multi.7z"] != "ok":
    print("DEFECT: same contents, same calls; the sequential path extracts, the parallel path fails")
    sys.exit(1)
sys.exit(0)
