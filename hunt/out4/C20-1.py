"""C20: extraction memory is not bounded by a fixed budget: it grows with the number of folders.

Opened by name, Worker.extract() starts one thread per folder, all at once, and every thread decodes in
steps of get_memory_limit() = 128 MB (about 3 live copies of a step per thread: decoder output, the bytearray
built in SevenZipDecompressor.decompress, the slice handed to the writer).  A 4-folder archive (four append
sessions of a 512 MiB member, archive size ~130 KB) needs ~1.5 GiB above the interpreter's baseline; the same
archive read through a file object (sequential path) needs ~380 MiB.  The number of threads is not limited, so
the peak is proportional to the folder count.
"""
import os
import subprocess
import sys
import tempfile

BUDGET_MIB = 700
MEMBER = 512 << 20
FOLDERS = 4


def status(key):
    with open("/proc/self/status") as f:
        for line in f:
            if line.startswith(key):
                return int(line.split()[1]) // 1024
    return 0


if len(sys.argv) == 4:  # child: measure one extraction
    import py7zr

    mode, arc = sys.argv[2], sys.argv[3]
    base = status("VmRSS")
    if mode == "name":
        with py7zr.SevenZipFile(arc) as z:
            z.extractall(factory=py7zr.io.NullIOFactory())
    else:
        with open(arc, "rb") as fp, py7zr.SevenZipFile(fp) as z:
            z.extractall(factory=py7zr.io.NullIOFactory())
    print(status("VmHWM") - base)
    sys.exit(0)

import py7zr

work = tempfile.mkdtemp()
src = os.path.join(work, "zeros.bin")
with open(src, "wb") as f:
    f.truncate(MEMBER)  # sparse
arc = os.path.join(work, "a.7z")
for i in range(FOLDERS):
    with py7zr.SevenZipFile(arc, "w" if i == 0 else "a", filters=[{"id": py7zr.FILTER_ZSTD, "level": 1}]) as z:
        z.write(src, f"big{i}.bin")
print(f"archive: {FOLDERS} folders, one {MEMBER >> 20} MiB member each, {os.path.getsize(arc)} bytes on disk")
peaks = {}
for mode in ("fileobj", "name"):
    out = subprocess.run([sys.executable, __file__, "child", mode, arc], capture_output=True, text=True, env=os.environ)
    peaks[mode] = int(out.stdout.strip().splitlines()[-1])
    print(f"opened by {mode:8s}: peak {peaks[mode]} MiB above baseline (budget {BUDGET_MIB} MiB)")
os.remove(src)
os.remove(arc)
if max(peaks.values()) > BUDGET_MIB:
    print("DEFECT: extraction exceeded the memory budget")
    sys.exit(1)
sys.exit(0)
