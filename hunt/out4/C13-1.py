"""C13: the process-parallel option does not produce the output the thread-parallel / sequential paths produce
when the caller supplies a writer factory: everything the workers decode is lost.

With mp=True Worker.extract() starts one multiprocessing.Process per folder.  The MemIO/Py7zIO writers live in
the parent; each child writes into its own forked copy, which vanishes when the child exits.  extractall()
returns normally and the factory has received nothing.
"""
import os
import sys
import tempfile

import py7zr

work = tempfile.mkdtemp()
arc = os.path.join(work, "a.7z")
members = [{"a1": b"A" * 1000, "a2": b"B" * 2000}, {"b1": b"C" * 3000}, {"c1": b"D" * 10}]
for i, folder in enumerate(members):  # every append session adds one folder
    with py7zr.SevenZipFile(arc, "w" if i == 0 else "a") as z:
        for name, data in folder.items():
            z.writestr(data, name)
expected = {n: d for f in members for n, d in f.items()}


def run(mode):
    factory = py7zr.io.BytesIOFactory(1 << 20)
    if mode == "sequential":
        with open(arc, "rb") as fp, py7zr.SevenZipFile(fp) as z:
            z.extractall(factory=factory)
    else:
        with py7zr.SevenZipFile(arc, mp=(mode == "processes")) as z:
            z.extractall(factory=factory)
    out = {}
    for name, product in factory.products.items():
        product.seek(0)
        out[name] = product.read()
    return out


bad = False
for mode in ("sequential", "threads", "processes"):
    got = run(mode)
    ok = got == expected
    print(f"{mode:10s}: {'identical to the archive contents' if ok else 'WRONG: ' + repr({k: len(v) for k, v in got.items()})}")
    bad |= not ok
if bad:
    print("DEFECT: output depends on the parallel mode (no error was raised)")
    sys.exit(1)
sys.exit(0)
