"""C13: an error met by a worker (here: the worker process dies, e.g. OOM-killed) is lost with mp=True.

Worker.extract() joins the worker processes and then only looks at the exception queue; the exit code of
the processes is never examined.  A worker that dies (SIGKILL from the OOM killer, a crash inside a codec
extension, ...) queues nothing, so extractall() returns normally although members were not (fully) extracted.
"""
import multiprocessing
import os
import signal
import sys
import tempfile
import threading
import time

import py7zr

work = tempfile.mkdtemp()
arc = os.path.join(work, "a.7z")
payload = [os.urandom(1 << 20) * 48 for _ in range(3)]  # 3 folders of 48 MiB each (Copy: decoding takes a moment)
for i, data in enumerate(payload):
    with py7zr.SevenZipFile(arc, "w" if i == 0 else "a", filters=[{"id": py7zr.FILTER_COPY}]) as z:
        z.writestr(data, f"m{i}.bin")
del payload

killed = []
out = os.path.join(work, "out")


def oom_killer():
    # stands in for the kernel's OOM killer: kills one worker process once every worker has begun writing its output
    while not killed:
        started = os.path.isdir(out) and len(os.listdir(out)) == 3 and all(
            os.path.getsize(os.path.join(out, n)) > 0 for n in os.listdir(out)
        )
        for p in multiprocessing.active_children() if started else []:
            try:
                os.kill(p.pid, signal.SIGKILL)
                killed.append(p.pid)
                break
            except ProcessLookupError:
                pass
        time.sleep(0.0005)


t = threading.Thread(target=oom_killer, daemon=True)
t.start()
raised = None
try:
    with py7zr.SevenZipFile(arc, mp=True) as z:
        z.extractall(out)
except BaseException as e:  # a correct implementation reports the dead worker
    raised = e
killed.append(None)
sizes = {n: os.path.getsize(os.path.join(out, n)) for n in sorted(os.listdir(out))} if os.path.isdir(out) else {}
complete = all(sizes.get(f"m{i}.bin") == 48 << 20 for i in range(3))
print("killed worker pid:", killed[0], "raised:", repr(raised), "sizes:", sizes)
if raised is None and not complete:
    print("DEFECT: a worker process was killed, extractall() returned normally, output is incomplete")
    sys.exit(1)
sys.exit(0)
