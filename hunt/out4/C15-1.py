"""C15 (generous reading: 'arguments are rejected ... the archive is unaffected'): a member name that cannot be
stored is not rejected by the write call that supplies it; it is accepted, and close() then fails while encoding
the header - every member written before and after is lost (the file keeps its placeholder start header).

Such names are what os.listdir() returns for file names that are not valid UTF-8 (surrogateescape), so a plain
writeall(directory) over a directory with one Latin-1 named file destroys the whole archive.
"""
import os
import sys
import tempfile

import py7zr

work = tempfile.mkdtemp()
srcdir = os.path.join(work, "d")
os.mkdir(srcdir)
with open(os.path.join(srcdir, "good.txt"), "wb") as f:
    f.write(b"good")
with open(os.path.join(os.fsencode(srcdir), b"caf\xe9.txt"), "wb") as f:  # Latin-1 name on a UTF-8 system
    f.write(b"latin-1 named file")

bad = False
for label, bad_call in (
    ("writeall(dir with a non-UTF-8 file name)", lambda z: z.writeall(srcdir, "d")),
    ("writestr(data, 'bad\\udce9name')", lambda z: z.writestr(b"x", "bad\udce9name")),
):
    arc = os.path.join(work, "a.7z")
    if os.path.exists(arc):
        os.remove(arc)
    z = py7zr.SevenZipFile(arc, "w")
    z.writestr(b"first", "first.txt")
    try:
        bad_call(z)
        call = "accepted"
    except Exception as e:
        call = f"rejected with {type(e).__name__}"
    z.writestr(b"last", "last.txt")
    try:
        z.close()
        closed = "ok"
    except Exception as e:
        closed = f"raised {type(e).__name__}: {e}"
    try:
        with py7zr.SevenZipFile(arc) as r:
            names = r.namelist()
            content = r.testzip()
        reopened = f"members {names}"
        intact = "first.txt" in names and "last.txt" in names and content is None
    except Exception as e:
        reopened = f"cannot be opened: {type(e).__name__}: {e}"
        intact = False
    print(f"{label}: call {call}; close() {closed}; archive {reopened}")
    if not intact:
        bad = True
if bad:
    print("DEFECT: an unstorable name was not rejected by the write call and cost the whole archive at close()")
    sys.exit(1)
sys.exit(0)
