#!/usr/bin/env python
"""C06 (stream positioned anywhere): in read mode a stream that holds a valid archive at offset 0 is refused
with Bad7zFile('not a 7z file') unless it happens to be positioned at 0 - e.g. the very BytesIO a
SevenZipFile(..., 'w') has just finished (it is left at offset 32).  _check_7zfile() tests the magic at the
*current* position while SignatureHeader._read()/Worker address the archive from absolute offset 0; mode
'a' was fixed to seek(0) first (py7zr.py, "an archive starts at offset 0, wherever a stream ... stands"),
mode 'r' was not.  Exit 1 when the archive is not read from a stream positioned away from 0."""
import io
import sys

import py7zr

bio = io.BytesIO()
with py7zr.SevenZipFile(bio, "w") as z:
    z.writestr(b"hello", "a")
bad = []
for pos in (0, bio.tell(), len(bio.getvalue())):
    bio.seek(pos)
    try:
        with py7zr.SevenZipFile(bio, "r") as z:
            print("stream at", pos, "->", z.getnames())
    except Exception as e:
        print("stream at", pos, "-> raised", repr(e))
        bad.append(pos)
sys.exit(1 if bad else 0)
