#!/usr/bin/env python
"""C06: kinds - the format marks a directory as "empty stream and not empty file"; the attribute word is
independent of that.  py7zr's ArchiveFile.is_directory looks only at FILE_ATTRIBUTE_DIRECTORY as soon as
an attribute word is defined, so a directory entry whose attributes are defined without that bit (here: the
unix-extension word 0x8000|mode<<16 only, or 0) is listed as a file, created as an empty regular file, and
the extraction of its children fails.  Exit 1 when the directory is not read/extracted as a directory."""
import bz2
import io
import lzma
import struct
import sys
import zlib

import py7zr


# ---------------------------------------------------------------- minimal independent 7z writer
def u64(v):
    for n in range(8):
        if v < 1 << (7 * n + 7):
            return bytes([((0xFF00 >> n) & 0xFF) | (v >> (8 * n))]) + (v & ((1 << (8 * n)) - 1)).to_bytes(n, "little")
    return b"\xff" + v.to_bytes(8, "little")


def crc(b):
    return zlib.crc32(b) & 0xFFFFFFFF


def bits(v):
    o = bytearray((len(v) + 7) // 8)
    for i, b in enumerate(v):
        if b:
            o[i // 8] |= 0x80 >> (i % 8)
    return bytes(o)


def defvec(v):
    return b"\x01" if all(v) else b"\x00" + bits(v)


def encode(chain, data):
    """chain in compression order, e.g. ['delta', 'deflate']; returns (coders in folder order, packed, unpack sizes)"""
    coders, sizes = [], []
    for name in chain:
        sizes.append(len(data))
        if name == "copy":
            coders.append((b"\x00", None))
        elif name == "lzma2":
            f = {"id": lzma.FILTER_LZMA2, "dict_size": 1 << 16}
            data = lzma.compress(data, format=lzma.FORMAT_RAW, filters=[f])
            coders.append((b"\x21", lzma._encode_filter_properties(f)))
        elif name == "deflate":
            c = zlib.compressobj(wbits=-15)
            data = c.compress(data) + c.flush()
            coders.append((b"\x04\x01\x08", None))
        elif name == "bzip2":
            data = bz2.compress(data)
            coders.append((b"\x04\x02\x02", None))
        elif name == "delta":  # distance 1
            data = bytes((b - a) & 0xFF for a, b in zip(b"\0" + data[:-1], data))
            coders.append((b"\x03", b"\x00"))
    return coders[::-1], data, sizes[::-1]


def build(members, folders=None, crc_mode="sub", extra_props=b""):
    """members: dicts name, data (None: no stream), dir (bool), mtime (FILETIME or None), attrib (or None)
    folders: list of (chain, [member indexes]); crc_mode: 'sub' per file, 'folder' folder CRC only, 'none'."""
    streams = [i for i, m in enumerate(members) if m.get("data")]
    if folders is None:
        folders = [(["lzma2"], streams)] if streams else []
    packed, h = b"", b""
    if folders:
        enc = [encode(chain, b"".join(members[i]["data"] for i in idx)) for chain, idx in folders]
        packed = b"".join(e[1] for e in enc)
        h = b"\x04\x06" + u64(0) + u64(len(folders)) + b"\x09" + b"".join(u64(len(e[1])) for e in enc) + b"\x00"
        h += b"\x07\x0b" + u64(len(folders)) + b"\x00"
        for coders, _, _ in enc:
            h += u64(len(coders))
            for mid, props in coders:
                h += bytes([len(mid) | (0x20 if props is not None else 0)]) + mid
                if props is not None:
                    h += u64(len(props)) + props
            for i in range(len(coders) - 1):
                h += u64(i + 1) + u64(i)
        h += b"\x0c" + b"".join(u64(s) for e in enc for s in e[2])
        if crc_mode == "folder":
            h += b"\x0a\x01" + b"".join(struct.pack("<L", crc(b"".join(members[i]["data"] for i in idx))) for _, idx in folders)
        h += b"\x00\x08\x0d" + b"".join(u64(len(idx)) for _, idx in folders)
        if any(len(idx) > 1 for _, idx in folders):
            h += b"\x09" + b"".join(u64(len(members[i]["data"])) for _, idx in folders for i in idx[:-1])
        if crc_mode == "sub":
            h += b"\x0a\x01" + b"".join(struct.pack("<L", crc(members[i]["data"])) for _, idx in folders for i in idx)
        h += b"\x00\x00"
    n = len(members)
    fi = b"\x05" + u64(n)
    es = [not m.get("data") for m in members]
    if any(es):
        fi += b"\x0e" + u64(len(bits(es))) + bits(es)
        ef = [not m.get("dir") for m in members if not m.get("data")]
        if any(ef):
            fi += b"\x0f" + u64(len(bits(ef))) + bits(ef)
    names = b"".join(m["name"].encode("utf-16le") + b"\0\0" for m in members)
    fi += b"\x11" + u64(len(names) + 1) + b"\x00" + names
    d = [m.get("mtime") is not None for m in members]
    if any(d):
        body = defvec(d) + b"\x00" + b"".join(struct.pack("<Q", m["mtime"]) for m in members if m.get("mtime") is not None)
        fi += b"\x14" + u64(len(body)) + body
    d = [m.get("attrib") is not None for m in members]
    if any(d):
        body = defvec(d) + b"\x00" + b"".join(struct.pack("<L", m["attrib"]) for m in members if m.get("attrib") is not None)
        fi += b"\x15" + u64(len(body)) + body
    fi += extra_props + b"\x00"
    hdr = b"\x01" + h + fi + b"\x00"
    start = struct.pack("<QQL", len(packed), len(hdr), crc(hdr))
    return b"7z\xbc\xaf\x27\x1c\x00\x04" + struct.pack("<L", crc(start)) + start + packed + hdr


# ---------------------------------------------------------------- the case
import os
import shutil
import tempfile

bad = []
for attrib in (0x10, 0x8000 | (0o040755 << 16), 0):
    members = [{"name": "d", "dir": True, "attrib": attrib}, {"name": "d/x", "data": b"hello", "attrib": 0x20}]
    tmp = tempfile.mkdtemp(prefix="c06_")
    try:
        with py7zr.SevenZipFile(io.BytesIO(build(members))) as z:
            isdir = z.list()[0].is_directory
            try:
                z.extractall(tmp)
                res = "extracted"
            except Exception as e:
                res = "extractall raised " + repr(e)
        ondisk = os.path.isdir(os.path.join(tmp, "d")) and os.path.isfile(os.path.join(tmp, "d", "x"))
        print("attrib=0x%08x: list() is_directory=%s, %s, d/ and d/x on disk: %s" % (attrib, isdir, res, ondisk))
        if not isdir or not ondisk:
            bad.append(attrib)
    finally:
        shutil.rmtree(tmp, ignore_errors=True)
sys.exit(1 if bad else 0)
