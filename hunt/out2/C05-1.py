#!/usr/bin/env python
"""C05: memory/time not proportional to input + declared output.  A ~200-byte archive whose LZMA-encoded
header declares 250 kB of (zero-padded) header data and 2,000,000 files makes SevenZipFile() allocate
about 0.7 GB and run for several seconds (x10 padding -> 290 bytes, 2.9 GB, 27 s: measured).
check_count() (archiveinfo.py) admits 8 items per header *byte* (1 bit per item) counting the whole header
buffer - including bytes behind the header's END marker, which nothing requires to be consumed - while
FilesInfo._read allocates one dict per declared file and _real_get_contents fills each with 6 more keys
(~400 bytes per file).  Zero padding costs nothing in the packed header.
The open is run in a child process; exit 1 when the child's peak RSS exceeds 300 MB (1500 x the archive
size, 1200 x the declared header size)."""
import lzma
import resource
import struct
import subprocess
import sys
import time
import zlib


def u64(v):
    for n in range(8):
        if v < 1 << (7 * n + 7):
            return bytes([((0xFF00 >> n) & 0xFF) | (v >> (8 * n))]) + (v & ((1 << (8 * n)) - 1)).to_bytes(n, "little")
    return b"\xff" + v.to_bytes(8, "little")


def crc(b):
    return zlib.crc32(b) & 0xFFFFFFFF


NFILES, PAD = 2_000_000, 250_000
# Header: kHeader, kFilesInfo, numFiles, kEnd (files), kEnd (header), then padding nobody reads
hdr = b"\x01\x05" + u64(NFILES) + b"\x00\x00" + bytes(PAD)
filt = {"id": lzma.FILTER_LZMA1, "dict_size": 1 << 16}
props = lzma._encode_filter_properties(filt)
pk = lzma.compress(hdr, format=lzma.FORMAT_RAW, filters=[filt])
eh = b"\x17\x06" + u64(0) + u64(1) + b"\x09" + u64(len(pk)) + b"\x00"
eh += b"\x07\x0b\x01\x00" + b"\x01" + bytes([0x23]) + b"\x03\x01\x01" + u64(len(props)) + props + b"\x0c" + u64(len(hdr))
eh += b"\x0a\x01" + struct.pack("<L", crc(hdr)) + b"\x00\x00"
start = struct.pack("<QQL", len(pk), len(eh), crc(eh))
archive = b"7z\xbc\xaf\x27\x1c\x00\x04" + struct.pack("<L", crc(start)) + start + pk + eh

if len(sys.argv) > 1 and sys.argv[1] == "child":
    import io

    import py7zr

    try:
        z = py7zr.SevenZipFile(io.BytesIO(archive))
        print("child: opened, %d members" % len(z.getnames()))
    except Exception as e:
        print("child: raised", repr(e)[:100])
    sys.exit(0)

t = time.time()
subprocess.run([sys.executable, __file__, "child"], check=False)
dt = time.time() - t
peak_mb = resource.getrusage(resource.RUSAGE_CHILDREN).ru_maxrss / 1024.0
print("archive: %d bytes, declared (unpacked) header: %d bytes" % (len(archive), len(hdr)))
print("SevenZipFile(): %.1f s, peak RSS %.0f MB" % (dt, peak_mb))
sys.exit(1 if peak_mb > 300 else 0)
