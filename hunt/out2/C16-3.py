#!/usr/bin/env python
"""C16: a name with an embedded U+0000 passes the writestr()/writef() gate (it is relative and does not
climb) but FilesInfo._write_names/write_utf16 writes it verbatim into the NUL-terminated UTF-16 name table,
so the part behind the NUL becomes the name of the NEXT member: the produced archive contains an absolute
(or climbing) member name that no call was ever asked to store, and the later member loses its own name.
Exit 1 when the archive read back holds an absolute/climbing name."""
import io
import sys

import py7zr

bio = io.BytesIO()
with py7zr.SevenZipFile(bio, "w") as z:
    try:
        z.writestr(b"first", "a\x00/etc/passwd")
        z.writestr(b"second", "b")
        z.writestr(b"third", "c\x00../../x")
        z.writestr(b"fourth", "d")
    except ValueError as e:
        print("rejected:", e)
        sys.exit(0)
bio.seek(0)
with py7zr.SevenZipFile(bio) as z:
    names = z.getnames()
print("names passed to writestr: ['a\\x00/etc/passwd', 'b', 'c\\x00../../x', 'd']")
print("names in the archive    :", names)
bad = [n for n in names if n.startswith("/") or n.startswith("../")]
sys.exit(1 if bad else 0)
