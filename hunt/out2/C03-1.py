#!/usr/bin/env python
"""C03: a file is written OUTSIDE the destination when an archive with two folders is opened by path
(parallel extraction): the "does the parent resolve inside the destination" check of one worker thread
and the mkdir/open that follow it are not atomic with respect to the symlinks created by the other thread.

archive (written by an independent minimal 7z writer below, COPY codec, 2 folders):
  folder 0:  e/1/1/.../1/f            regular file (300 directory levels -> long check-to-mkdir window)
  folder 1:  pad (100 kB), d/x -> '..' (symlink), e -> 'd/x/..' (symlink; lexically = jail/d, really = jail/..)
Exit 1 when, in any of up to 150 attempts, something appears outside the jail.
"""
import os
import shutil
import struct
import sys
import tempfile
import zlib

import py7zr


def u64(v):
    for n in range(8):
        if v < 1 << (7 * n + 7):
            return bytes([((0xFF00 >> n) & 0xFF) | (v >> (8 * n))]) + (v & ((1 << (8 * n)) - 1)).to_bytes(n, "little")
    return b"\xff" + v.to_bytes(8, "little")


def crc(b):
    return zlib.crc32(b) & 0xFFFFFFFF


def build(members, folders):
    """members: (name, data, attrib); folders: lists of member indexes; COPY codec, per-file CRCs, raw header."""
    packed = b"".join(members[i][1] for f in folders for i in f)
    h = b"\x04\x06" + u64(0) + u64(len(folders)) + b"\x09"
    h += b"".join(u64(sum(len(members[i][1]) for i in f)) for f in folders) + b"\x00"
    h += b"\x07\x0b" + u64(len(folders)) + b"\x00" + (b"\x01\x01\x00" * len(folders)) + b"\x0c"
    h += b"".join(u64(sum(len(members[i][1]) for i in f)) for f in folders) + b"\x00"
    h += b"\x08\x0d" + b"".join(u64(len(f)) for f in folders) + b"\x09"
    for f in folders:
        for i in f[:-1]:
            h += u64(len(members[i][1]))
    h += b"\x0a\x01" + b"".join(struct.pack("<L", crc(members[i][1])) for f in folders for i in f) + b"\x00\x00"
    names = b"".join(m[0].encode("utf-16le") + b"\0\0" for m in members)
    fi = b"\x05" + u64(len(members)) + b"\x11" + u64(len(names) + 1) + b"\x00" + names
    attrs = b"\x01\x00" + b"".join(struct.pack("<L", m[2]) for m in members)
    fi += b"\x15" + u64(len(attrs)) + attrs + b"\x00"
    hdr = b"\x01" + h + fi + b"\x00"
    start = struct.pack("<QQL", len(packed), len(hdr), crc(hdr))
    return b"7z\xbc\xaf\x27\x1c\x00\x04" + struct.pack("<L", crc(start)) + start + packed + hdr


LNK = 0x20 | 0x8000 | (0o120777 << 16)
REG = 0x20 | 0x8000 | (0o100600 << 16)
members = [
    ("e/" + "1/" * 300 + "f", b"PWNED", REG),
    ("pad", b"P" * 100000, REG),
    ("d/x", b"..", LNK),
    ("e", b"d/x/..", LNK),
]
data = build(members, [[0], [1, 2, 3]])

base = tempfile.mkdtemp(prefix="c03_")
try:
    for attempt in range(150):
        box = os.path.join(base, "box")
        shutil.rmtree(box, ignore_errors=True)
        jail = os.path.join(box, "jail")
        os.makedirs(jail)
        arc = os.path.join(box, "arc.7z")
        with open(arc, "wb") as f:
            f.write(data)
        outcome = "completed"
        try:
            with py7zr.SevenZipFile(arc) as z:  # opened by path -> one thread per folder
                z.extractall(jail)
        except Exception as e:
            outcome = "raised " + type(e).__name__
        outside = sorted(set(os.listdir(box)) - {"jail", "arc.7z"})
        if outside:
            hit = None
            for r, ds, fs in os.walk(os.path.join(box, outside[0])):
                for n in fs:
                    hit = os.path.join(r, n)
            print("attempt %d: extractall(%r) %s, but created outside the destination: %s" % (attempt, jail, outcome, outside))
            if hit:
                print("  file written outside: .../%s with content %r" % (os.path.relpath(hit, box)[:20] + "...", open(hit, "rb").read()))
            sys.exit(1)
    print("no escape in 150 attempts")
    sys.exit(0)
finally:
    shutil.rmtree(base, ignore_errors=True)
