#!/usr/bin/env python
"""C16: writestr()/writef() accept names that climb out of the archive root or are absolute once the
archive is read: the gate (check_archive_path) only knows '/' as separator on POSIX, but the 7z reader
(py7zr's own FilesInfo._read_name, and 7-Zip on Windows) treats '\\' as a path separator too.
Exit 1 when an accepted name is read back from the produced archive as an absolute or climbing name."""
import io
import sys

import py7zr


def verdict(name):
    """independent definition on the name as the archive reader presents it ('/'-separated)"""
    if name.startswith("/"):
        return "absolute"
    depth = 0
    for c in name.split("/"):
        if c in ("", "."):
            continue
        if c == "..":
            depth -= 1
            if depth < 0:
                return "climbs above the root"
        else:
            depth += 1
    return None


bad = []
for api in ("writestr", "writef"):
    for name in ["\\etc\\passwd", "..\\..\\x", "a\\..\\..\\..\\x", "\\\\server\\share\\x"]:
        bio = io.BytesIO()
        with py7zr.SevenZipFile(bio, "w") as z:
            try:
                if api == "writestr":
                    z.writestr(b"data", name)
                else:
                    z.writef(io.BytesIO(b"data"), name)
            except ValueError:
                continue  # rejected: fine
        bio.seek(0)
        with py7zr.SevenZipFile(bio) as z:
            for got in z.getnames():
                v = verdict(got)
                if v:
                    bad.append("%s(%r) accepted; archive member is read back as %r (%s)" % (api, name, got, v))
for b in bad:
    print(b)
sys.exit(1 if bad else 0)
