#!/usr/bin/env python
"""C16: write()/writeall() with default arguments produce an archive with an absolute member name when a
source file name starts with a backslash (a legal POSIX file name): _sanitize_archive_arcname strips only
'/' and os.sep, the reader maps '\\' to '/'.  Exit 1 when the archive read back holds an absolute name."""
import os
import shutil
import sys
import tempfile

import py7zr

d = tempfile.mkdtemp(prefix="c16_")
old = os.getcwd()
bad = []
try:
    os.chdir(d)
    os.mkdir("tree")
    with open(os.path.join("tree", "\\abs2"), "w") as f:
        f.write("y")
    with open("\\abs", "w") as f:
        f.write("x")
    with py7zr.SevenZipFile("o.7z", "w") as z:
        z.write("\\abs")  # relative source path, arcname None
        z.writeall("tree")  # arcname None
    with py7zr.SevenZipFile("o.7z") as z:
        names = z.getnames()
    for n in names:
        if n.startswith("/") or "//" in n:
            bad.append(n)
    if bad:
        print("write()/writeall() with default arguments produced member names", names)
        print("absolute (or containing an absolute component after a separator):", bad)
finally:
    os.chdir(old)
    shutil.rmtree(d, ignore_errors=True)
sys.exit(1 if bad else 0)
