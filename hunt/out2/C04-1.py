#!/usr/bin/env python
"""C04: a symbolic-link member's CRC is never compared when extracting to the file system.
Worker._extract_single decodes the link target into a BytesIO and calls symlink_to() with it; the CRC32
that decompress() returns is dropped in the symlink (and junction) branch, only the regular-file branch
compares it with the stored digest.  A single flipped bit inside the packed link target therefore makes
extractall() succeed and create a link to a DIFFERENT target (testzip() on the same file does report it).
The archive is written by py7zr itself with default settings (LZMA2, per-file CRCs).
Exit 1 when extractall() of the damaged archive returns normally with a different link target."""
import os
import shutil
import sys
import tempfile

import py7zr

base = tempfile.mkdtemp(prefix="c04_")
old = os.getcwd()
try:
    src = os.path.join(base, "src")
    os.makedirs(os.path.join(src, "t"))
    for n in ("target_one.txt", "target_ome.txt"):
        with open(os.path.join(src, "t", n), "w") as f:
            f.write(n[7:10])
    os.symlink("target_one.txt", os.path.join(src, "t", "link"))
    arc = os.path.join(base, "a.7z")
    os.chdir(src)
    with py7zr.SevenZipFile(arc, "w") as z:
        z.writeall("t")
    os.chdir(old)
    data = bytearray(open(arc, "rb").read())
    pos = bytes(data).rfind(b"target_one.txt")  # the link's content (LZMA2 stores such a short stream verbatim)
    if pos < 0:
        print("link target not found verbatim in the packed stream; cannot place the flip")
        sys.exit(0)
    data[pos + 8] ^= 0x03  # 'n' -> 'm': one byte inside the packed area
    bad = os.path.join(base, "damaged.7z")
    open(bad, "wb").write(data)
    out = os.path.join(base, "out")
    with py7zr.SevenZipFile(bad) as z:
        verdict = z.testzip()
    try:
        with py7zr.SevenZipFile(bad) as z:
            z.extractall(out)
    except Exception as e:
        print("extractall raised", repr(e), "- damage detected")
        sys.exit(0)
    got = os.readlink(os.path.join(out, "t", "link"))
    print("damaged archive: testzip() ->", repr(verdict), "; extractall() returned normally")
    print("link target extracted:", repr(got), " original: 'target_one.txt'")
    sys.exit(1 if got != "target_one.txt" else 0)
finally:
    os.chdir(old)
    shutil.rmtree(base, ignore_errors=True)
