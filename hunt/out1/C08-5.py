"""C08: mode 'a' treats every Bad7zFile raised while parsing the existing archive as "no archive there" and silently starts a
new one over it.  Any valid archive that py7zr's parser refuses (here: one with the kAnti (0x10) file property, as written by
7-Zip's update mode) - and, outside the literal quantifier, an archive with encrypted header opened with a mistyped password
or one with a damaged end header - loses all members that were there; no error is raised."""
import io, sys
import py7zr

import struct, zlib
def _crc(b): return zlib.crc32(b) & 0xFFFFFFFF
def _num(v):
    for n in range(8):
        if v < (1 << (7 * (n + 1))):
            return bytes([((0xFF << (8 - n)) & 0xFF) | (v >> (8 * n))]) + (v & ((1 << (8 * n)) - 1)).to_bytes(n, "little")
    return b"\xff" + v.to_bytes(8, "little")
def _prop(pid, body): return bytes([pid]) + _num(len(body)) + body
def _names(names): return _prop(0x11, b"\x00" + b"".join(n.encode("utf-16-le") + b"\x00\x00" for n in names))
def _times(pid, ts): return _prop(pid, b"\x01\x00" + b"".join(struct.pack("<Q", t) for t in ts))
def _archive(data, hdr):
    start = struct.pack("<QQL", len(data), len(hdr), _crc(hdr))
    return b"7z\xbc\xaf\x27\x1c\x00\x04" + struct.pack("<L", _crc(start)) + start + data + hdr


a = b"hello world"
hdr = (b"\x01\x04" + b"\x06\x00\x01\x09" + _num(len(a)) + b"\x00"
       + b"\x07\x0b\x01\x00" + b"\x01\x01\x00" + b"\x0c" + _num(len(a)) + b"\x00"
       + b"\x08\x0a\x01" + struct.pack("<L", _crc(a)) + b"\x00" + b"\x00"
       + b"\x05\x02" + _prop(0x0E, b"\x40") + _prop(0x10, b"\x80") + _names(["a.txt", "removed.txt"]) + b"\x00" + b"\x00")
blob = _archive(a, hdr)     # a.txt (11 bytes) + an anti-item 'removed.txt'
rc = 0


def try_append(label, fp, password=None):
    global rc
    try:
        with py7zr.SevenZipFile(fp, "a", password=password) as z:
            z.writestr(b"NEW", "new.txt")
    except Exception as e:
        print(f"{label}: append refused with {e!r} (fine: nothing destroyed)")
        return
    fp.seek(0)
    with py7zr.SevenZipFile(fp, "r", password=password) as z:
        names = z.getnames()
    print(f"{label}: append reported success; members now: {names}")
    rc = 1


fp = io.BytesIO(blob)
try_append("archive with anti-item (holds a.txt)", fp)
if a not in fp.getvalue():
    print("  the 11 bytes of a.txt are no longer in the file")

fp = io.BytesIO()
with py7zr.SevenZipFile(fp, "w", password="right", header_encryption=True) as z:
    z.writestr(b"precious", "p.txt")
try_append("header-encrypted archive (holds p.txt), password mistyped", fp, password="wrong")
sys.exit(rc)
