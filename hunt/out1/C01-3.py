"""C01: a very common caller-supplied binary stream, tempfile.NamedTemporaryFile(), is refused with TypeError:
the constructor only accepts io.IOBase instances, the wrapper object returned by NamedTemporaryFile is file-like
(read/write/seek/tell, binary) but not an io.IOBase subclass.  zipfile and tarfile accept it."""
import sys, tempfile
import py7zr

rc = 0
with tempfile.NamedTemporaryFile(suffix=".7z") as f:
    try:
        with py7zr.SevenZipFile(f, "w") as z:
            z.writestr(b"payload", "name.txt")
        f.seek(0)
        with py7zr.SevenZipFile(f, "r") as z:
            assert z.getnames() == ["name.txt"]
    except TypeError as e:
        print("NamedTemporaryFile object as archive target:", repr(e))
        rc = 1
sys.exit(rc)
