"""C08/C17: a conforming archive that carries the kStartPos (0x18) file property cannot be opened at all
(neither for reading nor for appending): FilesInfo._read_start_pos asserts 'external == 0x00' on a bytes object."""
import io, sys
import py7zr

import struct, zlib
def _crc(b): return zlib.crc32(b) & 0xFFFFFFFF
def _num(v):
    for n in range(8):
        if v < (1 << (7 * (n + 1))):
            return bytes([((0xFF << (8 - n)) & 0xFF) | (v >> (8 * n))]) + (v & ((1 << (8 * n)) - 1)).to_bytes(n, "little")
    return b"\xff" + v.to_bytes(8, "little")
def _prop(pid, body): return bytes([pid]) + _num(len(body)) + body
def _names(names): return _prop(0x11, b"\x00" + b"".join(n.encode("utf-16-le") + b"\x00\x00" for n in names))
def _times(pid, ts): return _prop(pid, b"\x01\x00" + b"".join(struct.pack("<Q", t) for t in ts))
def _archive(data, hdr):
    start = struct.pack("<QQL", len(data), len(hdr), _crc(hdr))
    return b"7z\xbc\xaf\x27\x1c\x00\x04" + struct.pack("<L", _crc(start)) + start + data + hdr

a = b"hello world"
hdr = (b"\x01\x04" + b"\x06\x00\x01\x09" + _num(len(a)) + b"\x00"
       + b"\x07\x0b\x01\x00" + b"\x01\x01\x00" + b"\x0c" + _num(len(a)) + b"\x00"
       + b"\x08\x0a\x01" + struct.pack("<L", _crc(a)) + b"\x00" + b"\x00"
       + b"\x05\x01" + _names(["a.txt"]) + _prop(0x18, b"\x01\x00" + struct.pack("<Q", 0)) + b"\x00" + b"\x00")
blob = _archive(a, hdr)
rc = 0
for mode in ("r", "a"):
    try:
        z = py7zr.SevenZipFile(io.BytesIO(blob), mode)
        names = z.getnames()
        z.close()
        if names[:1] != ["a.txt"]:
            print(mode, "names", names); rc = 1
    except BaseException as e:
        print(f"mode {mode!r}: {e!r}")
        rc = 1
sys.exit(rc)
