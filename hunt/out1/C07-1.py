"""C07: after an append session whose new end (data + header) lies before the old end of file, the file is not
truncated: the stale tail (old header, here with all member names in clear text) stays behind the new end header.
The start header then does not describe the bytes on disk: 32 + NextHeaderOffset + NextHeaderSize != file size
(7-Zip reports 'There are some data after the end of the payload data')."""
import os, struct, sys, tempfile, zlib
import py7zr

tmp = tempfile.mkdtemp()
p = os.path.join(tmp, "t.7z")
z = py7zr.SevenZipFile(p, "w")
z.set_encoded_header_mode(False)           # session 1: plain header (large)
for i in range(200):
    z.writestr(b"x", "some/long/directory/name/secret-file%04d.txt" % i)
z.close()
size1 = os.path.getsize(p)
with py7zr.SevenZipFile(p, "a") as z:      # session 2: default (packed) header, much smaller
    z.writestr(b"y", "new")
blob = open(p, "rb").read()
assert zlib.crc32(blob[12:32]) == struct.unpack("<L", blob[8:12])[0]
nho, nhs, nhc = struct.unpack("<QQL", blob[12:32])
end = 32 + nho + nhs
rc = 0
if end != len(blob):
    tail = blob[end:]
    print(f"file size {len(blob)} (after session 1: {size1}), but start header says the archive ends at {end}: {len(tail)} stale bytes follow")
    print("stale tail still contains old member names:", "secret-file0199".encode("utf-16-le") in tail)
    rc = 1
import shutil; shutil.rmtree(tmp)
sys.exit(rc)
