"""C08: appending to an archive written by another writer drops the creation time and last access time of the
members that were already there (7-Zip stores them with -mtc/-mta; several fixtures in tests/data have them)."""
import io, sys
import py7zr

import struct, zlib
def _crc(b): return zlib.crc32(b) & 0xFFFFFFFF
def _num(v):
    for n in range(8):
        if v < (1 << (7 * (n + 1))):
            return bytes([((0xFF << (8 - n)) & 0xFF) | (v >> (8 * n))]) + (v & ((1 << (8 * n)) - 1)).to_bytes(n, "little")
    return b"\xff" + v.to_bytes(8, "little")
def _prop(pid, body): return bytes([pid]) + _num(len(body)) + body
def _names(names): return _prop(0x11, b"\x00" + b"".join(n.encode("utf-16-le") + b"\x00\x00" for n in names))
def _times(pid, ts): return _prop(pid, b"\x01\x00" + b"".join(struct.pack("<Q", t) for t in ts))
def _archive(data, hdr):
    start = struct.pack("<QQL", len(data), len(hdr), _crc(hdr))
    return b"7z\xbc\xaf\x27\x1c\x00\x04" + struct.pack("<L", _crc(start)) + start + data + hdr

a = b"hello world"
T = 132223104000000000
# spec-level archive: one Copy folder, one file, raw header with CTime(0x12), ATime(0x13), MTime(0x14)
hdr = (b"\x01\x04" + b"\x06\x00\x01\x09" + _num(len(a)) + b"\x00"                      # PackInfo
       + b"\x07\x0b\x01\x00" + b"\x01\x01\x00" + b"\x0c" + _num(len(a)) + b"\x00"      # UnpackInfo: 1 folder, 1 coder Copy
       + b"\x08\x0a\x01" + struct.pack("<L", _crc(a)) + b"\x00" + b"\x00"              # SubStreamsInfo: CRC
       + b"\x05\x01" + _names(["a.txt"]) + _times(0x12, [T]) + _times(0x13, [T + 50]) + _times(0x14, [T + 70]) + b"\x00" + b"\x00")
blob = _archive(a, hdr)


def meta(b):
    with py7zr.SevenZipFile(io.BytesIO(b), "r") as z:
        return [{k: f.get(k) for k in ("filename", "creationtime", "lastaccesstime", "lastwritetime")} for f in z.header.files_info.files]


before = meta(blob)
fp = io.BytesIO(blob)
with py7zr.SevenZipFile(fp, "a") as z:
    z.writestr(b"NEW", "new.txt")
after = meta(fp.getvalue())
if after[0] != before[0]:
    print("metadata of the existing member changed by append:")
    print("  before:", before[0])
    print("  after :", after[0])
    sys.exit(1)
sys.exit(0)
