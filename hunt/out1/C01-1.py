"""C01: an archive written into a caller-supplied stream cannot be reopened from that stream unless the caller
rewinds it: mode 'r' tests the signature at the *current* position (and then parses the header from absolute offset 0).
Mode 'a' rewinds by itself; zipfile.ZipFile accepts a stream at any position."""
import io, sys
import py7zr

fp = io.BytesIO()
with py7zr.SevenZipFile(fp, "w") as z:
    z.writestr(b"payload", "name.txt")
rc = 0
for pos in (fp.tell(), 3):
    fp.seek(pos)
    try:
        with py7zr.SevenZipFile(fp, "r") as z:
            names = z.getnames()
        if names != ["name.txt"]:
            print(pos, names); rc = 1
    except Exception as e:
        print(f"stream positioned at {pos}: reopening raised {e!r}")
        rc = 1
sys.exit(rc)
