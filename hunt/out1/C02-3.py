"""C02: symbolic link targets are not stored verbatim: the text goes through pathlib and comes back normalised
('./a' -> 'a', 'd/' -> 'd', 'd//a' -> 'd/a', 'd/./a' -> 'd/a')."""
import os, shutil, sys, tempfile
import py7zr

tmp = tempfile.mkdtemp()
rc = 0
try:
    src = os.path.join(tmp, "src"); os.makedirs(os.path.join(src, "d"))
    open(os.path.join(src, "a"), "wb").write(b"A")
    open(os.path.join(src, "d", "a"), "wb").write(b"DA")
    links = {"l1": "./a", "l2": "d/", "l3": "d//a", "l4": "d/./a"}
    for k, v in links.items():
        os.symlink(v, os.path.join(src, k))
    arc = os.path.join(tmp, "x.7z")
    with py7zr.SevenZipFile(arc, "w") as z:
        z.writeall(src, arcname="src")
    dst = os.path.join(tmp, "dst"); os.makedirs(dst)
    with py7zr.SevenZipFile(arc, "r") as z:
        z.extractall(dst)
    for k, v in links.items():
        got = os.readlink(os.path.join(dst, "src", k))
        if got != v:
            print(f"link {k}: target written {v!r}, extracted {got!r}")
            rc = 1
finally:
    shutil.rmtree(tmp, ignore_errors=True)
sys.exit(rc)
