"""C02: a relative symlink whose target text happens to equal the path (relative to the cwd) of a member
archived earlier is rewritten; after extraction it points to a different file.
Tree:   a (file "TOP"),  d/a (file "INNER"),  d/l -> "a"   (i.e. d/l resolves to d/a)
Archived from inside the tree (os.chdir(tree); writeall('.')), which is also what shutil.make_archive does."""
import os, shutil, sys, tempfile
import py7zr

tmp = tempfile.mkdtemp()
rc = 0
try:
    src = os.path.join(tmp, "src"); os.makedirs(os.path.join(src, "d"))
    open(os.path.join(src, "a"), "wb").write(b"TOP")
    open(os.path.join(src, "d", "a"), "wb").write(b"INNER")
    os.symlink("a", os.path.join(src, "d", "l"))          # -> d/a
    assert open(os.path.join(src, "d", "l"), "rb").read() == b"INNER"

    for front in ("writeall", "shutil"):
        dst = os.path.join(tmp, "dst_" + front); os.makedirs(dst)
        if front == "writeall":
            arc = os.path.join(tmp, "x.7z")
            cwd = os.getcwd(); os.chdir(src)
            try:
                with py7zr.SevenZipFile(arc, "w") as z:
                    z.writeall(".")
            finally:
                os.chdir(cwd)
            with py7zr.SevenZipFile(arc, "r") as z:
                z.extractall(dst)
        else:
            shutil.register_archive_format("7zip", py7zr.pack_7zarchive, description="7zip archive")
            shutil.register_unpack_format("7zip", [".7z"], py7zr.unpack_7zarchive)
            arc = shutil.make_archive(os.path.join(tmp, "y"), "7zip", root_dir=src)
            shutil.unpack_archive(arc, dst)
        target = os.readlink(os.path.join(dst, "d", "l"))
        content = open(os.path.join(dst, "d", "l"), "rb").read()
        if target != "a" or content != b"INNER":
            print(f"[{front}] d/l: target written 'a' (-> d/a, content b'INNER'); after round trip target {target!r}, content {content!r}")
            rc = 1
finally:
    shutil.rmtree(tmp, ignore_errors=True)
sys.exit(rc)
