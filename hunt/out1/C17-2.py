"""C17: FILETIME values are legal over the whole unsigned 64-bit range, but SevenZipFile.list() raises OverflowError
for an archive in which one member's LastWriteTime lies beyond year 9999 (e.g. 2**63)."""
import io, sys
import py7zr
from py7zr.helpers import ArchiveTimestamp

rc = 0
for t in (2**63, 2**64 - 1, 2650467744000000000):
    fp = io.BytesIO()
    z = py7zr.SevenZipFile(fp, "w")
    z.writestr(b"a", "a")
    z.header.files_info.files[0]["lastwritetime"] = ArchiveTimestamp(t)
    z.close()
    fp.seek(0)
    z = py7zr.SevenZipFile(fp, "r")
    assert z.header.files_info.files[0]["lastwritetime"] == t      # stored and parsed exactly
    try:
        z.list()
    except Exception as e:
        print(f"FILETIME {t}: list() raised {e!r}")
        rc = 1
    z.close()
sys.exit(rc)
