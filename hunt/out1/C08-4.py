"""C08: a history w(M0, F0) a(M1, Deflate64) is refused: mode 'a' rejects a Deflate64 filter chain although mode 'w'
writes Deflate64 (and the result is readable); leftover guard in _prepare_append."""
import io, sys
import py7zr
from py7zr.properties import FILTER_DEFLATE64

f = [{"id": FILTER_DEFLATE64}]
fp = io.BytesIO()
with py7zr.SevenZipFile(fp, "w", filters=f) as z:        # creating with Deflate64 works
    z.writestr(b"first " * 1000, "m0")
fp.seek(0)
with py7zr.SevenZipFile(fp, "r") as z:
    assert z.testzip() is None and z.getnames() == ["m0"]
rc = 0
try:
    with py7zr.SevenZipFile(fp, "a", filters=f) as z:    # appending with the same chain does not
        z.writestr(b"second " * 1000, "m1")
    fp.seek(0)
    with py7zr.SevenZipFile(fp, "r") as z:
        assert z.getnames() == ["m0", "m1"] and z.testzip() is None
except Exception as e:
    print("append session with Deflate64:", repr(e))
    rc = 1
sys.exit(rc)
