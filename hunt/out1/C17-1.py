"""C17: a member whose LastWriteTime is undefined in the time vector does not stay undefined in SevenZipFile.list():
it is reported with the time of the member before it."""
import io, sys
import py7zr
from py7zr.helpers import ArchiveTimestamp

fp = io.BytesIO()
z = py7zr.SevenZipFile(fp, "w")
z.writestr(b"a", "a")
z.writestr(b"b", "b")
z.header.files_info.files[0]["lastwritetime"] = ArchiveTimestamp(132223104000000000)   # 2020-01-01
z.header.files_info.files[1]["lastwritetime"] = None                                   # undefined entry in the vector
z.close()
blob = fp.getvalue()
# the header really has the vector [defined, undefined]: property 0x14, size 11, allDefined=0, bits 0x80, external 0, one FILETIME
z = py7zr.SevenZipFile(io.BytesIO(blob), "r")
raw = [f.get("lastwritetime") for f in z.header.files_info.files]
assert raw == [132223104000000000, None], raw
listed = {x.filename: x.creationtime for x in z.list()}
z.close()
if listed["b"] is not None:
    print(f"member 'b' has no time in the archive, but list() reports {listed['b']!r} (the time of member 'a')")
    sys.exit(1)
sys.exit(0)
