"""C02: a top-level entry of the tree whose name starts with a drive-like prefix ('c:foo') is renamed ('foo')
when the tree is archived from inside (os.chdir(tree); writeall('.'), shutil.make_archive(root_dir=tree)).
With a sibling really called 'foo' the two members collide and one file's content is lost/renamed on extraction."""
import os, shutil, sys, tempfile
import py7zr

tmp = tempfile.mkdtemp()
rc = 0
try:
    src = os.path.join(tmp, "src"); os.makedirs(src)
    open(os.path.join(src, "c:foo"), "wb").write(b"drive-like")
    open(os.path.join(src, "foo"), "wb").write(b"plain")
    os.makedirs(os.path.join(src, "d:dir"))
    open(os.path.join(src, "d:dir", "x"), "wb").write(b"x")
    arc = os.path.join(tmp, "x.7z")
    cwd = os.getcwd(); os.chdir(src)
    try:
        with py7zr.SevenZipFile(arc, "w") as z:
            z.writeall(".")
    finally:
        os.chdir(cwd)
    dst = os.path.join(tmp, "dst"); os.makedirs(dst)
    with py7zr.SevenZipFile(arc, "r") as z:
        names = z.getnames()
        z.extractall(dst)
    want = sorted(os.path.relpath(os.path.join(dp, n), src) for dp, dn, fn in os.walk(src) for n in dn + fn)
    got = sorted(os.path.relpath(os.path.join(dp, n), dst) for dp, dn, fn in os.walk(dst) for n in dn + fn)
    if want != got:
        print("member names in archive:", names)
        print("tree written  :", want)
        print("tree extracted:", got)
        rc = 1
finally:
    shutil.rmtree(tmp, ignore_errors=True)
sys.exit(rc)
