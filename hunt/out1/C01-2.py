"""C01: BCJ filter in front of LZMA(1), followed by 7zAES, is refused by the writer although X86+LZMA, LZMA+7zAES,
X86+LZMA2+7zAES and Delta+LZMA+7zAES all work (the BCJ-in-front-of-LZMA1 special case clears the 'native' flag of the
BCJ filter before the '... followed by 7zAES' branch tests all(methods_map[:-1]))."""
import io, sys
import py7zr
from py7zr import FILTER_X86, FILTER_ARM, FILTER_LZMA, FILTER_CRYPTO_AES256_SHA256

rc = 0
for pre in (FILTER_X86, FILTER_ARM):
    filters = [{"id": pre}, {"id": FILTER_LZMA}, {"id": FILTER_CRYPTO_AES256_SHA256}]
    fp = io.BytesIO()
    try:
        z = py7zr.SevenZipFile(fp, "w", filters=filters, password="pw")
        z.writestr(b"\xe8\x00\x00\x00\x00" * 100, "code.bin")
        z.close()
        fp.seek(0)
        with py7zr.SevenZipFile(fp, "r", password="pw") as z:
            assert z.getnames() == ["code.bin"]
    except Exception as e:
        print(f"filters {filters}: {e!r}")
        rc = 1
sys.exit(rc)
