"""C08: appending to a conforming archive whose PackInfo defines CRCs for only some packed streams fails in close()
with AssertionError - after the old header has already been overwritten, so the members that were there are lost."""
import io, sys, traceback
import py7zr

import struct, zlib
def _crc(b): return zlib.crc32(b) & 0xFFFFFFFF
def _num(v):
    for n in range(8):
        if v < (1 << (7 * (n + 1))):
            return bytes([((0xFF << (8 - n)) & 0xFF) | (v >> (8 * n))]) + (v & ((1 << (8 * n)) - 1)).to_bytes(n, "little")
    return b"\xff" + v.to_bytes(8, "little")
def _prop(pid, body): return bytes([pid]) + _num(len(body)) + body
def _names(names): return _prop(0x11, b"\x00" + b"".join(n.encode("utf-16-le") + b"\x00\x00" for n in names))
def _times(pid, ts): return _prop(pid, b"\x01\x00" + b"".join(struct.pack("<Q", t) for t in ts))
def _archive(data, hdr):
    start = struct.pack("<QQL", len(data), len(hdr), _crc(hdr))
    return b"7z\xbc\xaf\x27\x1c\x00\x04" + struct.pack("<L", _crc(start)) + start + data + hdr

a = b"hello world"; b = b"second file!"
hdr = (b"\x01\x04" + b"\x06\x00\x02\x09" + _num(len(a)) + _num(len(b)) + b"\x0a\x00\x80" + struct.pack("<L", _crc(a)) + b"\x00"   # pack CRCs: [defined, undefined]
       + b"\x07\x0b\x02\x00" + b"\x01\x01\x00" * 2 + b"\x0c" + _num(len(a)) + _num(len(b)) + b"\x00"
       + b"\x08\x0a\x01" + struct.pack("<LL", _crc(a), _crc(b)) + b"\x00" + b"\x00"
       + b"\x05\x02" + _names(["a.txt", "b.txt"]) + b"\x00" + b"\x00")
blob = _archive(a + b, hdr)
with py7zr.SevenZipFile(io.BytesIO(blob), "r") as z:      # py7zr reads it fine
    assert z.getnames() == ["a.txt", "b.txt"] and z.testzip() is None
fp = io.BytesIO(blob)
rc = 0
try:
    z = py7zr.SevenZipFile(fp, "a")
    z.writestr(b"NEW", "new.txt")
    z.close()
except BaseException as e:
    print("append failed:", repr(e))
    traceback.print_exc(limit=-2)
    rc = 1
try:
    fp.seek(0)
    with py7zr.SevenZipFile(fp, "r") as z:
        names = z.getnames()
    if names != ["a.txt", "b.txt", "new.txt"]:
        print("members after append:", names)
        rc = 1
except Exception as e:
    print("archive after the append attempt is unreadable:", repr(e))
    rc = 1
sys.exit(rc)
