"""C07: zero-length members are not stored the way the format requires.  docs/archive_format.rst ("Empty files"):
"Empty files, which size is zero, SHALL be stored without packed stream, and with file information" (EmptyStream +
EmptyFile bits); and ("Sizes of Pack Streams") "Size SHALL be positive integer".
py7zr stores a zero-length member (writestr(b''), writef(empty stream), write()/writeall() of an empty file) as an
ordinary member WITH a stream: a substream of size 0 in the folder; with the Copy method a session that only has such
members (or only directories) also declares a pack stream of size 0.
The header is parsed here by a small independent parser written from the specification."""
import io, os, struct, sys, tempfile, zlib
import py7zr


class R:
    def __init__(s, d): s.d, s.p = d, 0
    def byte(s): s.p += 1; return s.d[s.p - 1]
    def take(s, n): s.p += n; return s.d[s.p - n:s.p]
    def num(s):
        first = s.byte(); mask = 0x80; v = 0
        for i in range(8):
            if not first & mask:
                return v + ((first & (mask - 1)) << (8 * i))
            v |= s.byte() << (8 * i); mask >>= 1
        return v
    def bits(s, n):
        raw = s.take((n + 7) // 8)
        return [bool(raw[i // 8] & (0x80 >> (i % 8))) for i in range(n)]


def parse_raw_header(blob):
    nho, nhs, nhc = struct.unpack("<QQL", blob[12:32])
    hdr = blob[32 + nho:32 + nho + nhs]
    assert zlib.crc32(hdr) == nhc
    r = R(hdr)
    assert r.byte() == 0x01 and r.byte() == 0x04 and r.byte() == 0x06      # Header, MainStreamsInfo, PackInfo
    r.num(); npack = r.num(); assert r.byte() == 0x09
    packsizes = [r.num() for _ in range(npack)]
    t = r.byte()
    if t == 0x0A:
        alld = r.byte(); d = [True] * npack if alld else r.bits(npack); r.take(4 * sum(d)); t = r.byte()
    assert t == 0 and r.byte() == 0x07 and r.byte() == 0x0B
    nf = r.num(); assert r.byte() == 0
    nout = []
    for _ in range(nf):
        nc = r.num(); outs = 0
        for _ in range(nc):
            b = r.byte(); r.take(b & 0xF); assert not b & 0x10; outs += 1
            if b & 0x20: r.take(r.num())
        for _ in range(outs - 1): r.num(); r.num()
        nout.append(outs)
    assert r.byte() == 0x0C
    funpack = [[r.num() for _ in range(n)] for n in nout]
    assert r.byte() == 0 and r.byte() == 0x08
    t = r.byte(); nsub = [1] * nf
    if t == 0x0D:
        nsub = [r.num() for _ in range(nf)]; t = r.byte()
    sizes = []
    if t == 0x09:
        for f in range(nf):
            rest = funpack[f][-1]
            for _ in range(nsub[f] - 1):
                x = r.num(); sizes.append(x); rest -= x
            if nsub[f]: sizes.append(rest)
        t = r.byte()
    else:
        sizes = [funpack[f][-1] for f in range(nf) if nsub[f]]
    if t == 0x0A:
        n = sum(nsub); alld = r.byte(); d = [True] * n if alld else r.bits(n); r.take(4 * sum(d)); t = r.byte()
    assert t == 0 and r.byte() == 0 and r.byte() == 0x05
    nfiles = r.num(); empty = [False] * nfiles; names = []
    while True:
        t = r.byte()
        if t == 0: break
        size = r.num(); body = R(r.take(size))
        if t == 0x0E: empty = body.bits(nfiles)
        if t == 0x11:
            assert body.byte() == 0
            names = body.take(size - 1).decode("utf-16-le").split("\0")[:-1]
    it = iter(sizes)
    return packsizes, [(n, e, None if e else next(it)) for n, e in zip(names, empty)]


tmp = tempfile.mkdtemp()
open(os.path.join(tmp, "empty.txt"), "wb").close()
rc = 0
for label, filt in (("default filters", None), ("Copy", [{"id": py7zr.FILTER_COPY}])):
    fp = io.BytesIO()
    z = py7zr.SevenZipFile(fp, "w", filters=filt)
    z.set_encoded_header_mode(False)
    z.writestr(b"", "by_writestr")
    z.writef(io.BytesIO(b""), "by_writef")
    z.write(os.path.join(tmp, "empty.txt"), "by_write")
    z.close()
    packsizes, files = parse_raw_header(fp.getvalue())
    for name, emptystream, size in files:
        if not emptystream and size == 0:
            print(f"[{label}] member {name!r} has size 0 but is stored with a stream (EmptyStream bit clear)")
            rc = 1
    if any(s == 0 for s in packsizes):
        print(f"[{label}] PackInfo declares pack stream sizes {packsizes} (a pack stream of size 0)")
        rc = 1
import shutil; shutil.rmtree(tmp)
sys.exit(rc)
