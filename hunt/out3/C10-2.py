"""C10: the archive summary's method names silently omit coders py7zr does not know (e.g. the ARM64 filter, id 0x0a, that
current 7-Zip writes): archiveinfo().method_names is [] although the folder has a coder, and nothing is raised.
py7zr.py _get_method_names() expects a KeyError for unknown methods, compressor.py get_methods_names() never raises one."""
import io, os, struct, sys, tempfile, zlib
import py7zr

b = io.BytesIO()
z = py7zr.SevenZipFile(b, "w", filters=[{"id": py7zr.FILTER_COPY}])
z.set_encoded_header_mode(False)  # plain header, so that the coder id can be patched
z.writestr(b"hello world" * 10, "a.txt")
z.close()
raw = bytearray(b.getvalue())
ofs, sz, _ = struct.unpack("<QQI", raw[12:32])
hdr = bytearray(raw[32 + ofs : 32 + ofs + sz])
i = hdr.find(bytes.fromhex("0b0100010100"))  # Folder, 1 folder, not external, 1 coder, id size 1, id 00 (Copy)
assert i >= 0
hdr[i + 5] = 0x0A  # ARM64 filter
raw[32 + ofs : 32 + ofs + sz] = hdr
raw[28:32] = struct.pack("<I", zlib.crc32(hdr))
raw[8:12] = struct.pack("<I", zlib.crc32(raw[12:32]))
p = os.path.join(tempfile.mkdtemp(), "arm64.7z")
open(p, "wb").write(raw)
with py7zr.SevenZipFile(p) as a:
    try:
        names = a.archiveinfo().method_names
    except py7zr.exceptions.UnsupportedCompressionMethodError:
        sys.exit(0)  # telling that the method is unknown is truthful
    coders = [c["method"].hex() for f in a.header.main_streams.unpackinfo.folders for c in f.coders]
    print("coders present:", coders, "| reported method names:", names)
    if len(names) == 0:
        print("summary reports no method although a coder is present"); sys.exit(1)
sys.exit(0)
