"""C09: with mp=True (worker processes) a multi-folder archive opened by path delivers NOTHING to a WriterFactory,
silently: the members are written into copies of the factory objects living in the child processes."""
import os, sys, tempfile
import py7zr
from py7zr.io import BytesIOFactory

base = tempfile.mkdtemp()
p = os.path.join(base, "multi.7z")
with py7zr.SevenZipFile(p, "w") as z:
    z.writestr(b"A" * 100, "a.txt")
with py7zr.SevenZipFile(p, "a") as z:
    z.writestr(b"B" * 100, "b.txt")
fac = BytesIOFactory(1 << 20)
with py7zr.SevenZipFile(p, mp=True) as z:
    z.extract(targets=["a.txt", "b.txt"], factory=fac)
got = {k: v.size() for k, v in fac.products.items()}
if got != {"a.txt": 100, "b.txt": 100}:
    print("mp=True, factory: delivered", got, "expected {'a.txt': 100, 'b.txt': 100}"); sys.exit(1)
sys.exit(0)
