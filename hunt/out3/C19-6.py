"""C19: 'c -v SIZE' with a small but valid SIZE (here 200b for ~300 KB of data -> ~1500 volumes, well below the 9999
that 4 digits allow) dies with RecursionError: every compressed block is handed to MultiVolume.write() in one piece,
which recurses once per volume boundary. Larger sizes (500, 1k, 100k, 1m, 1g) work."""
import os, subprocess, sys, tempfile

base = tempfile.mkdtemp()
os.chdir(base)
os.mkdir("tree")
open("tree/a.bin", "wb").write(os.urandom(300000))
c = subprocess.run([sys.executable, "-m", "py7zr", "c", "-v", "200b", "mv", "tree"], capture_output=True, text=True)
print("c -v 200b exit", c.returncode, (c.stderr.strip().splitlines() or [""])[-1][:100])
if c.returncode != 0:
    sys.exit(1)
sys.exit(0)
