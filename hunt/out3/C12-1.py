"""C12 (stream-opened archives): where a passed stream stands decides whether the archive can be read, and the rule is
inconsistent. The magic is looked for at the CURRENT position (py7zr.py _check_7zfile), the signature header is then read
from ABSOLUTE offset 6 (archiveinfo.py SignatureHeader._read: file.seek(len(MAGIC_7Z), 0)):
 (a) a BytesIO that a write session has just filled (position = end) is refused in mode 'r' with "not a 7z file",
     although mode 'a' on the same stream finds the archive at offset 0;
 (b) a stream holding two archives A+B, positioned at B, opens silently as A (magic of B, header of A)."""
import io, sys
import py7zr

def mk(name, data):
    b = io.BytesIO()
    with py7zr.SevenZipFile(b, "w") as z:
        z.writestr(data, name)
    return b
bad = False
b = mk("second.txt", b"2" * 200)  # stream is left standing at its end by the writer
try:
    with py7zr.SevenZipFile(b) as z:
        at_end = z.getnames()
except Exception as e:
    at_end = repr(e)
A = mk("first.txt", b"1" * 100).getvalue()
s = io.BytesIO(A + b.getvalue())
s.seek(len(A))
try:
    with py7zr.SevenZipFile(s) as z:
        at_b = z.getnames()
except Exception as e:
    at_b = repr(e)
print("stream at its end           ->", at_end)
print("stream A+B, positioned at B ->", at_b)
# offset-0 semantics: at_end must work; current-position semantics: at_b must be B (or an error), never A
if at_end != ["second.txt"] and at_b == ["first.txt"]:
    print("the archive is looked for at the current position AND at offset 0 within one open()"); bad = True
sys.exit(1 if bad else 0)
