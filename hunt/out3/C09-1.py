"""C09: extract(targets, recursive=True) selects by raw string prefix, not by '/'-bounded path prefix.
Members: dir1/a.txt, dir10/b.txt, other.txt  (no member name is a prefix of another).
 - targets=['dir1'], recursive=True must deliver only dir1/a.txt, but dir10/b.txt is delivered too.
 - targets=['oth'] (a name that is NOT in the archive) must be ignored, but other.txt is delivered."""
import io, sys
import py7zr
from py7zr.io import BytesIOFactory

buf = io.BytesIO()
with py7zr.SevenZipFile(buf, "w") as z:
    z.writestr(b"A" * 100, "dir1/a.txt")
    z.writestr(b"B" * 100, "dir10/b.txt")
    z.writestr(b"C" * 100, "other.txt")

def run(targets):
    buf.seek(0)
    fac = BytesIOFactory(1 << 20)
    with py7zr.SevenZipFile(buf) as z:
        z.extract(targets=targets, recursive=True, factory=fac)
    return sorted(fac.products)

bad = False
got = run(["dir1"])
if got != ["dir1/a.txt"]:
    print("targets=['dir1'] recursive=True delivered", got, "expected ['dir1/a.txt']"); bad = True
got = run(["dir1/"])
if got != ["dir1/a.txt"]:
    print("targets=['dir1/'] recursive=True delivered", got, "expected ['dir1/a.txt']"); bad = True
got = run(["oth", "nonexistent"])
if got != []:
    print("targets=['oth','nonexistent'] (both absent) delivered", got, "expected nothing"); bad = True
sys.exit(1 if bad else 0)
