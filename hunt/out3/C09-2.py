"""C09: extract(targets=T, recursive=<falsy/truthy non-bool>) ignores T and extracts every member.
The signature is recursive: Optional[bool]; None, 0 and 1 are compared with 'is False' / 'is True' only."""
import io, sys
import py7zr
from py7zr.io import BytesIOFactory

buf = io.BytesIO()
with py7zr.SevenZipFile(buf, "w") as z:
    z.writestr(b"A" * 100, "dir1/a.txt")
    z.writestr(b"B" * 100, "dir2/b.txt")
    z.writestr(b"C" * 100, "other.txt")

bad = False
for rec, targets, expected in [(None, ["other.txt"], ["other.txt"]), (0, ["other.txt"], ["other.txt"]), (1, ["dir1"], ["dir1/a.txt"])]:
    buf.seek(0)
    fac = BytesIOFactory(1 << 20)
    with py7zr.SevenZipFile(buf) as z:
        z.extract(targets=targets, recursive=rec, factory=fac)
    got = sorted(fac.products)
    if got != expected:
        print(f"extract(targets={targets}, recursive={rec!r}) delivered {got}, expected {expected}"); bad = True
sys.exit(1 if bad else 0)
