"""C19: 'c -v SIZE' followed by 'x' does not reproduce the tree: the command cannot extract (or test) the
multi-volume archive it has just created ('Header is corrupted. Cannot read as 7z file.'), only 'l' knows volumes."""
import os, subprocess, sys, tempfile, filecmp

base = tempfile.mkdtemp()
os.chdir(base)
os.mkdir("tree")
open("tree/a.bin", "wb").write(os.urandom(250000))
open("tree/b.txt", "w").write("hello\n")
def run(*a):
    return subprocess.run([sys.executable, "-m", "py7zr", *a], capture_output=True, text=True)
c = run("c", "-v", "100k", "mv", "tree")
vols = sorted(f for f in os.listdir(".") if f.startswith("mv.7z"))
l = run("l", "mv.7z.0001")
x = run("x", "mv.7z.0001", "out")
t = run("t", "mv.7z.0001")
print("c exit", c.returncode, vols, "| l exit", l.returncode, "| x exit", x.returncode, x.stdout.strip(), "| t exit", t.returncode, t.stdout.strip())
same = os.path.isdir("out/tree") and not filecmp.dircmp("tree", "out/tree").diff_files and sorted(os.listdir("out/tree")) == ["a.bin", "b.txt"]
if c.returncode == 0 and l.returncode == 0 and not (x.returncode == 0 and same and t.returncode == 0):
    print("archive created and listed fine, but 'x'/'t' cannot read it"); sys.exit(1)
sys.exit(0)
