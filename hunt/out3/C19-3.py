"""C19: 'py7zr a ARCHIVE files' on an archive whose header is damaged exits 0 after REPLACING the archive by a new one
that holds only the new files: mode 'a' treats Bad7zFile('invalid header data') like 'not a 7z file' and starts writing at
offset 0 (py7zr.py __init__, 'except Bad7zFile: self._prepare_write(...)'). Earlier members are destroyed, status says success."""
import os, subprocess, sys, tempfile
import py7zr

base = tempfile.mkdtemp()
os.chdir(base)
with py7zr.SevenZipFile("w.7z", "w") as z:
    z.writestr(b"precious data " * 100, "precious.txt")
    z.writestr(b"more data " * 100, "more.txt")
raw = bytearray(open("w.7z", "rb").read())
raw[-3] ^= 1  # one bit in the header at the end of the file
open("w.7z", "wb").write(raw)
open("extra.txt", "w").write("extra\n")
def run(*a):
    return subprocess.run([sys.executable, "-m", "py7zr", *a], capture_output=True, text=True)
t = run("t", "w.7z")
a = run("a", "w.7z", "extra.txt")
with py7zr.SevenZipFile("w.7z") as z:
    names = z.getnames()
print("t exit", t.returncode, "| a exit", a.returncode, "| members afterwards:", names)
if a.returncode == 0 and "precious.txt" not in names:
    print("'a' exited 0 but the earlier members are gone"); sys.exit(1)
sys.exit(0)
