"""C19: 'py7zr x' exits 0 for an archive whose data is damaged, when the damaged member is a symbolic link:
the CRC of link members is never compared on extraction (py7zr.py _extract_single, symlink branch), so a link with a
wrong target is created silently. 'py7zr t' on the same file reports 'Bad 7zip file' / exit 1."""
import os, subprocess, sys, tempfile
import py7zr

base = tempfile.mkdtemp()
os.chdir(base)
os.mkdir("tree")
open("tree/target_file.txt", "w").write("hello\n")
open("tree/targeu_file.txt", "w").write("other\n")
os.symlink("target_file.txt", "tree/link")
with py7zr.SevenZipFile("arch.7z", "w", filters=[{"id": py7zr.FILTER_COPY}]) as z:
    z.writeall("tree")
raw = bytearray(open("arch.7z", "rb").read())
i = raw.find(b"target_file.txt")  # the stored link target (Copy codec: stored verbatim)
assert 32 <= i
raw[i + 5] ^= 1  # 'target' -> 'targeu'
open("dmg.7z", "wb").write(raw)
t = subprocess.run([sys.executable, "-m", "py7zr", "t", "dmg.7z"], capture_output=True, text=True)
x = subprocess.run([sys.executable, "-m", "py7zr", "x", "dmg.7z", "out"], capture_output=True, text=True)
print("t exit", t.returncode, "| x exit", x.returncode, "| link ->", os.readlink("out/tree/link") if os.path.islink("out/tree/link") else None)
if x.returncode == 0:
    print("'x' reported success for an archive with damaged data (and the library's extractall raised nothing)"); sys.exit(1)
sys.exit(0)
