"""C19: 'py7zr c' cannot archive a tree that contains a dangling symbolic link: helpers.readlink() refuses links whose
target does not exist (os.path.exists follows the link) with OSError(22). tar/7z store such links; 'c' followed by 'x'
cannot reproduce the tree, the command dies with a traceback and leaves a half-written archive behind."""
import os, subprocess, sys, tempfile

base = tempfile.mkdtemp()
os.chdir(base)
os.mkdir("tree")
open("tree/a.txt", "w").write("hello\n")
os.symlink("not-there-yet", "tree/dangling")
def run(*a):
    return subprocess.run([sys.executable, "-m", "py7zr", *a], capture_output=True, text=True)
c = run("c", "arch.7z", "tree")
x = run("x", "arch.7z", "out") if c.returncode == 0 else None
print("c exit", c.returncode, (c.stderr.strip().splitlines() or [""])[-1])
ok = c.returncode == 0 and x is not None and x.returncode == 0 and os.path.islink("out/tree/dangling") and os.readlink("out/tree/dangling") == "not-there-yet"
if not ok:
    print("tree with a dangling symlink is not reproduced"); sys.exit(1)
sys.exit(0)
