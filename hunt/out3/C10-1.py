"""C10: archiveinfo() (the archive summary) raises AssertionError for any archive opened from an in-memory stream
(io.BytesIO has no name): py7zr.py archiveinfo() does 'assert fname is not None; os.stat(fname)'."""
import io, sys
import py7zr

buf = io.BytesIO()
with py7zr.SevenZipFile(buf, "w") as z:
    z.writestr(b"A" * 100, "a.txt")
    z.writestr(b"B" * 50, "b.txt")
buf.seek(0)
with py7zr.SevenZipFile(buf) as z:
    try:
        ai = z.archiveinfo()
    except BaseException as e:
        print("archiveinfo() on an archive opened from io.BytesIO raised", repr(e)); sys.exit(1)
    ok = ai.uncompressed == 150 and ai.blocks == 1 and ai.solid is True and "LZMA2" in ai.method_names
    if not ok:
        print("wrong summary", ai.uncompressed, ai.blocks, ai.solid, ai.method_names); sys.exit(1)
sys.exit(0)
