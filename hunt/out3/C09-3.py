"""C09/C12: a multi-folder archive opened by a *relative* path cannot be extracted after the process changed
its working directory (the parallel per-folder workers re-open the archive by fp.name instead of using the open handle).
A single-folder archive in the same situation extracts fine."""
import os, sys, tempfile
import py7zr

base = tempfile.mkdtemp()
os.chdir(base)
with py7zr.SevenZipFile("multi.7z", "w") as z:
    z.writestr(b"A" * 100, "a.txt")
with py7zr.SevenZipFile("multi.7z", "a") as z:  # second session -> second folder
    z.writestr(b"B" * 100, "b.txt")
z = py7zr.SevenZipFile("multi.7z")  # relative name
os.mkdir("elsewhere"); os.chdir("elsewhere")
out = os.path.join(base, "out")
try:
    z.extract(path=out, targets=["b.txt"])
except Exception as e:
    print("extract(targets=['b.txt']) on an open multi-folder archive failed after chdir:", repr(e)); sys.exit(1)
finally:
    z.close()
ok = os.path.exists(os.path.join(out, "b.txt")) and open(os.path.join(out, "b.txt"), "rb").read() == b"B" * 100
if not ok:
    print("b.txt not delivered"); sys.exit(1)
sys.exit(0)
