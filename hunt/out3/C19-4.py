"""C19: 'py7zr x --verbose' on an archive whose members are all empty (directories, empty files): the progress reporter
divides by the total size 0 (cli.py CliExtractCallback.report_end) - a traceback from the reporter thread is printed
in the middle of the output; the library call extractall(callback=...) itself has no such problem."""
import os, subprocess, sys, tempfile

base = tempfile.mkdtemp()
os.chdir(base)
os.makedirs("tree/d")
open("tree/empty.txt", "w").close()
def run(*a):
    return subprocess.run([sys.executable, "-m", "py7zr", *a], capture_output=True, text=True)
c = run("c", "e.7z", "tree")
x = run("x", "--verbose", "e.7z", "out")
print("c exit", c.returncode, "| x exit", x.returncode)
if "ZeroDivisionError" in x.stderr or "Traceback" in x.stderr:
    print("x --verbose printed:", x.stderr.strip().splitlines()[-1]); sys.exit(1)
sys.exit(0)
