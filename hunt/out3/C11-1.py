"""C11 (interpretation-dependent): with a WRONG password and a chain where ciphertext is the only protection (7zAES alone,
Copy+7zAES) extractall(path) does raise CrcError, but only after it has written the complete wrong-key garbage, in full
member length, under the member's name into the target directory - and it stays there. ('in no case are bytes delivered
that differ from the original')."""
import io, os, sys, tempfile
import py7zr

AES = py7zr.FILTER_CRYPTO_AES256_SHA256
data = b"RECOGNISABLE-PLAINTEXT-0123456789-abcdefghij" * 300
bad = False
for name, chain in (("7zAES", [{"id": AES}]), ("Copy+7zAES", [{"id": py7zr.FILTER_COPY}, {"id": AES}])):
    b = io.BytesIO()
    with py7zr.SevenZipFile(b, "w", filters=chain, password="right") as z:
        z.writestr(data, "secret_member.txt")
    b.seek(0)
    d = tempfile.mkdtemp()
    err = None
    try:
        with py7zr.SevenZipFile(b, password="wrong") as z:
            z.extractall(d)
    except Exception as e:
        err = type(e).__name__
    p = os.path.join(d, "secret_member.txt")
    if os.path.exists(p):
        got = open(p, "rb").read()
        if got != data and len(got) > 0:
            print(f"{name}: error={err}, but {len(got)} bytes of garbage were left as {p}"); bad = True
sys.exit(1 if bad else 0)
