"""Run TLC and read its results.

Three ways values leave TLC:
  * the final statistics line (states generated / distinct / depth)
  * PrintT(<<"TAG", ToJson(v)>>) lines, collected into TLCResult.prints["TAG"]
  * JsonSerialize(IOEnv.OUT_FILE, v) from an ASSUME / POSTCONDITION
Values enter TLC through JSON files named by environment variables (IOEnv.X).
"""
import json
import os
import re
import shutil
import subprocess
import time
from dataclasses import dataclass, field

from .common import SPEC, MachineryError, scratch

JAR = "/opt/veriftools/tla/tla2tools.jar"
DEPS = "/opt/veriftools/tla/CommunityModules-deps.jar"


@dataclass
class TLCResult:
    module: str
    ok: bool  # finished, no error
    generated: int = 0
    distinct: int = 0
    depth: int = 0
    wall: float = 0.0
    mode: str = "bfs"
    out: str = ""
    violated: str = ""  # name of violated invariant/property, or error text
    prints: dict = field(default_factory=dict)
    trace_text: str = ""  # raw counterexample text if any


_STAT = re.compile(r"(\d+) states generated, (\d+) distinct states found")
_DEPTH = re.compile(r"The depth of the complete state graph search is (\d+)")
_PR = re.compile(r'^<<"([A-Za-z0-9_]+)", (.*)>>$')


def _unquote(s: str):
    """a TLA+ value printed by TLC: string literal or integer (or nested tuple of them)"""
    s = s.strip()
    if s.startswith('"'):
        return json.loads(s)
    if re.fullmatch(r"-?\d+", s):
        return int(s)
    return s


def _split_top(s: str):
    parts, depth, cur, instr, esc = [], 0, "", False, False
    for ch in s:
        if instr:
            cur += ch
            if esc:
                esc = False
            elif ch == "\\":
                esc = True
            elif ch == '"':
                instr = False
            continue
        if ch == '"':
            instr = True
            cur += ch
        elif ch in "<[{(":
            depth += 1
            cur += ch
        elif ch in ">]})":
            depth -= 1
            cur += ch
        elif ch == "," and depth == 0:
            parts.append(cur)
            cur = ""
        else:
            cur += ch
    if cur.strip():
        parts.append(cur)
    return parts


def run(module, cfg=None, *, workers=16, env=None, simulate=None, depth=None, timeout=600, extra=(), spec_dir=SPEC,
        heap="4g", seed=None, deadlock=None, allow_violation=True, coverage=False, cfg_text=None):
    """Run TLC on spec_dir/module.tla with spec_dir/cfg (default module.cfg)."""
    cfg = cfg or module + ".cfg"
    meta = scratch("tlc")
    if cfg_text is not None:
        cfg = os.path.join(meta, "generated.cfg")
        with open(cfg, "w") as f:
            f.write(cfg_text)
    cmd = ["java", "-XX:+UseParallelGC", "-Xss512m", f"-Xmx{heap}", "-cp", f"{JAR}:{DEPS}", "tlc2.TLC",
           "-metadir", meta, "-noGenerateSpecTE", "-config", cfg, "-workers", str(workers)]
    mode = "bfs"
    if simulate:
        cmd += ["-simulate", simulate]
        mode = "simulate"
        if depth:
            cmd += ["-depth", str(depth)]
    if seed is not None:
        cmd += ["-seed", str(seed)]
    if deadlock is False:
        cmd += ["-deadlock"]
    if coverage:
        cmd += ["-coverage", "1"]
    cmd += list(extra) + [module + ".tla"]
    e = dict(os.environ)
    e.pop("JAVA_TOOL_OPTIONS", None)
    if env:
        e.update({k: str(v) for k, v in env.items()})
    t0 = time.time()
    try:
        p = subprocess.run(cmd, cwd=spec_dir, env=e, stdout=subprocess.PIPE, stderr=subprocess.STDOUT, timeout=timeout, text=True,
                           errors="replace")
    except subprocess.TimeoutExpired as te:
        out = te.stdout if isinstance(te.stdout, str) else (te.stdout or b"").decode("utf8", "replace")
        shutil.rmtree(meta, ignore_errors=True)
        if mode == "simulate":
            res = TLCResult(module, True, wall=time.time() - t0, mode=mode, out=out)
            _parse(res, out)
            return res
        raise MachineryError(f"TLC timeout after {timeout}s on {module}/{cfg}")
    shutil.rmtree(meta, ignore_errors=True)
    out = p.stdout
    res = TLCResult(module, False, wall=time.time() - t0, mode=mode, out=out)
    _parse(res, out)
    if "Model checking completed. No error has been found." in out or (mode == "simulate" and p.returncode == 0):
        res.ok = True
    else:
        m = re.search(r"Error: Invariant (\S+) is violated", out) or re.search(r"Error: Action property (\S+) is violated", out) \
            or re.search(r"Error: Temporal property (\S+) was violated", out) or re.search(r"Error: Temporal properties were violated", out)
        if m:
            res.violated = m.group(1) if m.groups() else "temporal"
            i = out.find("Error:")
            res.trace_text = out[i:]
        elif "Deadlock reached" in out:
            res.violated = "deadlock"
            res.trace_text = out[out.find("Error:"):]
        elif "POSTCONDITION" in out and "violated" in out or "Evaluating assumption" in out and "false" in out.lower():
            res.violated = "postcondition"
        else:
            os.makedirs(os.path.join(os.path.dirname(SPEC), ".scratch"), exist_ok=True)
            with open(os.path.join(os.path.dirname(SPEC), ".scratch", "last_tlc_fail.log"), "w") as lf:
                lf.write(out)
            i = out.find("Error:")
            tail = out[i:i + 3000] if i >= 0 else out[-3000:]
            raise MachineryError(f"TLC failed on {module}/{cfg} (rc={p.returncode}):\n{tail}")
        if not allow_violation:
            raise MachineryError(f"TLC reports {res.violated} on {module}/{cfg}:\n{res.trace_text[:3000]}")
    return res


def _parse(res, out):
    for m in _STAT.finditer(out):
        res.generated, res.distinct = int(m.group(1)), int(m.group(2))
    m = _DEPTH.search(out)
    if m:
        res.depth = int(m.group(1))
    for line in out.splitlines():
        m = _PR.match(line.strip())
        if m:
            tag, rest = m.group(1), m.group(2)
            try:
                vals = [_unquote(x) for x in _split_top(rest)]
            except Exception:
                vals = [rest]
            res.prints.setdefault(tag, []).append(vals[0] if len(vals) == 1 else vals)


def sany(module, spec_dir=SPEC):
    p = subprocess.run(["java", "-cp", f"{JAR}:{DEPS}", "tla2sany.SANY", module + ".tla"], cwd=spec_dir, stdout=subprocess.PIPE,
                       stderr=subprocess.STDOUT, text=True)
    ok = p.returncode == 0 and "Semantic errors" not in p.stdout and "Parse Error" not in p.stdout and "Fatal errors" not in p.stdout
    return ok, p.stdout


def _nonull(o):
    """the Json module cannot deserialize null: write the string "None" instead"""
    if o is None:
        return "None"
    if isinstance(o, dict):
        return {k: _nonull(v) for k, v in o.items()}
    if isinstance(o, (list, tuple)):
        return [_nonull(v) for v in o]
    return o


def write_json(path, obj):
    with open(path, "w") as f:
        json.dump(_nonull(obj), f, separators=(",", ":"))


def validate_traces(module, cfg, traces, *, env_name="TRACE_FILE", workers=1, timeout=900, extra_env=None, batch=4000, max_events=200000):
    """Validate recorded traces against a Trace spec.

    Convention of every Trace*.tla:  initial states are one per trace (tid \\in 1..Len(Traces)); a CONSTRAINT prints
    <<"ACC", tid>> when trace tid has been consumed completely with every invariant true on the way, and
    <<"AT", tid, l>> is available through the 'explain' config.  A trace is accepted iff some path consumes it entirely.
    Returns (accepted_ids:set, results:list[TLCResult]); ids are 0-based indexes into `traces`.
    """
    accepted = set()
    results = []
    # batches are bounded by trace count AND by total event count (the Json module holds the whole file on TLC's heap)
    offs, off = [], 0
    while off < len(traces):
        n, evs = 0, 0
        while off + n < len(traces) and n < batch and (n == 0 or evs + len(traces[off + n]) <= max_events):
            evs += len(traces[off + n]) if hasattr(traces[off + n], "__len__") else 1
            n += 1
        offs.append((off, n))
        off += n
    for off, n in offs:
        chunk = traces[off:off + n]
        d = scratch("tr")
        path = os.path.join(d, "traces.json")
        write_json(path, chunk)
        env = {env_name: path}
        if extra_env:
            env.update(extra_env)
        r = run(module, cfg, workers=workers, env=env, timeout=timeout)
        shutil.rmtree(d, ignore_errors=True)
        results.append(r)
        if not r.ok:
            # an invariant violated while replaying a trace: the counterexample tells which trace
            m = re.search(r"tid = (\d+)", r.trace_text or "")
            r.bad_tid = off + int(m.group(1)) - 1 if m else None
        for v in r.prints.get("ACC", []):
            accepted.add(off + int(v) - 1)
    return accepted, results
