"""Build a directory tree from a model tree (Tree.tla), archive it, extract it, and compare (C02, C19)."""
import hashlib
import os
import random
import shutil
import stat

BASES = ["alpha", "Bëta", "日本", "sp ace", ".dot", "c:x", "e\U0001F600", "tab\tx", "UP.per", "z-last"]


def node_names(nodes, seed=0):
    # listing order must equal index order: prefix with the index so that sorted(os.listdir) keeps it
    if seed % 3 == 1:
        # siblings whose names are prefixes of each other ("lib", "libx", "libxx": a prefix sorts first, so index order is kept)
        return ["lib" + "x" * i for i in range(len(nodes))]
    if seed % 3 == 2:
        # names by position among the siblings: the same names recur in different directories ("00-e😀" at the top and inside every
        # directory), so the text of a link to a sibling can equal the path of a member somewhere else
        seen, out = {}, []
        for n in nodes:
            k = seen.get(n["p"], 0)
            seen[n["p"]] = k + 1
            out.append(f"{k:02d}-{BASES[(k + 6) % len(BASES)]}")      # (the first sibling of every directory carries an astral character)
        return out
    return [f"{i:02d}-{BASES[i % len(BASES)]}" for i in range(len(nodes))]


def build(root, nodes, seed):
    """create the tree under root (which is created); returns {rel path: node index}"""
    R = random.Random(seed)
    names = node_names(nodes, seed)
    os.makedirs(root)
    rel = {}

    def path_of(i):
        p = nodes[i]["p"]
        return (path_of(p - 1) + "/" if p else "") + names[i]

    for i, n in enumerate(nodes):
        rel[i] = path_of(i)
    # directories and files first, links afterwards (targets must exist for relative links)
    for i, n in enumerate(nodes):
        full = os.path.join(root, rel[i])
        if n["k"] == "dir":
            os.makedirs(full, exist_ok=True)
        elif n["k"] == "file":
            with open(full, "wb") as f:
                f.write((b"content of node %d " % i) * R.choice([1, 3, 50, 5000]) + bytes(R.getrandbits(8) for _ in range(R.choice([0, 1, 17]))))
        elif n["k"] == "empty":
            open(full, "wb").close()
    for i, n in enumerate(nodes):
        if n["k"] == "link":
            full = os.path.join(root, rel[i])
            if n["t"] == 0:
                # the root of the tree itself (upward-but-inside)
                os.symlink(os.path.relpath(root, os.path.dirname(full)), full)
                continue
            ti = n["t"] - 1
            tgt = os.path.join(root, rel[ti])
            # the same destination can be spelled through a directory link: when the target lies inside a directory that an
            # EARLIER link points at, every other such link goes through that link (the text must survive as written)
            via = [j for j in range(i) if nodes[j]["k"] == "link" and nodes[j]["t"] > 0 and nodes[nodes[j]["t"] - 1]["k"] == "dir"
                   and rel[ti].startswith(rel[nodes[j]["t"] - 1] + "/")]
            if via and R.random() < 0.6:
                j = via[0]
                tgt = os.path.join(root, rel[j], rel[ti][len(rel[nodes[j]["t"] - 1]) + 1:])
            os.symlink(os.path.relpath(tgt, os.path.dirname(full)), full)
    # modes and times, deepest first so that parents keep theirs
    for i in sorted(range(len(nodes)), key=lambda i: -rel[i].count("/")):
        n = nodes[i]
        full = os.path.join(root, rel[i])
        if n["k"] == "link":
            continue
        # files: also modes without owner-write but with group/other write, execute-only classes, sticky-free 9 bits
        mode = R.choice([0o400, 0o444, 0o600, 0o640, 0o644, 0o755, 0o777, 0o501, 0o466, 0o420, 0o575, 0o462, 0o406, 0o533, 0o646]) if n["k"] != "dir" \
            else R.choice([0o500, 0o555, 0o700, 0o750, 0o755, 0o777, 0o577, 0o571])
        if n["k"] != "dir":
            mode |= 0o400
        os.chmod(full, mode)
    for i in sorted(range(len(nodes)), key=lambda i: -rel[i].count("/")):
        n = nodes[i]
        full = os.path.join(root, rel[i])
        if n["k"] == "link":
            continue
        t = R.choice([0, 1, 86400 * 365, 946684800, 1234567890, 1700000000, 2000000000, 4102444799, 3000000000]) * 10 ** 9 + R.choice([0, 1, 123456789, 999999999, 500, 100])
        os.utime(full, ns=(t, t))
    return rel


def has_cycle(nodes):
    """the graph directory -> child, link -> target (Tree.tla's Acyclic): dereferencing is only defined without cycles"""
    n = len(nodes)
    edges = {i: set() for i in range(1, n + 1)}
    for j, nd in enumerate(nodes, start=1):
        if nd["p"]:
            edges[nd["p"]].add(j)
        if nd["k"] == "link" and nd["t"]:
            edges[j].add(nd["t"])
        elif nd["k"] == "link":
            edges[j].update(k for k, x in enumerate(nodes, start=1) if x["p"] == 0)     # a link to the root reaches every top-level node
    for i in range(1, n + 1):
        seen, todo = set(), list(edges[i])
        while todo:
            x = todo.pop()
            if x == i:
                return True
            if x not in seen:
                seen.add(x)
                todo.extend(edges[x])
    return False


def kind_of(st, size):
    if stat.S_ISLNK(st.st_mode):
        return "link"
    if stat.S_ISDIR(st.st_mode):
        return "dir"
    return "empty" if size == 0 else "file"


def compare(src_root, out_root, nodes, rel, deref):
    """walk the extracted tree; for every entry find its counterpart in the source and record the comparison"""
    # a node is known by its path with the directories in front of its last component resolved (names may recur in different
    # directories; below a dereferenced directory link the entries are those of the directory it points to)
    def canon(p):
        p = os.path.normpath(p)
        return os.path.join(os.path.realpath(os.path.dirname(p)), os.path.basename(p))

    canon_to_idx = {canon(os.path.join(src_root, r)): i + 1 for i, r in rel.items()}
    content_idx = {}
    for i, n in enumerate(nodes):
        if n["k"] in ("file", "empty"):
            content_idx[os.path.realpath(os.path.join(src_root, rel[i]))] = i + 1
    entries = []
    for dp, dn, fn in os.walk(out_root, followlinks=False):
        for name in sorted(dn + fn):
            full = os.path.join(dp, name)
            relp = os.path.relpath(full, out_root)
            comps = relp.split(os.sep)
            path = [canon_to_idx.get(canon(os.path.join(src_root, *comps[:k + 1])), 0) for k in range(len(comps))]
            st = os.lstat(full)
            src = os.path.join(src_root, relp)
            e = {"path": path, "what": kind_of(st, st.st_size), "src": 0, "mode_ok": True, "ticks": 0, "data_ok": True}
            try:
                sst = os.stat(src) if deref else os.lstat(src)
            except OSError:
                e["data_ok"] = False
                entries.append(e)
                continue
            if e["what"] == "link":
                tgt_here = os.readlink(full)
                e["data_ok"] = tgt_here == os.readlink(src)
                e["src"] = canon_to_idx.get(canon(os.path.join(os.path.dirname(src), tgt_here)), 0)
            elif e["what"] == "dir":
                real = os.path.realpath(src)
                e["src"] = canon_to_idx.get(canon(real), 0)
                e["mode_ok"] = stat.S_IMODE(st.st_mode) == stat.S_IMODE(sst.st_mode)
                e["ticks"] = min(abs(st.st_mtime_ns - sst.st_mtime_ns) // 100, 10 ** 9)
            else:
                e["src"] = content_idx.get(os.path.realpath(src), 0)
                e["data_ok"] = open(full, "rb").read() == open(src, "rb").read()
                e["mode_ok"] = stat.S_IMODE(st.st_mode) == stat.S_IMODE(sst.st_mode)
                e["ticks"] = min(abs(st.st_mtime_ns - sst.st_mtime_ns) // 100, 10 ** 9)
            entries.append(e)
    return entries


def make_writable(root):
    for dp, dn, fn in os.walk(root):
        try:
            os.chmod(dp, 0o700)
        except OSError:
            pass


def run_case(case):
    """case: {nodes, deref, seed, via: api|shutil|cli, arcname, password, wd}"""
    from .common import import_py7zr

    py7zr = import_py7zr()
    import subprocess
    import sys

    wd = case["wd"]
    os.makedirs(wd, exist_ok=True)
    nodes, deref = case["nodes"], case["deref"]
    src_root = os.path.join(wd, "src", "tree")
    rel = build(src_root, nodes, case["seed"])
    arc = os.path.join(wd, "a.7z")
    out = os.path.join(wd, "out")
    obs = {"e": "obs", "ok": True, "exc": "", "entries": []}
    cwd = os.getcwd()
    try:
        os.chdir(os.path.join(wd, "src"))
        if case["via"] == "api" and case.get("arcroot"):
            # the tree's entries at the root of the archive (chdir into it, writeall(".")): a link that climbs to the tree's root
            # resolves to the extraction directory itself
            os.chdir(src_root)
            with py7zr.SevenZipFile(arc, "w", dereference=deref, password=case.get("password")) as z:
                z.writeall(".")
            os.chdir(os.path.join(wd, "src"))
            with py7zr.SevenZipFile(arc, "r", password=case.get("password")) as z:
                z.extractall(out)
            top = ""
        elif case["via"] == "api":
            # how the caller spells the tree's path: plainly, with './', absolutely, with a trailing '/', through '..' from a sibling
            sp = case.get("spelling") or "plain"
            if sp == "climb":
                os.makedirs(os.path.join(wd, "src", "sibling"), exist_ok=True)
                os.chdir(os.path.join(wd, "src", "sibling"))
            arg = {"plain": "tree", "dot": "./tree", "abs": src_root, "slash": "tree/", "climb": "../tree", "inner": "tree/../tree"}[sp]
            with py7zr.SevenZipFile(arc, "w", dereference=deref, password=case.get("password")) as z:
                z.writeall(arg, case.get("arcname"))
            os.chdir(os.path.join(wd, "src"))
            with py7zr.SevenZipFile(arc, "r", password=case.get("password")) as z:
                z.extractall(out)
            top = case.get("arcname") or ("tree" if sp != "abs" else src_root.lstrip("/"))
        elif case["via"] == "shutil":
            import shutil as sh
            try:
                sh.register_archive_format("7zip", py7zr.pack_7zarchive, description="7zip archive")
                sh.register_unpack_format("7zip", [".7z"], py7zr.unpack_7zarchive)
            except Exception:  # noqa
                pass
            sh.make_archive(os.path.join(wd, "a"), "7zip", root_dir=os.path.join(wd, "src"), base_dir="tree")
            sh.unpack_archive(arc, out)
            top = "tree"
        else:
            env = dict(os.environ, PYTHONPATH=os.environ.get("VERIF_REPO", "/repo"))
            r1 = subprocess.run([sys.executable, "-m", "py7zr", "c", arc, "tree"], env=env, capture_output=True, text=True, timeout=120)
            r2 = subprocess.run([sys.executable, "-m", "py7zr", "x", arc, out], env=env, capture_output=True, text=True, timeout=120)
            if r1.returncode or r2.returncode:
                raise RuntimeError(f"cli exit {r1.returncode}/{r2.returncode}: {r1.stderr[-200:]} {r2.stderr[-200:]}")
            top = "tree"
        got_root = os.path.join(out, top) if top else out
        obs["entries"] = compare(src_root, got_root, nodes, rel, deref)
        stray = [x for x in os.listdir(out) if x != top.split("/")[0]] if top else []
        if stray:
            obs["ok"], obs["exc"] = False, f"unexpected entries next to the tree: {stray[:3]}"
    except Exception as e:  # noqa
        obs["ok"] = False
        obs["exc"] = type(e).__name__ + ":" + str(e)[:200]
    finally:
        os.chdir(cwd)
        make_writable(wd)
        shutil.rmtree(wd, ignore_errors=True)
    return [{"e": "tree", "nodes": nodes, "deref": deref, "via": case["via"]}, obs]
