"""Layouts for the reference writer (harness/refcodec) and bases for append sessions."""
import glob
import hashlib
import os

from .refcodec import read_archive, write_archive
from .refcodec.errors import RefCodecError, Unsupported, FormatError, NeedPassword
from .refcodec.selftest import gen_layout, expected_members, describe, PASSWORDS, CORRUPT  # noqa

FIXTURES = "/repo/tests/data"


def fixture_archives():
    """(name, bytes, password) of every complete single-file third-party archive shipped with the test-suite"""
    for path in sorted(glob.glob(os.path.join(FIXTURES, "*.7z"))):
        name = os.path.basename(path)
        if name in CORRUPT:
            continue
        with open(path, "rb") as f:
            yield name, f.read(), PASSWORDS.get(name, "secret" if name.startswith("encrypted") else None)


def ref_members(raw, password=None, strict=True):
    """read with the reference reader -> list of member dicts, or raises RefCodecError"""
    return read_archive(raw, password, strict=strict).members


def base_from_members(raw, members, first_n=100):
    """(raw, [[n,c]...], contents{c:bytes}, names{(n,c):str}) for wsession.run_history(base=...)"""
    ms, contents, names, byhash = [], {}, {}, {}
    for i, m in enumerate(members):
        n = first_n + i
        if m["kind"] == "dir":
            c = 0
        elif m["kind"] == "empty" or (m["data"] is not None and len(m["data"]) == 0):
            c = 1
        else:
            c = byhash.setdefault(hashlib.sha256(m["data"]).digest(), first_n + i)   # identical contents share one id
            contents[c] = m["data"]
        ms.append((n, c))
        names[(n, c)] = m["name"]
    contents[1] = b""
    return raw, ms, contents, names
