"""./check setup : offline self-check of the tool chain; parses every specification module with SANY."""
import glob
import os
import subprocess
import sys

from .common import SPEC, VERIF
from . import tlc


def main():
    ok = True
    for tool in ("java",):
        if subprocess.run(["which", tool], stdout=subprocess.DEVNULL).returncode != 0:
            print("missing tool", tool)
            ok = False
    for p in sorted(glob.glob(os.path.join(SPEC, "*.tla"))):
        m = os.path.basename(p)[:-4]
        good, out = tlc.sany(m)
        print(("ok   " if good else "FAIL ") + m)
        if not good:
            print(out[-1500:])
            ok = False
    try:
        sys.path.insert(0, os.environ.get("VERIF_REPO", "/repo"))
        import py7zr  # noqa

        print("py7zr from", py7zr.__file__)
    except Exception as e:
        print("cannot import py7zr:", e)
        ok = False
    os.makedirs(os.path.join(VERIF, "evidence"), exist_ok=True)
    os.makedirs(os.path.join(VERIF, "replays"), exist_ok=True)
    return 0 if ok else 1
