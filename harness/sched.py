"""Deterministic scheduler for multi-folder extraction (C13, C18).

The worker threads of py7zr's parallel path are forced into a given interleaving by gates at their output writes: every
member's product blocks in its first write() until the schedule says it is that folder's turn.  Callbacks are harness
objects that can block for a while.  Everything runs inside a sandbox child; a stuck schedule is released after a grace
period and reported as 'schedule not enforced' (never as a violation)."""
import io
import os
import threading
import time
import zlib

from . import rsession
from .refcodec import write_archive


class Gate:
    def __init__(self, schedule, grace=4.0):
        self.schedule = list(schedule)
        self.pos = 0
        self.cv = threading.Condition()
        self.enforced = True
        self.grace = grace
        self.order = []
        self.finished = set()

    def turn(self, key):
        """block until it is key's turn; returns when the caller may write"""
        with self.cv:
            t0 = time.time()
            while self.enforced:
                self._skip_finished()
                if self.pos >= len(self.schedule) or self.schedule[self.pos] == key:
                    break
                if key not in self.schedule[self.pos:]:
                    break  # not scheduled (extra write): let it pass
                if not self.cv.wait(timeout=0.25) and time.time() - t0 > self.grace:
                    self.enforced = False
                    self.cv.notify_all()
            self.order.append(key)

    def done(self, key):
        with self.cv:
            if self.enforced and self.pos < len(self.schedule) and self.schedule[self.pos] == key:
                self.pos += 1
            self.cv.notify_all()

    def worker_finished(self, key):
        with self.cv:
            self.finished.add(key)
            self._skip_finished()
            self.cv.notify_all()

    def _skip_finished(self):
        while self.pos < len(self.schedule) and self.schedule[self.pos] in self.finished:
            self.pos += 1


def build_multi(shape_sizes, seed=0, coder="lzma2", damaged=(), password=None, incompressible=False, shared_parent=False, siblings=False):
    """archive with len(shape_sizes) folders; member (f,i) has pseudo-random content of 1000*size+f bytes.
    Returns raw, names{(f,i): name}, contents, packregions"""
    import random

    R = random.Random(seed)
    files, names, contents = [], {}, {}
    folders = []
    for f, sz in enumerate(shape_sizes, start=1):
        if f == 2:
            files.append({"name": "dir-between", "kind": "dir"})       # a directory between the folders' members
            files.append({"name": "zero-ü", "kind": "empty"})          # ... and an empty file: stream-less members are reported as well
        for i, s in enumerate(sz, start=1):
            # shared_parent: members of different folders under one directory that has no entry of its own (every worker creates it)
            nm = f"f{f}/m{i}-ü.bin" if not shared_parent else f"shared/sub/f{f}m{i}-ü.bin"
            if siblings:
                # members of different folders in one directory whose names differ in the last suffix only (report.txt / report.csv)
                nm = f"shared/sub/report-ü.f{f}m{i}"
            if incompressible:
                # a flipped byte ends up in a stored chunk: the decoder cannot notice, only the member's CRC does
                data = R.randbytes(970 * s) + bytes([f, i])
            else:
                data = bytes(R.getrandbits(8) for _ in range(97)) * (s * 10) + bytes([f, i])
            files.append({"name": nm, "kind": "file", "data": data})
            names[(f, i)] = nm
            contents[(f, i)] = data
        folders.append({"nfiles": len(sz), "coders": [{"id": coder}] + ([{"id": "aes"}] if password else []), "crc": "substream"})
    raw, regions = write_archive({"files": files, "folders": folders, "password": password})
    raw = bytearray(raw)
    for f in damaged:
        a, b = regions[f"pack{f - 1}"][0]
        raw[a + (b - a) // 2] ^= 0x5A
    return bytes(raw), names, contents


class SlowCallback:
    """records completed callbacks; every method can take `delay` seconds"""

    def __init__(self, base, log, delay, names_rev):
        self.log = log
        self.delay = delay
        self.names_rev = names_rev

    def _rec(self, k, name=None, n=0):
        d = self.delay.get(k, 0) if isinstance(self.delay, dict) else self.delay     # a dict delays the named kinds of event only
        if k == "post":
            self.entered_post.set()
        if d:
            time.sleep(d)
        f, i = self.names_rev.get(name, (0, 1 + sum(map(ord, name)) % 1000)) if name else (0, 0)   # f = 0: not a data member (directory)
        self.log.append({"e": "cb", "k": k, "f": f, "i": i, "n": int(n), "thread": threading.get_ident() % 100000, "cb": self.cbid})


def make_callback(py7zr, log, delay, names_rev):
    from py7zr.callbacks import ExtractCallback

    class CB(ExtractCallback):
        def report_start_preparation(self):
            SlowCallback._rec(self, "pre")

        def report_start(self, processing_file_path, processing_bytes):
            SlowCallback._rec(self, "s", processing_file_path)

        def report_update(self, decompressed_bytes):
            SlowCallback._rec(self, "u", None, decompressed_bytes)

        def report_end(self, processing_file_path, wrote_bytes):
            SlowCallback._rec(self, "e", processing_file_path, wrote_bytes)

        def report_postprocess(self):
            SlowCallback._rec(self, "post")

        def report_warning(self, message):
            pass

    cb = CB()
    cb.log, cb.delay, cb.names_rev = log, delay, names_rev
    cb.entered_post = threading.Event()
    cb.cbid = 1
    return cb


def run_case(case):
    """case: {sizes, damaged, mode: thread|process|seq|two, schedule, callback: none|fast|slow, sink: factory|path, seed, wd, targets}"""
    from .common import import_py7zr

    py7zr = import_py7zr()
    import py7zr.py7zr as P

    wd = case["wd"]
    os.makedirs(wd, exist_ok=True)
    sizes = case["sizes"]
    raw, names, contents = build_multi(sizes, seed=case.get("seed", 0), coder=case.get("coder", "lzma2"), damaged=case.get("damaged", []),
                                       incompressible=case.get("incompressible", False), shared_parent=case.get("shared_parent", False), siblings=case.get("siblings", False))
    names_rev = {v: k for k, v in names.items()}
    path = os.path.join(wd, "a.7z")
    with open(path, "wb") as f:
        f.write(raw)
    mode = case["mode"]
    log = []
    gate = Gate(case.get("schedule") or [], grace=case.get("grace", 4.0))
    folder_of = {nm: k[0] for k, nm in names.items()}
    # "unwritable output": the LAST member of each folder in case["failsink"] cannot be written (a product whose write raises ENOSPC;
    # for a directory sink, a non-empty directory standing where the file is to be created)
    unwritable = {names[(f, len(sizes[f - 1]))] for f in case.get("failsink", [])}

    class GatedIO(py7zr.io.Py7zIO):
        def __init__(self, fname, key):
            self.fname, self.key = fname, key
            self.buf = io.BytesIO()
            self.first = True

        def write(self, s):
            if (self.first or case.get("fine")) and len(s) > 0:      # fine: every write takes a turn (reads interleave too)
                self.first = False
                gate.turn(self.key)
                try:
                    if self.fname in unwritable:
                        raise OSError(28, "No space left on device (injected)")
                    return self.buf.write(s)
                finally:
                    gate.done(self.key)
            if self.fname in unwritable and len(s) > 0:
                raise OSError(28, "No space left on device (injected)")
            return self.buf.write(s)

        def read(self, size=None):
            return self.buf.read() if size is None else self.buf.read(size)

        def seek(self, offset, whence=0):
            return self.buf.seek(offset, whence)

        def flush(self):
            pass

        def size(self):
            return self.buf.getbuffer().nbytes

    class GatedFactory(py7zr.io.WriterFactory):
        def __init__(self, obj=0):
            self.products = {}
            self.obj = obj

        def create(self, filename):
            key = folder_of.get(filename, 0) + 10 * self.obj
            p = GatedIO(filename, key)
            self.products[filename] = p
            return p

    # tell the gate when a worker thread is over (a damaged folder never writes its remaining members)
    orig_es = P.Worker.extract_single

    def es(self, fp, files, path_, src_start, src_end, q, exc_q=None, skip_notarget=True):
        try:
            return orig_es(self, fp, files, path_, src_start, src_end, q, exc_q, skip_notarget)
        finally:
            try:
                first = next(iter(files)) if files is not None else None
                if first is not None and first.filename in folder_of:
                    gate.worker_finished(folder_of[first.filename] + 10 * getattr(self, "_vobj", 0))
            except Exception:  # noqa
                pass

    P.Worker.extract_single = es
    # a worker PROCESS that dies (the kernel's OOM killer, a crash in a codec library) while writing the last member of its folder:
    # in the child, the output object handed to Worker.decompress writes half of its first piece and then kills the process
    orig_dec = P.Worker.decompress
    if case.get("suicide"):
        import multiprocessing as _mp
        import signal as _sig
        counts = {}

        def dec(self, fp, folder, fq, *a, **kw):
            if _mp.current_process().name != "MainProcess":
                try:
                    fi = self.header.main_streams.unpackinfo.folders.index(folder) + 1
                except ValueError:
                    fi = 0
                counts[fi] = counts.get(fi, 0) + 1
                if fi in case["suicide"] and counts[fi] == len(sizes[fi - 1]):
                    class Dying:
                        def __init__(self, inner):
                            self.inner = inner

                        def write(self, s):
                            self.inner.write(s[:max(1, len(s) // 2)])
                            self.inner.flush()
                            os.kill(os.getpid(), _sig.SIGKILL)

                        def __getattr__(self, n):
                            return getattr(self.inner, n)
                    fq = Dying(fq)
            return orig_dec(self, fp, folder, fq, *a, **kw)

        P.Worker.decompress = dec
    # worker threads meet at the entry of the named Worker methods (k-th call of each thread with the k-th call of the others): windows
    # of a few bytecodes between one worker's step and another's become certain interleavings
    o_rz = {}
    if case.get("rendezvous"):
        rz_lock, rz_bar, rz_cnt = threading.Lock(), {}, {}
        rz_parties = case.get("rendezvous_parties", len(sizes))

        def _meet(name):
            if threading.current_thread() is threading.main_thread():
                return
            tid = threading.get_ident()
            with rz_lock:
                k = rz_cnt[(name, tid)] = rz_cnt.get((name, tid), 0) + 1
                b = rz_bar.setdefault((name, k), threading.Barrier(rz_parties))
            try:
                b.wait(0.3)
            except threading.BrokenBarrierError:
                pass

        def _wrap(name):
            inner = getattr(P.Worker, name)

            def w(self, *a, **kw):
                _meet(name)
                return inner(self, *a, **kw)
            return inner, w

        for name in case["rendezvous"]:
            if hasattr(P.Worker, name):
                o_rz[name], wrapped = _wrap(name)
                setattr(P.Worker, name, wrapped)
    o_mkdir = os.mkdir
    if case.get("mkdir_rendezvous"):
        # two workers creating the same directory meet inside os.mkdir: the first to arrive waits a moment for a second one
        mk_lock, mk_wait = threading.Lock(), {}

        def mkdir(path, mode=0o777, *a, **kw):
            key = os.fspath(path)
            with mk_lock:
                evt = mk_wait.get(key)
                first = evt is None
                if first:
                    evt = mk_wait[key] = threading.Event()
            if first:
                evt.wait(0.4)
            else:
                evt.set()
            return o_mkdir(path, mode, *a, **kw)

        os.mkdir = mkdir
    o_limit = P.get_memory_limit
    if case.get("limit"):
        P.get_memory_limit = lambda: case["limit"]     # several decode iterations per member
    import py7zr.compressor as Cm
    o_block = Cm.get_default_blocksize
    if case.get("block"):
        Cm.get_default_blocksize = lambda: case["block"]   # several reads of packed data per folder
    want = sorted(k for k in names if (not case.get("targets")) or names[k] in case["targets"])
    real_sizes = [[len(contents[(f, i)]) for i in range(1, len(sz) + 1)] for f, sz in enumerate(sizes, start=1)]
    # stream-less members (directories, empty files) of a full extraction are processed and reported too; ids as SlowCallback._rec assigns them
    streamless = [[0, 1 + sum(map(ord, nm)) % 1000] for nm in (["dir-between", "zero-ü"] if len(sizes) >= 2 and not case.get("targets") else [])]
    trace = [{"e": "arch", "sizes": real_sizes, "damaged": sorted(case.get("damaged", [])), "mode": mode, "delivered": [list(k) for k in want],
              "streamless": streamless, "failsink": sorted(set(case.get("failsink", [])) | set(case.get("suicide", [])))}]
    cwd0 = os.getcwd()
    try:
        src = path if mode in ("thread", "process", "two") else io.BytesIO(raw)
        if case.get("relname") and src is path:
            # the archive is opened by a relative name and the caller changes directory before extracting
            os.chdir(wd)
            src = "a.7z"
        objs = [py7zr.SevenZipFile(src, "r", mp=(mode == "process"))]
        if case.get("relname"):
            os.makedirs(os.path.join(wd, "elsewhere"), exist_ok=True)
            os.chdir(os.path.join(wd, "elsewhere"))
        if mode == "two":
            objs.append(py7zr.SevenZipFile(path, "r"))
        delay = {"none": None, "fast": 0, "slow": 0.12, "slowpost": {"post": 0.4}, "slowlast": {"e": 0.03, "post": 0.3}}.get(case.get("callback", "none"))
        cb = make_callback(py7zr, log, delay, names_rev) if case.get("callback", "none") != "none" else None
        cbs = [cb]
        results = [None] * len(objs)

        rounds = {"n": 0}

        def do(oi):
            z = objs[oi]
            z.worker._vobj = oi
            if "reset" not in z.__dict__:
                # extract() replaces the worker (it resets the session itself): the new one belongs to the same object
                def reset_keeping_tag(_z=z, _oi=oi, _orig=z.reset):
                    _orig()
                    _z.worker._vobj = _oi
                z.reset = reset_keeping_tag
            rounds["n"] += 1
            use_cb = None
            if oi == 0 and cb is not None and rounds["n"] not in case.get("nocb", []):
                # every extraction that reports does so to a callback object of its own, numbered in the order of use
                if rounds.get("used"):
                    nxt = make_callback(py7zr, log, 0 if len(cbs) % 2 else delay, names_rev)
                    nxt.cbid = len(cbs) + 1
                    cbs.append(nxt)
                rounds["used"] = True
                use_cb = cbs[-1]
            res = {"e": "result", "raised": False, "exc": "", "good": [], "bad": []}
            try:
                if case.get("sink", "factory") == "path":
                    od = os.path.join(wd, f"out{oi}")
                    for nm in unwritable:
                        os.makedirs(os.path.join(od, nm, "occupied"))
                    if case.get("targets"):
                        z.extract(od, targets=case["targets"], callback=use_cb)
                    else:
                        z.extractall(od, callback=use_cb)
                    got = {}
                    for k, nm in names.items():
                        p = os.path.join(od, nm)
                        if os.path.isfile(p):
                            got[k] = open(p, "rb").read()
                else:
                    fac = GatedFactory(oi)
                    if case.get("targets"):
                        z.extract(targets=case["targets"], factory=fac, callback=use_cb)
                    else:
                        z.extractall(factory=fac, callback=use_cb)
                    got = {names_rev[nm]: p.buf.getvalue() for nm, p in fac.products.items() if nm in names_rev}
                for k, d in got.items():
                    (res["good"] if d == contents[k] else res["bad"]).append(list(k))
            except Exception as e:  # noqa
                res["raised"] = True
                res["exc"] = type(e).__name__ + ":" + str(e)[:80]
            res["good"].sort()
            res["bad"].sort()
            results[oi] = res

        if mode == "two":
            ths = [threading.Thread(target=do, args=(oi,)) for oi in range(2)]
            for t in ths:
                t.start()
            for t in ths:
                t.join()
        else:
            do(0)
            for _ in range(case.get("repeat", 1) - 1):      # further extractions in the same session, after reset()
                first = results[0]
                objs[0].reset()
                do(0)
                if first["raised"] or first["bad"]:
                    results[0] = first
        ncb_before = len(log)
        cexc = ""
        if cb is not None and case.get("callback") in ("slowpost", "slowlast"):
            # the caller closes while the reporter is inside its last handler (fetched, not yet delivered) - a schedule, not a guess
            cb.entered_post.wait(1.0)
        try:
            objs[0].close()
        except Exception as e:  # noqa
            cexc = type(e).__name__ + ":" + str(e)[:80]
        at_close = len(log)
        for o in objs[1:]:
            o.close()
        if cb is not None and case.get("callback") in ("slow", "slowpost", "slowlast"):
            time.sleep(1.5)          # anything still delivered now arrives after close() returned
        trace += log[:at_close]
        trace.append(results[0])
        trace.append({"e": "closeret", "exc": cexc, "callback": cb is not None})
        trace += log[at_close:]      # late callbacks, if any
        extra = {"order": gate.order, "enforced": gate.enforced, "second": results[1] if mode == "two" else None}
        return {"trace": trace, "extra": extra}
    finally:
        for name, inner in o_rz.items():
            setattr(P.Worker, name, inner)
        P.Worker.extract_single = orig_es
        P.Worker.decompress = orig_dec
        os.chdir(cwd0)
        os.mkdir = o_mkdir
        P.get_memory_limit = o_limit
        Cm.get_default_blocksize = o_block
