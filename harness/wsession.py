"""Execute write-session histories (from TLC or from a random driver) against the real SevenZipFile and record the
trace that TraceWriteSession.tla validates.  Faults are injected through the public API only:
  badname  -> a climbing arcname           missing -> a path that does not exist
  lstat    -> pathlib subclass whose lstat raises EACCES
  open     -> pathlib subclass whose open raises EIO
  read     -> stream / file whose read raises EIO after k bytes
"""
import errno
import hashlib
import io
import os
import pathlib
import random
import re

NAMES = {1: "dir/sub/älpha", 2: "b日本.bin", 3: "c:x/\U0001F600 sp ace", 4: ".hidden/..x", 5: "ctl\x01\x1f/z"}


def content(c: int, size=None) -> bytes:
    r = random.Random(c * 7919 + 13)
    if size is None:
        size = [5, 33, 300, 4097, 70000][c % 5]
    blk = bytes(r.getrandbits(8) for _ in range(min(size, 64)))
    reps = size // max(1, len(blk)) + 1
    return (blk * reps)[:size] if size else b""


def member_name(n: int, c: int) -> str:
    return f"{NAMES.get(n, 'n%d' % n)}_{c}"

from .common import MachineryError


class Counter:
    def __init__(self):
        self.tries = {}  # content id -> accesses

    def hit(self, c):
        self.tries[c] = self.tries.get(c, 0) + 1


class FaultyStream(io.BufferedIOBase):
    """binary stream over data whose read() raises EIO once fail_after bytes have been handed out"""

    def __init__(self, data: bytes, fail_after, counter: Counter, cid: int):
        self._d = data
        self._p = 0
        self._fail = fail_after
        self._cnt = counter
        self._cid = cid
        self._touched = False

    def readable(self):
        return True

    def seekable(self):
        return True

    def tell(self):
        if getattr(self, "_dead", False):
            raise OSError(5, "Input/output error (the device is gone)")
        return self._p

    def seek(self, off, whence=0):
        if getattr(self, "_dead", False):
            raise OSError(5, "Input/output error (the device is gone)")       # a source that fails for good fails on every call afterwards
        if whence == 0:
            self._p = off
        elif whence == 1:
            self._p += off
        else:
            self._p = len(self._d) + off
        return self._p

    def read(self, n=-1):
        if not self._touched:
            self._touched = True
            self._cnt.hit(self._cid)
        if n is None or n < 0:
            n = len(self._d) - self._p
        if self._fail is not None and self._p + n > self._fail and self._p < len(self._d):
            # hand out what is allowed first, then fail
            if self._p < self._fail:
                out = self._d[self._p:self._fail]
                self._p = self._fail
                return out
            if self._cid % 2:
                self._dead = True        # every other faulty source is gone for good: seek() and tell() fail from now on as well
            raise OSError(errno.EIO, "injected read fault")
        out = self._d[self._p:self._p + n]
        self._p += len(out)
        return out

    def __enter__(self):
        return self

    def __exit__(self, *a):
        return False


def make_path_class():
    base = type(pathlib.Path("/"))

    class FaultyPath(base):
        """a real path whose lstat/open can be made to fail; counts accesses"""
        _faults = {}

        def _key(self):
            return os.fspath(self)

        def lstat(self):
            f = FaultyPath._faults.get(self._key())
            if f and f["fault"] == "lstat":
                raise PermissionError(errno.EACCES, "injected lstat fault", self._key())
            return super().lstat()

        def open(self, mode="r", *a, **k):
            f = FaultyPath._faults.get(self._key())
            if f:
                f["counter"].hit(f["cid"])
                if f["fault"] == "open":
                    raise OSError(errno.EIO, "injected open fault", self._key())
                if f["fault"] == "read":
                    data = open(self._key(), "rb").read()
                    st = FaultyStream(data, f["after"], Counter(), f["cid"])
                    return st
            return super().open(mode, *a, **k)

    return FaultyPath


FaultyPath = make_path_class()


def projection(z):
    """the I-level projection of a write-mode SevenZipFile"""
    nfiles = len(z.files)
    hf = len(z.header.files_info.files) if getattr(z.header, "files_info", None) is not None else 0
    widx = z.worker.current_file_index
    ms = getattr(z.header, "main_streams", None)
    nsubs = len(ms.substreamsinfo.digests) if ms is not None and ms.substreamsinfo is not None else 0
    return nfiles, hf, widx, nsubs


def run_history(py7zr, hist, workdir, *, target="path", filters_by_session=None, password=None, header_modes=None, base=None,
                read_kmode="half", ref_reader=None, content_fn=content):
    """hist: list of {op: open|call|close, ...}.  Returns the trace (list of events).
    base: optional (bytes, members[[n,c]], contents{c: bytes}, names{(n,c): str}) produced by another writer."""
    os.makedirs(workdir, exist_ok=True)
    arc_path = os.path.join(workdir, "t.7z")
    stream = None
    trace = []
    contents = {1: b""}  # c -> bytes (1 = the empty file)
    names = {}  # (n, c) -> str
    sess = 0
    z = None
    counter = Counter()
    failed = set()
    if base is not None:
        data, members, bcont, bnames = base
        with open(arc_path, "wb") as f:
            f.write(data)
        contents.update(bcont)
        names.update(bnames)
        first = read_back(py7zr, data, contents, names, password, ref_reader)
        if not first["ok"] or any(m["c"] < 0 or m["n"] == 0 for m in first["members"]) or len(first["members"]) != len(members):
            # py7zr does not read this foreign archive correctly to begin with: reader conformance is C06, not C08
            return [{"e": "skip", "why": "base not read correctly by py7zr: " + first.get("err", "")[:80]}]
        trace.append({"e": "base", "members": first["members"], "metas": first["metas"],
                      "refmetas": first["ref"]["metas"] if first["ref"].get("present") and first["ref"].get("ok") else [],
                      "times2": first["ref"].get("times2", []) if first["ref"].get("present") and first["ref"].get("ok") else []})
        sess = 1
    if target.startswith("stream"):
        stream = io.BytesIO(open(arc_path, "rb").read() if base is not None else b"")
    ncalls = 0
    for h in hist:
        if h["op"] == "open":
            sess += 1
            ncalls = 0
            mode = "w" if sess == 1 else "a"
            filt = (filters_by_session or {}).get(sess)
            kw = {}
            if filt is not None:
                kw["filters"] = filt
            if password is not None:
                kw["password"] = password
            if target.startswith("stream"):
                # where the caller's stream stands when the session opens: rewound, wherever the last session (or nobody) left it, at its end
                if target == "stream":
                    stream.seek(0)
                elif target == "stream-end":
                    stream.seek(0, 2)
                z = py7zr.SevenZipFile(stream, mode, **kw)
            else:
                z = py7zr.SevenZipFile(arc_path, mode, **kw)
            hm = (header_modes or {}).get(sess)
            if hm == "raw":
                z.set_encoded_header_mode(False)
            elif hm == "encrypted":
                z.set_encrypted_header(True)
            trace.append({"e": "open", "mode": mode})
        elif h["op"] == "call":
            ncalls += 1
            c = sess * 10 + ncalls
            n = h["n"]
            k, fault = h["k"], h["fault"]
            data = content_fn(c)
            contents[c] = data
            nm = member_name(n, c)
            # write() strips a drive-like prefix from the stored name on purpose (C16); writestr/writef keep it
            names[(n, c)] = re.sub(r"^[a-zA-Z]:/*", "", nm) if k in ("write", "writedir") else nm
            trace.append({"e": "call", "k": k, "n": n, "fault": fault})
            before_failed = {x: counter.tries.get(x, 0) for x in failed}
            exc = "none"
            try:
                # "its arguments are rejected": a climbing or absolute name, a name or content of a type the call does not take
                # (a name the header cannot hold: a lone surrogate as os.listdir gives for a file name that is not UTF-8, an embedded NUL)
                bad = c % 6 if fault == "badname" else -1
                unstorable = {4: "caf\udce9-" + nm, 5: "nul\x00-" + nm}
                if k == "writestr":
                    if bad == 2:
                        z.writestr(len(data), nm)
                    elif bad == 3:
                        z.writestr(data, None)
                    elif bad >= 4:
                        z.writestr(data, unstorable[bad])
                    else:
                        z.writestr(data, ["../" + nm, "/abs/" + nm][bad] if bad >= 0 else nm)
                elif k == "writef" and bad in (2, 3):
                    z.writef(io.StringIO("text, not bytes") if bad == 2 else data, nm)
                elif k == "writef" and bad >= 4:
                    z.writef(io.BytesIO(data), unstorable[bad])
                elif k == "writef":
                    if fault == "read":
                        after = 0 if read_kmode == "zero" else len(data) // 2
                        src = FaultyStream(data, after, counter, c)
                    else:
                        src = FaultyStream(data, None, counter, c)
                    z.writef(src, ["../" + nm, "/abs/" + nm][bad] if bad >= 0 else nm)
                elif k == "writedir":
                    p = os.path.join(workdir, f"dir_{c}")
                    if fault != "missing":
                        os.makedirs(p, exist_ok=True)
                    fp = FaultyPath(p)
                    FaultyPath._faults[p] = {"fault": fault, "counter": counter, "cid": c, "after": 0}
                    z.write(fp, nm)
                else:
                    p = os.path.join(workdir, f"src_{c}")
                    if fault == "lstat" and c % 3 == 0:
                        # a source that exists but is no file, directory or link (a FIFO): rejected like a source that cannot be stat'ed
                        os.mkfifo(p)
                        z.write(p, nm)
                        raise MachineryError("write() of a FIFO returned")
                    if fault != "missing":
                        with open(p, "wb") as f:
                            f.write(data)
                    fp = FaultyPath(p)
                    after = 0 if read_kmode == "zero" else len(data) // 2
                    FaultyPath._faults[p] = {"fault": fault, "counter": counter, "cid": c, "after": after}
                    z.write(fp, nm)
            except Exception as e:  # noqa
                exc = type(e).__name__
                failed.add(c)
            nfiles, hf, widx, nsubs = projection(z)
            stale = sum(counter.tries.get(x, 0) - before_failed[x] for x in before_failed)
            trace.append({"e": "ret", "exc": exc, "nfiles": nfiles, "hfiles": hf, "widx": widx, "nsubs": nsubs,
                          "tries": counter.tries.get(c, 0), "stale": stale})
        elif h["op"] == "writeall":
            # one writeall() of a real directory tree; py7zr archives it entry by entry through write(): every entry is recorded as a
            # call of its own (a wrapper on this object's write), so the composite is judged by the same specification actions.
            # entries[0] is the directory itself; the nested entries sort in the order given.
            ents = h["entries"]
            tree = os.path.join(workdir, f"tree_{sess}_{ncalls}")
            os.makedirs(tree, exist_ok=True)
            arc_top = re.sub(r"^[a-zA-Z]:/*", "", member_name(ents[0]["n"], 900 + sess * 10 + ncalls))
            plan = {tree: ["writedir", ents[0]["n"], "none", arc_top, None]}
            for j, e in enumerate(ents[1:]):
                fn = f"e{j:02d}"
                pth = os.path.join(tree, fn)
                data = None
                if e["k"] == "writedir":
                    os.makedirs(pth, exist_ok=True)
                    FaultyPath._faults[pth] = {"fault": e["fault"], "counter": counter, "cid": 0, "after": 0}
                else:
                    data = content_fn(700 + sess * 100 + ncalls * 10 + j)          # distinct contents; the id is given when the entry is reached
                    with open(pth, "wb") as f:
                        f.write(data)
                    FaultyPath._faults[pth] = {"fault": e["fault"], "counter": counter, "cid": 0, "after": 0 if read_kmode == "zero" else len(data) // 2}
                plan[pth] = [e["k"], e["n"], e["fault"], arc_top + "/" + fn, data]
            inner = z.write
            state = {"ncalls": ncalls}

            def logged_write(file, arcname=None, _inner=inner):
                k2, n2, fault2, arc2, data2 = plan.get(str(file), ["write", 0, "none", str(arcname), None])
                state["ncalls"] += 1
                c2 = sess * 10 + state["ncalls"]                      # numbered like every other call of the session
                if data2 is not None:
                    contents[c2] = data2
                names[(n2, c2)] = arc2
                if str(file) in FaultyPath._faults:
                    FaultyPath._faults[str(file)]["cid"] = c2
                trace.append({"e": "call", "k": k2, "n": n2, "fault": fault2})
                before = {x: counter.tries.get(x, 0) for x in failed}
                exc2 = "none"
                try:
                    return _inner(file, arcname)
                except Exception as e2:  # noqa
                    exc2 = type(e2).__name__
                    failed.add(c2)
                    raise
                finally:
                    nf, hf2, wi, ns = projection(z)
                    trace.append({"e": "ret", "exc": exc2, "nfiles": nf, "hfiles": hf2, "widx": wi, "nsubs": ns, "tries": counter.tries.get(c2, 0),
                                  "stale": sum(counter.tries.get(x, 0) - before[x] for x in before)})

            z.write = logged_write
            try:
                z.writeall(FaultyPath(tree), arc_top)
            except Exception:  # noqa
                pass
            finally:
                del z.write
                ncalls = state["ncalls"]
        elif h["op"] == "close":
            cexc = "none"
            try:
                z.close()
            except Exception as e:  # noqa
                cexc = type(e).__name__ + ":" + str(e)[:80]
            trace.append({"e": "close", "exc": cexc})
            if target.startswith("stream"):
                raw = stream.getvalue()
            else:
                raw = open(arc_path, "rb").read()
            rb = read_back(py7zr, raw, contents, names, password, ref_reader)
            trace.append(rb)
            if not rb["ok"]:
                break  # nothing sensible can follow on an archive that does not read
    FaultyPath._faults.clear()
    return trace


def read_back(py7zr, raw, contents, names, password=None, ref_reader=None):
    """open with py7zr, list and extract everything; map to [n, c] ids"""
    by_name = {v: k for k, v in names.items()}
    by_hash = {hashlib.sha256(v).digest(): k for k, v in contents.items()}
    ev = {"e": "reopen", "ok": True, "members": [], "metas": [], "err": ""}
    try:
        with py7zr.SevenZipFile(io.BytesIO(raw), "r", password=password) as r:
            got = r.getnames()
            infos = {f.filename: f for f in r.files}
            fac = py7zr.io.BytesIOFactory(1 << 30)
            r.extractall(factory=fac)
            for nm in got:
                n, c0 = by_name.get(nm, (0, 0))
                prod = fac.products.get(nm)
                data = prod.read() if prod is not None else None
                if data is not None:
                    c = by_hash.get(hashlib.sha256(data).digest(), -1)
                else:
                    c = 0 if (infos[nm].emptystream and infos[nm].is_directory) else -1
                ev["members"].append({"n": n, "c": c})
                fi = infos[nm]
                mt = int(fi.lastwritetime) if fi.lastwritetime is not None else -1
                at = fi._file_info.get("attributes")
                ev["metas"].append([n, c, mt % (1 << 20), (mt >> 20) % (1 << 20), (mt >> 40), (at if at is not None else -1) % (1 << 16),
                                    ((at if at is not None else -1) >> 16)])
    except Exception as e:  # noqa
        ev["ok"] = False
        ev["err"] = type(e).__name__ + ":" + str(e)[:100]
        ev["members"] = []
        ev["metas"] = []
    ev["ref"] = ref_reader(raw, password, by_name, by_hash) if ref_reader is not None else {"present": False}
    return ev


KINDCODE = {"file": 1, "dir": 2, "empty": 3, "symlink": 4}


def limbs(v, width=3):
    """non-negative int -> 20-bit limbs (TLC integers are 32-bit); None -> [-1]"""
    if v is None:
        return [-1] * (width + 1)
    return [(v >> (20 * i)) % (1 << 20) for i in range(width)] + [v >> (20 * width)]


def ref_reader(raw, password, by_name, by_hash):
    """the archive as the independent reference reader (strict) sees it"""
    from .refcodec import read_archive
    from .refcodec.errors import RefCodecError

    out = {"present": True, "ok": True, "members": [], "metas": [], "err": ""}
    try:
        # bytes after the header are not part of the archive (an append session that shrinks the archive leaves the tail of
        # the old file behind); readers ignore them, and no listed property forbids them
        if len(raw) >= 32:
            end = 32 + int.from_bytes(raw[12:20], "little") + int.from_bytes(raw[20:28], "little")
            if 32 <= end < len(raw):
                raw = raw[:end]
                out["trailing"] = True
        p = read_archive(raw, password, strict=True)
    except RefCodecError as e:
        out["ok"] = False
        out["err"] = type(e).__name__ + ":" + str(e)[:200]
        return out
    for m in p.members:
        n, _ = by_name.get(m["name"], (0, 0))
        if m["kind"] == "dir":
            c = 0
        elif m["data"] is not None and len(m["data"]) == 0:
            c = 1
        else:
            c = by_hash.get(hashlib.sha256(m["data"]).digest(), -1)
        out["members"].append({"n": n, "c": c})
        out["metas"].append([n, c, KINDCODE.get(m["kind"], 0)] + limbs(m["mtime"]) + limbs(m["attrib"], 1))
        # creation and last-access time: judged apart from the trace (a known finding must not end the validation of the rest)
        out.setdefault("times2", []).append([m.get("ctime"), m.get("atime")])
    return out
