"""Run one extraction of a hostile archive inside a scratch root and record every file-system mutation with the
location it resolves to at the moment it happens (interpreter audit hook), plus a before/after snapshot of
everything outside the jail.  Used by C03 (and C02).  Runs inside a sandbox child (audit hooks cannot be removed)."""
import hashlib
import io
import os
import stat
import sys

MUTATORS = {"os.mkdir", "os.symlink", "os.chmod", "os.utime", "os.remove", "os.rename", "os.truncate", "os.rmdir", "os.link", "os.chown",
            "os.mkfifo", "os.mknod", "shutil.rmtree"}


def _resolved(path, follow_leaf):
    path = os.fsdecode(path) if not isinstance(path, str) else path
    if not os.path.isabs(path):
        path = os.path.join(os.getcwd(), path)
    if follow_leaf:
        return os.path.realpath(path)
    d, b = os.path.split(path.rstrip("/")) if path.rstrip("/") else ("/", "")
    return os.path.join(os.path.realpath(d), b)


class Recorder:
    def __init__(self):
        self.on = False
        self.events = []

    def hook(self, event, args):
        if not self.on:
            return
        try:
            if event == "open":
                path, mode, flags = args[0], args[1], args[2]
                if isinstance(path, int) or path is None:
                    return
                writing = (flags & (os.O_WRONLY | os.O_RDWR | os.O_CREAT | os.O_TRUNC | os.O_APPEND)) != 0
                if writing:
                    loc = _resolved(path, True)
                    if not os.path.isdir(loc):          # opening a directory for writing fails (EISDIR): nothing is touched
                        self.events.append(("open", loc))
            elif event in MUTATORS:
                self.on = False
                try:
                    if event == "os.symlink":
                        self.events.append((event, _resolved(args[1], False)))
                    elif event == "os.rename" or event == "os.link":
                        self.events.append((event, _resolved(args[0], False)))
                        self.events.append((event, _resolved(args[1], False)))
                    elif event in ("os.chmod", "os.utime", "os.truncate", "os.chown"):
                        if not isinstance(args[0], int):
                            self.events.append((event, _resolved(args[0], True)))
                    elif event == "os.mkdir":
                        loc = _resolved(args[0], False)
                        # mkdir of something that exists (EEXIST) or below something that does not (ENOENT) fails: nothing is touched
                        if not os.path.lexists(loc) and os.path.isdir(os.path.dirname(loc)) and os.path.basename(loc) not in ("..", "."):
                            self.events.append((event, loc))
                    else:
                        loc = _resolved(args[0], False)
                        if os.path.lexists(loc):        # removing what does not exist fails: nothing is touched
                            self.events.append((event, loc))
                finally:
                    self.on = True
        except Exception as e:  # noqa
            self.events.append(("hook-error", repr(e)))


_REC = None


def recorder():
    global _REC
    if _REC is None:
        _REC = Recorder()
        sys.addaudithook(_REC.hook)
    return _REC


def snapshot(root, skip):
    """lstat + content hash of everything under root except the subtree skip"""
    out = {}
    for dp, dn, fn in os.walk(root, followlinks=False):
        if os.path.abspath(dp) == os.path.abspath(skip):
            dn[:] = []
            continue
        for n in dn + fn:
            p = os.path.join(dp, n)
            if os.path.abspath(p) == os.path.abspath(skip):
                continue
            st = os.lstat(p)
            h = ""
            if stat.S_ISREG(st.st_mode):
                h = hashlib.sha1(open(p, "rb").read()).hexdigest()
            elif stat.S_ISLNK(st.st_mode):
                h = os.readlink(p)
            out[os.path.relpath(p, root)] = (stat.S_IFMT(st.st_mode), stat.S_IMODE(st.st_mode), st.st_mtime_ns, h)
    return out


def entry_name(e):
    n = e["name"]
    return ("/" + "/".join(n[1:])) if n and n[0] == "/" else "/".join(n)


def build_archive(entries, root, split=None):
    """real archive for a list of {name:[comps], kind, tgt:[comps]}; absolute link targets are re-rooted at the scratch root"""
    from .refcodec import write_archive

    files = []
    for k, e in enumerate(entries):
        nm = entry_name(e)
        if e["kind"] == "dir":
            files.append({"name": nm, "kind": "dir", "mtime": 132223104000000000})
        elif e["kind"] == "link":
            t = e["tgt"]
            tgt = (root + "/" + "/".join(t[1:])) if t and t[0] == "/" else "/".join(t)
            files.append({"name": nm, "kind": "symlink", "data": tgt.encode()})
        elif e["kind"] == "empty":
            files.append({"name": nm, "kind": "empty", "mtime": 132223104000000000})
        else:
            files.append({"name": nm, "kind": "file", "data": b"payload-%d" % k, "mtime": 132223104000000000})
        # hostile attribute words: the kind a reader derives must not open a way around its own checks
        av = e.get("attrv")
        if av:
            kind = files[-1]["kind"]
            word = {("file", "reparse"): 0x20 | 0x400 | 0x8000 | (0o100644 << 16),       # regular file by unix mode, Windows reparse bit set
                    ("file", "nounix"): 0x20, ("file", "readonly"): 0x21 | 0x8000 | (0o100444 << 16),
                    ("file", "fifo"): 0x20 | 0x8000 | (0o010644 << 16), ("file", "reparse-nounix"): 0x20 | 0x400,
                    ("empty", "reparse"): 0x20 | 0x400 | 0x8000 | (0o100644 << 16), ("empty", "nounix"): 0x20,
                    ("symlink", "noreparse"): 0x20 | 0x8000 | (0o120777 << 16), ("symlink", "reparse-only"): 0x20 | 0x400,
                    ("dir", "nounix"): 0x10, ("dir", "unixonly"): 0x8000 | (0o040755 << 16), ("dir", "reparse"): 0x10 | 0x400 | 0x8000 | (0o040755 << 16)}.get((kind, av))
            if word is not None:
                files[-1]["attrib"] = word
    ndata = sum(1 for f in files if f.get("data"))
    if split and 0 < split < ndata:
        # two folders: the first 'split' members with data in one, the rest in another (opened by name, each folder has a worker of its own)
        folders = [{"nfiles": split, "coders": [{"id": "copy"}], "crc": "substream"}, {"nfiles": ndata - split, "coders": [{"id": "copy"}], "crc": "substream"}]
    else:
        folders = [{"nfiles": ndata, "coders": [{"id": "copy"}], "crc": "substream"}] if ndata else None
    raw, _ = write_archive({"files": files, "folders": folders})
    return raw


def run_extraction(case):
    """case: {entries, dest: abs|rel|none, via: path|stream, root}.  Returns the observed event."""
    from .common import import_py7zr

    py7zr = import_py7zr()
    root = case["root"]
    J = os.path.join(root, "J")
    os.makedirs(J)
    os.makedirs(os.path.join(root, "O"))
    os.makedirs(os.path.join(root, "Jx"))          # a sibling whose name starts with the destination's name
    with open(os.path.join(root, "O", "keep"), "w") as f:
        f.write("outside")
    for rel in case.get("prepopulate", []):
        p = os.path.join(J, rel)
        os.makedirs(os.path.dirname(p), exist_ok=True)
        with open(p, "w") as f:
            f.write("old")
    raw = build_archive(case["entries"], root, case.get("split"))
    arc = os.path.join(root, "arc.7z")
    with open(arc, "wb") as f:
        f.write(raw)
    before = snapshot(root, J)
    rec = recorder()
    rec.events = []
    unpatch = None
    if case.get("race"):
        # a forced interleaving of the folder workers: the worker that has just CHECKED the directory named in case["race"] is held
        # until another worker has created a link (or for a moment, if none does), and only then goes on to create and write
        import threading
        import time as _time
        import py7zr.py7zr as P

        made = threading.Event()
        watch = os.path.join(J, *case["race"])
        orig_check, orig_symlink = P.check_resolved_inside, os.symlink
        held = {"n": 0}

        def symlink(src, dst, *a, **kw):
            r = orig_symlink(src, dst, *a, **kw)
            made.set()
            return r

        def check(directory, base_):
            r = orig_check(directory, base_)
            if os.path.normpath(str(directory)) == os.path.normpath(watch) and held["n"] == 0:
                held["n"] += 1
                made.wait(1.5)
                _time.sleep(0.05)
            return r

        P.check_resolved_inside, os.symlink = check, symlink

        def unpatch():
            P.check_resolved_inside, os.symlink = orig_check, orig_symlink
    raised = ""
    cwd = os.getcwd()
    try:
        src = arc if case.get("via", "path") == "path" else io.BytesIO(raw)
        z = py7zr.SevenZipFile(src, "r")
        if case["dest"] == "none":
            os.chdir(J)
        elif case["dest"] == "rel":
            os.chdir(root)
        rec.on = True
        try:
            if case["dest"] == "abs":
                z.extractall(J)
            elif case["dest"] == "rel":
                z.extractall("J")
            else:
                z.extractall()
        except Exception as e:  # noqa
            raised = type(e).__name__
        finally:
            rec.on = False
            try:
                z.close()
            except Exception:  # noqa
                pass
        # a second archive extracted into the same destination (which now holds whatever the first one left, links included)
        if case.get("then"):
            raw2 = build_archive(case["then"], root)
            z2 = py7zr.SevenZipFile(io.BytesIO(raw2), "r")
            rec.on = True
            try:
                if case["dest"] == "abs":
                    z2.extractall(J)
                elif case["dest"] == "rel":
                    z2.extractall("J")
                else:
                    z2.extractall()
            except Exception as e:  # noqa
                raised = raised or type(e).__name__
            finally:
                rec.on = False
                try:
                    z2.close()
                except Exception:  # noqa
                    pass
    finally:
        os.chdir(cwd)
        if unpatch:
            unpatch()
    after = snapshot(root, J)
    diffs = sorted(set(k for k in set(before) | set(after) if before.get(k) != after.get(k)) - {"arc.7z"})
    effects = []
    rr = os.path.realpath(root)
    for ev, loc in rec.events:
        if ev == "hook-error":
            effects.append(["<hook-error>", loc])
            continue
        if loc == rr or loc.startswith(rr + os.sep):
            comps = [c for c in os.path.relpath(loc, rr).split(os.sep) if c != "."]
        else:
            comps = ["<outside-root>"] + loc.strip("/").split("/")
        if comps not in effects:
            effects.append(comps)
    for dpath in diffs:                     # independent of the audit hook: anything that changed outside the jail
        comps = dpath.split(os.sep)
        if comps not in effects:
            effects.append(comps)
    return {"e": "observed", "effects": effects, "raised": raised != "", "exc": raised, "outside_changed": diffs}
