"""./check <Cxx> <quick|thorough> [--replay FILE]   |   ./check setup   |   ./check selftest"""
import importlib
import os
import sys
import time
import traceback

from .common import MachineryError, Evidence, Reporter, VERIF


def main(argv):
    if not argv:
        print(__doc__)
        return 2
    if argv[0] == "setup":
        from . import setup

        return setup.main()
    if argv[0] == "selftest":
        from . import selftest

        return selftest.main(argv[1:])
    prop = argv[0].upper()
    tier = argv[1] if len(argv) > 1 and not argv[1].startswith("-") else os.environ.get("VERIF_TIER", "quick")
    replay = None
    if "--replay" in argv:
        replay = argv[argv.index("--replay") + 1]
    try:
        mod = importlib.import_module(f"harness.drivers.{prop}")
    except ModuleNotFoundError as e:
        print(f"no driver for {prop}: {e}")
        return 2
    rep = Reporter(prop)
    ev = Evidence(prop, tier, getattr(mod, "LEVEL", "model_checking"))
    t0 = time.time()
    try:
        if replay:
            mod.replay(replay, rep, ev)
        else:
            mod.run(tier, rep, ev)
    except MachineryError as e:
        print(f"MACHINERY-FAILURE {prop}: {e}")
        return 2
    except Exception:
        print(f"MACHINERY-FAILURE {prop}: unexpected exception in driver")
        traceback.print_exc()
        return 2
    if not replay and not os.environ.get("VERIF_NO_EVIDENCE"):
        ev.write(rep)
    c = ev.cov
    print(f"{prop} {tier}: states={c['states']} transitions={c['transitions']} traces={c['traces_validated_against_impl']} "
          f"evaluations={c['evaluations']} distinct={len(ev._distinct)} known={sum(rep.known_hits.values())} drift={len(rep.drift)} "
          f"violations={len(rep.violations)} wall={time.time() - t0:.1f}s")
    return rep.exit_code()


if __name__ == "__main__":
    sys.exit(main(sys.argv[1:]))
