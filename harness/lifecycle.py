"""Binding of spec/Lifecycle.tla: the SevenZipFile object across modes, call classes that do not belong to the mode, and calls
after close().  TLC enumerates the call-class sequences (GenLifecycle); each is executed on a real object; the recorded trace is
validated by TraceLifecycle.  Used by C12 (mode r), C08 (mode a) and C01 (mode w)."""
import hashlib
import io
import json
import os
import random
import shutil

from . import sandbox, tlc
from .common import import_py7zr, scratch, MachineryError

BASE = [("b1-ä.bin", b"base member one " * 40), ("dir/b2.txt", b"second base member\n" * 3)]
GEN = """SPECIFICATION GSpec
CONSTANT MaxCalls = %d
CONSTANT Base = 2
CONSTANT WriteGuarded = TRUE
CONSTANT Rewinds = TRUE
CONSTRAINT Emit
CHECK_DEADLOCK FALSE
"""


def execute(case):
    """case: {mode, via, calls: [k..], seed, wd} -> trace"""
    py7zr = import_py7zr()
    wd = case["wd"]
    os.makedirs(wd, exist_ok=True)
    try:
        R = random.Random(case.get("seed", 0))
        mode, via = case["mode"], case["via"]
        filters = [None, [{"id": py7zr.FILTER_COPY}], [{"id": py7zr.FILTER_DEFLATE}]][case.get("seed", 0) % 3]
        b0 = io.BytesIO()
        with py7zr.SevenZipFile(b0, "w", filters=filters) as z0:
            for nm, data in BASE:
                z0.writestr(data, nm)
        raw0 = b0.getvalue()
        path = os.path.join(wd, "life.7z")
        stream = None
        if via == "path":
            if mode != "w" or case.get("seed", 0) % 2:      # mode w: onto nothing, or over an old archive
                with open(path, "wb") as f:
                    f.write(raw0)
            target = path
        else:
            stream = io.BytesIO(raw0 if (mode != "w" or via == "streamX") else b"")
            if via == "streamX":
                # where a caller's stream may stand: where py7zr's own close() leaves it (32), at its end, in the middle
                stream.seek([32, len(raw0), 7][case.get("seed", 0) % 3])
            target = stream

        def now():
            return open(path, "rb").read() if via == "path" else stream.getvalue()

        h0 = hashlib.sha256(raw0).hexdigest() if mode != "w" else None
        trace = [{"e": "open", "mode": mode, "via": via}]
        z = py7zr.SevenZipFile(target, mode, filters=filters if mode != "r" else None)
        expected = list(BASE) if mode != "w" else []
        closed_once = False
        nw = 0
        calls = list(case["calls"])
        if "close" not in calls:
            calls.append("close")                            # every object is closed at least once
        for k in calls:
            ev = {"e": "call", "k": k, "raised": False, "exc": "", "same": True}
            try:
                if k == "list":
                    z.getnames()
                    z.list()
                    z.needs_password()
                elif k == "decode":
                    if mode == "r" and not closed_once:
                        z.reset()                            # (a decoding call that follows another one is preceded by reset(): C12's quantifier)
                    if (case.get("seed", 0) + len(trace)) % 2:
                        z.extractall(factory=py7zr.io.BytesIOFactory(1 << 24))
                    else:
                        z.testzip()
                elif k == "test":
                    z.test()
                elif k == "write":
                    nw += 1
                    blob = R.randbytes(150000)               # incompressible: no codec can hold it back until close
                    nm = f"new/{nw}-ü.bin"
                    if nw % 2:
                        z.writestr(blob, nm)
                    else:
                        z.writef(io.BytesIO(blob), nm)
                    if mode != "r" and not closed_once:
                        expected.append((nm, blob))
                elif k == "setter":
                    z.set_encoded_header_mode(nw % 2 == 0)
                elif k == "close":
                    if len(trace) % 2:
                        z.close()
                    else:
                        z.__exit__(None, None, None)
                    closed_once = True
            except Exception as e:  # noqa
                ev["raised"] = True
                ev["exc"] = type(e).__name__ + ":" + str(e)[:80]
                if k == "close":
                    closed_once = True
            if h0 is not None:
                ev["same"] = hashlib.sha256(now()).hexdigest() == h0
            trace.append(ev)
        fin = {"e": "final", "members": -1, "ok": False, "same": True, "err": ""}
        data = now()
        if h0 is not None:
            fin["same"] = hashlib.sha256(data).hexdigest() == h0
        try:
            with py7zr.SevenZipFile(io.BytesIO(data)) as r:
                names = r.getnames()
                fac = py7zr.io.BytesIOFactory(1 << 26)
                r.extractall(factory=fac)
                got = [(n, fac.products[n].read()) for n in names if n in fac.products]
            fin["members"] = len(names)
            # the model counts; names in order and bytes are compared here against what the calls that returned have written
            fin["ok"] = got == expected or len(names) != len(expected)
            if not fin["ok"]:
                fin["err"] = "names or bytes differ from what was written"
        except Exception as e:  # noqa
            fin["err"] = type(e).__name__ + ":" + str(e)[:100]
        trace.append(fin)
        return trace
    finally:
        shutil.rmtree(wd, ignore_errors=True)


def classify(tr, l):
    e = tr[l - 1] if 0 < l <= len(tr) else {}
    o = tr[0]
    key = f"lifecycle:{o.get('mode')}:{o.get('via')}:{e.get('e')}"
    if e.get("e") == "call":
        key += ":" + e.get("k", "?") + (":archive-changed" if o.get("mode") == "r" and not e.get("same", True) else "")
    elif e.get("e") == "final":
        if o.get("mode") == "r" and not e.get("same", True):
            key += ":archive-changed"
        elif e.get("members", 0) < 0:
            key += ":unreadable:" + e.get("err", "").split(":")[0]
        elif not e.get("ok"):
            key += ":wrong-names-or-bytes"
        else:
            key += f":members={e.get('members')}"
    return key, e


def run(prop, modes, tier, R, rep, ev, validate):
    """enumerate with TLC, execute, validate; only the sessions whose mode is in modes"""
    g = tlc.run("GenLifecycle", cfg_text=GEN % (3 if tier == "quick" else 5), workers=1, timeout=900)
    ev.add_tlc(g, "GenLifecycle")
    if not g.ok:
        raise MachineryError(f"GenLifecycle: {g.violated}")
    behs = [json.loads(b) if isinstance(b, str) else b for b in g.prints.get("BEH", [])]
    behs = [b for b in behs if b["mode"] in modes]
    ev.cov.setdefault("lifecycle", {})["sessions_enumerated"] = len(behs)
    if tier != "quick" and len(behs) > 6000:
        behs = R.sample(behs, 6000)
    base = scratch("life")
    cases = [{"mode": b["mode"], "via": b["via"], "calls": list(b["calls"]), "seed": R.randrange(1 << 16), "wd": os.path.join(base, f"l{i}")}
             for i, b in enumerate(behs)]
    outs = sandbox.run_cases(execute, cases, timeout=60, nproc=16)
    traces, origins = [], []
    for c, o in zip(cases, outs):
        desc = {k: v for k, v in c.items() if k != "wd"}
        ev.case("lifecycle " + json.dumps(desc, sort_keys=True))
        if o.status == "ok":
            traces.append(o.value)
            origins.append(desc)
        elif o.status == "hang":
            rep.violation(f"lifecycle:hang:{c['mode']}", f"object session did not finish: {o.detail[:400]}", {"case": desc})
        elif o.status == "crash":
            rep.violation(f"lifecycle:interpreter-crash:{c['mode']}", f"{o.detail[:300]}", {"case": desc})
        else:
            rep.violation(f"lifecycle:open-raised:{c['mode']}:{c['via']}:" + str(o.value[0] if isinstance(o.value, tuple) else o.value)[:60],
                          f"opening the object raised {o.value}: {o.detail[-400:]}", {"case": desc})
    if traces:
        ev.sample({"lifecycle_trace": traces[len(traces) // 2]})
    validate(prop, traces, rep, ev, spec="TraceLifecycle", cfg="TraceLifecycle.cfg", classify_fn=classify, origins=origins)
    shutil.rmtree(base, ignore_errors=True)
    return len(traces)


def replay_case(case):
    case = dict(case)
    case["wd"] = scratch("rp")
    o = sandbox.run_one(execute, case, timeout=120)
    print(o.status, json.dumps(o.value, indent=0, default=str)[:4000] if o.status == "ok" else (o.value, o.detail))
