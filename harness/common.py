"""Shared plumbing for every driver: where py7zr comes from, seeds, scratch space,
evidence files, violation / known-finding reporting.

Exit codes of a check:  0 = property held on everything explored
                        1 = a VIOLATION line was printed
                        2 = machinery failure (never reported as a violation)
"""
import atexit
import hashlib
import json
import os
import random
import shutil
import sys
import tempfile
import time

VERIF = os.path.dirname(os.path.dirname(os.path.abspath(__file__)))
REPO = os.path.abspath(os.environ.get("VERIF_REPO", "/repo"))
SPEC = os.path.join(VERIF, "spec")


def import_py7zr():
    """Import py7zr from $VERIF_REPO (default /repo) - it must win over the editable install."""
    if sys.path[0] != REPO:
        sys.path.insert(0, REPO)
    import py7zr  # noqa

    f = os.path.abspath(py7zr.__file__)
    if not f.startswith(REPO + os.sep):
        raise MachineryError(f"py7zr imported from {f}, expected under {REPO}")
    return py7zr


class MachineryError(Exception):
    pass


def seed() -> int:
    try:
        return int(os.environ.get("VERIF_SEED", "0"))
    except ValueError:
        return 0


def rng(tag: str = "") -> random.Random:
    return random.Random(f"{seed()}:{tag}")


_scratch_root = None


def scratch(prefix="v") -> str:
    """A private scratch directory (tmpfs when available), removed at exit."""
    global _scratch_root
    if _scratch_root is None:
        base = "/dev/shm" if os.path.isdir("/dev/shm") and os.access("/dev/shm", os.W_OK) else None
        _scratch_root = tempfile.mkdtemp(prefix="verif-", dir=base)
        atexit.register(_cleanup)
    d = tempfile.mkdtemp(prefix=prefix + "-", dir=_scratch_root)
    return d


def _cleanup():
    global _scratch_root
    if _scratch_root and os.getpid() == _owner_pid:
        shutil.rmtree(_scratch_root, ignore_errors=True)


_owner_pid = os.getpid()


# ----------------------------------------------------------------------------- findings
def load_known_findings():
    p = os.path.join(VERIF, "known_findings.json")
    try:
        with open(p) as f:
            return json.load(f).get("findings", [])
    except FileNotFoundError:
        return []


class Reporter:
    """Collects violations for one property run; decides VIOLATION vs KNOWN-FINDING."""

    def __init__(self, prop: str):
        self.prop = prop
        self.known = [k for k in load_known_findings() if k.get("property") == prop and k.get("status") == "open"]
        self.violations = []  # new ones
        self.known_hits = {}  # key -> count
        self.drift = []
        os.makedirs(os.path.join(VERIF, "replays"), exist_ok=True)

    def violation(self, key: str, what: str, replay: dict):
        """key identifies the failing input class / call site / history."""
        for k in self.known:
            if k["key"] == key:
                if key not in self.known_hits:
                    print(f"KNOWN-FINDING: property={self.prop} {k['what']}", flush=True)
                self.known_hits[key] = self.known_hits.get(key, 0) + 1
                return False
        if any(v["key"] == key for v in self.violations) and len(self.violations) > 40:
            # same class already reported many times: keep counting, do not flood
            self.violations.append({"key": key, "what": what, "replay": None})
            return True
        blob = json.dumps(replay, sort_keys=True, default=_jsondefault)
        h = hashlib.sha1(blob.encode()).hexdigest()[:12]
        path = os.path.join(VERIF, "replays", f"{self.prop}-{h}.json")
        with open(path, "w") as f:
            json.dump({"property": self.prop, "key": key, "what": what, "replay": replay}, f, indent=1, default=_jsondefault)
        print(f"VIOLATION property={self.prop} replay={path}", flush=True)
        print(f"  key={key}: {what}", flush=True)
        self.violations.append({"key": key, "what": what, "replay": path})
        return True

    def note_drift(self, what: str):
        if len(self.drift) < 20:
            print(f"DRIFT {self.prop}: {what}", flush=True)
        self.drift.append(what)

    def exit_code(self) -> int:
        return 1 if self.violations else 0


def _jsondefault(o):
    if isinstance(o, (bytes, bytearray)):
        return {"__hex__": bytes(o).hex()}
    if isinstance(o, set):
        return sorted(o)
    return repr(o)


def unhex(o):
    """inverse of _jsondefault for bytes inside replay files"""
    if isinstance(o, dict):
        if set(o.keys()) == {"__hex__"}:
            return bytes.fromhex(o["__hex__"])
        return {k: unhex(v) for k, v in o.items()}
    if isinstance(o, list):
        return [unhex(v) for v in o]
    return o


# ----------------------------------------------------------------------------- evidence
class Evidence:
    def __init__(self, prop: str, tier: str, level: str):
        self.prop = prop
        self.tier = tier
        self.level = level
        self.t0 = time.time()
        self.cov = {
            "states": 0,
            "transitions": 0,
            "traces_validated_against_impl": 0,
            "samples": [],
            "evaluations": 0,
            "distinct_nontrivial": 0,
            "rule": "",
            "exhaustive": False,
            "tlc_runs": [],
        }
        self.assumptions = []
        self._distinct = set()

    def add_tlc(self, res, label=None):
        self.cov["states"] += res.distinct
        self.cov["transitions"] += res.generated
        self.cov["tlc_runs"].append(
            {"module": label or res.module, "distinct_states": res.distinct, "states_generated": res.generated,
             "depth": res.depth, "wall_s": round(res.wall, 2), "mode": res.mode}
        )

    def sample(self, s, cap=8):
        if len(self.cov["samples"]) < cap:
            self.cov["samples"].append(s)

    def case(self, key=None, nontrivial=True):
        """count one evaluated case; key makes it distinct"""
        self.cov["evaluations"] += 1
        if nontrivial and key is not None:
            self._distinct.add(key if isinstance(key, (str, int, tuple)) else json.dumps(key, sort_keys=True, default=_jsondefault))

    def traces(self, n=1):
        self.cov["traces_validated_against_impl"] += n

    def write(self, rep: Reporter):
        self.cov["distinct_nontrivial"] = len(self._distinct)
        if not self.cov["samples"]:
            self.cov["samples"].append("(no sample recorded)")
        self.cov["known_finding_hits"] = rep.known_hits
        self.cov["drift_count"] = len(rep.drift)
        if self.level == "other" and "explanation" not in self.cov:
            self.cov["explanation"] = self.cov.get("rule", "") or "see rule"
        ev = {
            "property_id": self.prop,
            "tier": self.tier,
            "seed": seed(),
            "level": self.level,
            "coverage": self.cov,
            "assumptions": self.assumptions,
            "wall_s": round(time.time() - self.t0, 2),
            "violations": len(rep.violations),
        }
        os.makedirs(os.path.join(VERIF, "evidence"), exist_ok=True)
        p = os.path.join(VERIF, "evidence", f"{self.prop}.json")
        with open(p, "w") as f:
            json.dump(ev, f, indent=1, default=_jsondefault)
        return p
