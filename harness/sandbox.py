"""Run cases against the real code in forked children with a hard wall-clock kill and an address-space limit.

py7zr can spin forever on damaged input, so nothing hostile ever runs in the parent.  A child handles a slice of the
case list and reports START i / DONE i result over a pipe; when a case exceeds its deadline the parent kills the child,
records HANG (with the faulthandler stack, which names the spinning frame) and starts a new child for the rest.
"""
import faulthandler
import os
import pickle
import resource
import select
import signal
import struct
import sys
import tempfile
import time
import traceback


class Outcome:
    __slots__ = ("status", "value", "detail", "wall")

    def __init__(self, status, value=None, detail="", wall=0.0):
        self.status = status  # "ok" | "exc" | "hang" | "crash" | "mem"
        self.value = value
        self.detail = detail
        self.wall = wall

    def __repr__(self):
        return f"Outcome({self.status}, {self.value!r:.80}, {self.detail!r:.80})"


def _send(fd, obj):
    b = pickle.dumps(obj, protocol=4)
    os.write(fd, struct.pack("<I", len(b)) + b)


class _Child:
    def __init__(self, fn, cases, idxs, mem, stackfile):
        r, w = os.pipe()
        self.idxs = idxs
        pid = os.fork()
        if pid == 0:
            # ---- child
            try:
                os.close(r)
                os.setsid()          # own process group: worker processes started by the code under test die with this child
                signal.signal(signal.SIGALRM, signal.SIG_IGN)
                if mem:
                    try:
                        # the child inherits the driver's address space (a thorough run holds hundreds of thousands of traces):
                        # the limit is what the child may ADD to a small driver's size, not an absolute figure
                        vm = int(open("/proc/self/statm").read().split()[0]) * os.sysconf("SC_PAGE_SIZE")
                        lim = mem + max(0, vm - (768 << 20))
                        resource.setrlimit(resource.RLIMIT_AS, (lim, lim))
                    except (ValueError, OSError):
                        pass
                sf = open(stackfile, "w")
                faulthandler.enable(sf)
                faulthandler.register(signal.SIGUSR1, file=sf, all_threads=True)
                for i in idxs:
                    _send(w, ("S", i))
                    t0 = time.time()
                    try:
                        v = fn(cases[i])
                        _send(w, ("D", i, "ok", v, "", time.time() - t0))
                    except MemoryError:
                        _send(w, ("D", i, "mem", None, "MemoryError", time.time() - t0))
                    except BaseException as e:  # noqa
                        if isinstance(e, (KeyboardInterrupt,)):
                            raise
                        tb = traceback.format_exc(limit=6)
                        try:
                            _send(w, ("D", i, "exc", (type(e).__name__, str(e)[:300]), tb, time.time() - t0))
                        except Exception:
                            _send(w, ("D", i, "exc", (type(e).__name__, ""), tb[:500], time.time() - t0))
                os.close(w)
            finally:
                os._exit(0)
        os.close(w)
        self.pid = pid
        self.fd = r
        self.buf = b""
        self.current = None
        self.started = time.time()
        self.stackfile = stackfile
        self.done = set()

    def feed(self):
        """read available bytes; return list of messages, eof flag"""
        try:
            b = os.read(self.fd, 1 << 16)
        except OSError:
            b = b""
        eof = b == b""
        self.buf += b
        msgs = []
        while len(self.buf) >= 4:
            (n,) = struct.unpack("<I", self.buf[:4])
            if len(self.buf) < 4 + n:
                break
            msgs.append(pickle.loads(self.buf[4:4 + n]))
            self.buf = self.buf[4 + n:]
        return msgs, eof

    def kill(self, want_stack=False):
        stack = ""
        if want_stack:
            try:
                os.kill(self.pid, signal.SIGUSR1)
                time.sleep(0.15)
                with open(self.stackfile) as f:
                    stack = f.read()[:2500]
            except OSError:
                pass
        try:
            os.killpg(self.pid, signal.SIGKILL)
        except OSError:
            try:
                os.kill(self.pid, signal.SIGKILL)
            except OSError:
                pass
        try:
            os.waitpid(self.pid, 0)
        except OSError:
            pass
        try:
            os.close(self.fd)
        except OSError:
            pass
        return stack


def run_cases(fn, cases, *, timeout=20.0, nproc=16, mem=3 << 30, slice_size=None, timeout_fn=None, progress=None, max_hangs=12, _rerun=False):
    """Apply fn(case) to every case in forked children. Returns list[Outcome] aligned with cases.
    fn must return something picklable.  timeout is per case (or timeout_fn(case))."""
    n = len(cases)
    out = [None] * n
    if n == 0:
        return out
    if slice_size is None:
        slice_size = max(1, min(64, n // (nproc * 4) or 1))
    pending = [list(range(i, min(i + slice_size, n))) for i in range(0, n, slice_size)]
    pending.reverse()
    live = {}
    tmpd = tempfile.mkdtemp(prefix="sbx-", dir="/dev/shm" if os.path.isdir("/dev/shm") else None)
    nstack = 0
    nhang = 0
    try:
        while pending or live:
            if nhang >= max_hangs and pending:
                # a systematic hang (e.g. a deadlock introduced by a change): do not spend the time limit on every remaining case
                for idxs in pending:
                    for i in idxs:
                        if out[i] is None:
                            out[i] = Outcome("skipped", None, "not run: too many hangs before it", 0.0)
                pending = []
            while pending and len(live) < nproc:
                idxs = pending.pop()
                nstack += 1
                ch = _Child(fn, cases, idxs, mem, os.path.join(tmpd, f"st{nstack}"))
                live[ch.fd] = ch
            rl, _, _ = select.select(list(live.keys()), [], [], 0.2)
            now = time.time()
            for fd in rl:
                ch = live[fd]
                msgs, eof = ch.feed()
                for m in msgs:
                    if m[0] == "S":
                        ch.current = m[1]
                        ch.started = now
                    else:
                        _, i, st, v, det, wall = m
                        out[i] = Outcome(st, v, det, wall)
                        ch.done.add(i)
                        ch.current = None
                        if progress:
                            progress(i, out[i])
                if eof:
                    del live[fd]
                    ch.kill()
                    rest = [i for i in ch.idxs if i not in ch.done]
                    if rest:
                        # child died without finishing: the case in flight crashed the interpreter
                        cur = ch.current if ch.current is not None else rest[0]
                        try:
                            with open(ch.stackfile) as f:
                                st = f.read()[:2500]
                        except OSError:
                            st = ""
                        out[cur] = Outcome("crash", None, "child exited abnormally\n" + st, now - ch.started)
                        if progress:
                            progress(cur, out[cur])
                        rest = [i for i in rest if i != cur]
                        if rest:
                            pending.append(rest)
            for fd, ch in list(live.items()):
                if ch.current is not None:
                    lim = timeout_fn(cases[ch.current]) if timeout_fn else timeout
                    if now - ch.started > lim:
                        stack = ch.kill(want_stack=True)
                        del live[fd]
                        cur = ch.current
                        out[cur] = Outcome("hang", None, stack, now - ch.started)
                        nhang += 1
                        if progress:
                            progress(cur, out[cur])
                        rest = [i for i in ch.idxs if i not in ch.done and i != cur]
                        if rest:
                            pending.append(rest)
    finally:
        for ch in live.values():
            ch.kill()
        import shutil

        shutil.rmtree(tmpd, ignore_errors=True)
    # A child serves a slice of cases.  When it dies, the case it was at is blamed - but a C extension that corrupted the heap during an
    # EARLIER case of the slice makes a later, innocent case crash anywhere (seen: pyppmd, then a segmentation fault inside an import).
    # A crash therefore counts only when the case kills a child of its own as well.
    if slice_size > 1 and not _rerun:
        crashed = [i for i in range(n) if out[i] is not None and out[i].status == "crash"]
        if crashed:
            again = run_cases(fn, [cases[i] for i in crashed], timeout=timeout, nproc=min(nproc, 4), mem=mem, slice_size=1,
                              timeout_fn=timeout_fn, max_hangs=max_hangs, _rerun=True)
            for i, o2 in zip(crashed, again):
                out[i] = o2
    return out


def run_one(fn, case, timeout=20.0, mem=3 << 30):
    return run_cases(fn, [case], timeout=timeout, nproc=1, mem=mem)[0]
