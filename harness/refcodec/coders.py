"""Coder (method) implementations for refcodec: property blobs, encode and decode per method id.

Everything here is written from the format documentation; third-party *codec* libraries
(bcj, pyppmd, pyzstd, brotli, inflate64) are used only for the raw algorithms.
"""
import bz2
import hashlib
import lzma
import os
import select
import struct
import time
import zlib

from .common import METHOD, METHOD_NAME
from .errors import FormatError, NeedPassword, Unsupported

try:
    from Cryptodome.Cipher import AES as _AES
except ImportError:  # pragma: no cover
    _AES = None
try:
    import bcj as _bcj
except ImportError:  # pragma: no cover
    _bcj = None
try:
    import pyppmd as _ppmd
except ImportError:  # pragma: no cover
    _ppmd = None
try:
    import pyzstd as _zstd
except ImportError:  # pragma: no cover
    _zstd = None
try:
    import brotli as _brotli
except ImportError:  # pragma: no cover
    _brotli = None
try:
    import inflate64 as _inflate64
except ImportError:  # pragma: no cover
    _inflate64 = None

_BCJ = {"bcj": "BCJ", "arm": "ARM", "armt": "ARMT", "ppc": "PPC", "sparc": "Sparc", "ia64": "IA64"}
MAX_AES_CYCLES = 24


def available(name: str) -> bool:
    if name in _BCJ:
        return _bcj is not None
    return {"ppmd": _ppmd, "zstd": _zstd, "brotli": _brotli, "deflate64": _inflate64, "aes": _AES}.get(name, True) is not None


# ---------------------------------------------------------------- property blobs
def lzma1_props(lc: int, lp: int, pb: int, dict_size: int) -> bytes:
    return bytes([(pb * 5 + lp) * 9 + lc]) + struct.pack("<I", dict_size)


def lzma2_dict_size(code: int) -> int:
    return 0xFFFFFFFF if code == 40 else (2 | (code & 1)) << (code // 2 + 11)


def lzma2_props(dict_size: int) -> bytes:
    return bytes([next(c for c in range(41) if lzma2_dict_size(c) >= dict_size)])


def aes_props(cycles: int, salt: bytes, iv: bytes) -> bytes:
    ss, vs = len(salt), len(iv)
    b0 = cycles | ((vs > 0) << 6) | ((ss > 0) << 7)
    b1 = ((ss - (ss > 0)) << 4) | (vs - (vs > 0))
    return bytes([b0, b1]) + salt + iv


def parse_aes_props(props: bytes):
    if not props:
        raise FormatError("7zAES: empty properties")
    b0 = props[0]
    cycles = b0 & 0x3F
    if b0 & 0xC0 == 0:
        if len(props) > 2:
            raise FormatError("7zAES: property size mismatch")
        return cycles, b"", b""
    if len(props) < 2:
        raise FormatError("7zAES: properties truncated")
    ss = (b0 >> 7) + (props[1] >> 4)
    vs = ((b0 >> 6) & 1) + (props[1] & 15)
    if len(props) != 2 + ss + vs:
        raise FormatError("7zAES: property size mismatch")
    return cycles, props[2:2 + ss], props[2 + ss:]


_KEYS: dict = {}


def aes_key(password: str, salt: bytes, cycles: int) -> bytes:
    k = (password, salt, cycles)
    if k not in _KEYS:
        pw = password.encode("utf-16-le")
        if cycles == 0x3F:
            key = (salt + pw)[:32].ljust(32, b"\0")
        else:
            if cycles > MAX_AES_CYCLES:
                raise Unsupported("7zAES: cycles power %d too large" % cycles)
            h, base, rounds, pk = hashlib.sha256(), salt + pw, 1 << cycles, struct.Struct("<Q").pack
            for start in range(0, rounds, 8192):
                h.update(b"".join([base + pk(i) for i in range(start, min(rounds, start + 8192))]))
            key = h.digest()
        _KEYS[k] = key
    return _KEYS[k]


def _aes(props: bytes, password):
    if _AES is None:
        raise Unsupported("7zAES: pycryptodomex missing")
    cycles, salt, iv = parse_aes_props(props)
    if password is None:
        raise NeedPassword("7zAES coder requires a password")
    return _AES.new(aes_key(password, salt, cycles), _AES.MODE_CBC, iv.ljust(16, b"\0"))


# ---------------------------------------------------------------- delta (hand written)
def delta_encode(d: bytes, dist: int) -> bytes:
    out = bytearray(d)
    for i in range(len(d) - 1, dist - 1, -1):
        out[i] = (d[i] - d[i - dist]) & 255
    return bytes(out)


def delta_decode(d: bytes, dist: int) -> bytes:
    out = bytearray(d)
    for i in range(dist, len(out)):
        out[i] = (out[i] + out[i - dist]) & 255
    return bytes(out)


# ---------------------------------------------------------------- encode
def encode(spec: dict, data: bytes, password=None):
    """Apply one coder of a layout (spec = {"id": name, ...}) -> (encoded bytes, props or None)."""
    name = spec["id"]
    if not available(name):
        raise Unsupported("codec library for %s missing" % name)
    if name == "copy":
        return data, None
    if name == "lzma":
        lc, lp, pb, ds = spec.get("lc", 3), spec.get("lp", 0), spec.get("pb", 2), spec.get("dict_size", 1 << 16)
        f = {"id": lzma.FILTER_LZMA1, "preset": spec.get("preset", 1), "lc": lc, "lp": lp, "pb": pb, "dict_size": ds}
        c = lzma.LZMACompressor(lzma.FORMAT_RAW, filters=[f])
        return c.compress(data) + c.flush(), lzma1_props(lc, lp, pb, ds)
    if name == "lzma2":
        props = lzma2_props(spec.get("dict_size", 1 << 16))
        f = {"id": lzma.FILTER_LZMA2, "preset": spec.get("preset", 1), "dict_size": lzma2_dict_size(props[0])}
        c = lzma.LZMACompressor(lzma.FORMAT_RAW, filters=[f])
        return c.compress(data) + c.flush(), props
    if name == "delta":
        dist = spec.get("dist", 1)
        return delta_encode(data, dist), bytes([dist - 1])
    if name in _BCJ:
        e = getattr(_bcj, _BCJ[name] + "Encoder")()
        return e.encode(data) + e.flush(), None
    if name == "bzip2":
        return bz2.compress(data, spec.get("level", 9)), None
    if name == "deflate":
        c = zlib.compressobj(spec.get("level", 6), zlib.DEFLATED, -15)
        return c.compress(data) + c.flush(), None
    if name == "deflate64":
        c = _inflate64.Deflater()
        return c.deflate(data) + c.flush(), None
    if name == "ppmd":
        order, mem = spec.get("order", 6), spec.get("mem", 1 << 20)
        e = _ppmd.Ppmd7Encoder(order, mem)
        return e.encode(data) + e.flush(), struct.pack("<BI", order, mem)
    if name == "zstd":
        level = spec.get("level", 3)
        return _zstd.compress(data, level), bytes([1, 5, level, 0, 0])
    if name == "brotli":
        level = spec.get("level", 4)
        return _brotli.compress(data, quality=level), bytes([1, 0, level])
    if name == "aes":
        if password is None:
            raise NeedPassword("layout uses aes without a password")
        iv = spec.get("iv", hashlib.sha256(b"refcodec-iv").digest()[:16])
        props = aes_props(spec.get("cycles", 6), spec.get("salt", b""), iv)
        return _aes(props, password).encrypt(data + b"\0" * (-len(data) % 16)), props
    raise Unsupported("unknown coder id %r" % name)


def spec_from(method: str, props: bytes) -> dict:
    """Layout-style coder spec reproducing the parameters found in an archive (used to re-encode headers)."""
    name = METHOD_NAME.get(method)
    if name is None:
        raise Unsupported("cannot re-encode method %s" % method)
    spec = {"id": name}
    if name == "lzma" and len(props) >= 5:
        spec.update(lc=props[0] % 9, lp=props[0] // 9 % 5, pb=props[0] // 45,
                    dict_size=max(struct.unpack("<I", props[1:5])[0], 4096))
    elif name == "lzma2" and len(props) == 1:
        spec["dict_size"] = min(lzma2_dict_size(props[0]), 1 << 26)
    elif name == "delta" and props:
        spec["dist"] = props[0] + 1
    elif name == "ppmd" and len(props) >= 5:
        spec["order"], spec["mem"] = struct.unpack("<BI", props[:5])
    elif name == "aes":
        spec["cycles"], spec["salt"], spec["iv"] = parse_aes_props(props)
    return spec


def method_bytes(name: str) -> bytes:
    return bytes.fromhex(METHOD[name])


# ---------------------------------------------------------------- isolation of fragile C decoders
def _isolated(fn, timeout: float = 20.0) -> bytes:
    """Run fn() -> bytes in a forked child.  pyppmd hangs, raises SystemError or segfaults on hostile input."""
    r, w = os.pipe()
    pid = os.fork()
    if pid == 0:
        try:
            os.close(r)
            try:
                out = b"\0" + fn()
            except BaseException as e:  # noqa
                out = b"\1" + ("%s: %s" % (type(e).__name__, e)).encode("utf-8", "replace")
            with os.fdopen(w, "wb") as f:
                f.write(out)
        finally:
            os._exit(0)
    os.close(w)
    chunks, deadline = [], time.monotonic() + timeout
    try:
        while True:
            left = deadline - time.monotonic()
            if left <= 0 or not select.select([r], [], [], left)[0]:
                os.kill(pid, 9)
                raise FormatError("decoder did not finish within %ds (killed)" % timeout)
            chunk = os.read(r, 1 << 20)
            if not chunk:
                break
            chunks.append(chunk)
    finally:
        os.close(r)
        os.waitpid(pid, 0)
    buf = b"".join(chunks)
    if not buf:
        raise FormatError("decoder process crashed")
    if buf[0]:
        raise FormatError("decode failed: " + buf[1:].decode("utf-8", "replace"))
    return buf[1:]


def _ppmd_decode(order, mem, data, outsize):
    d = _ppmd.Ppmd7Decoder(order, mem)
    out, tries = (d.decode(data, outsize) if outsize else b""), 0
    while len(out) < outsize and tries < 8:  # range decoder looks ahead past the end of input
        out += d.decode(b"\0", outsize - len(out))
        tries += 1
    return out


# ---------------------------------------------------------------- decode
def _exact(out: bytes, outsize: int, what: str) -> bytes:
    if len(out) != outsize:
        raise FormatError("%s: decoded %d bytes, declared unpack size %d" % (what, len(out), outsize))
    return out


def decode(method: str, props, data: bytes, outsize: int, password=None, padded: bool = False):
    """Decode one coder. method = hex id. Returns (output, trailing_input_bytes or None if unknown).

    `padded`: input comes from an AES coder, so up to 15 trailing zero bytes are legitimate."""
    name = METHOD_NAME.get(method)
    props = props or b""
    if name is None or name in ("bcj2", "lz4") or not available(name):
        raise Unsupported("method %s (%s) not supported" % (method, name or "unknown"))
    try:
        if name == "copy":
            return _exact(bytes(data[:outsize]) if padded else bytes(data), outsize, name), 0
        if name == "aes":
            if len(data) % 16:
                raise FormatError("7zAES: packed size %d not a multiple of 16" % len(data))
            out = _aes(props, password).decrypt(bytes(data))
            if outsize > len(out):
                raise FormatError("7zAES: declared unpack size %d exceeds stream %d" % (outsize, len(out)))
            return out[:outsize], len(out) - outsize
        if name in ("lzma", "lzma2"):
            if name == "lzma":
                if len(props) < 5:  # 7-Zip's decoder reads the first 5 bytes and ignores any excess
                    raise FormatError("lzma: properties shorter than 5 bytes")
                props = props[:5]
                if props[0] >= 225:
                    raise FormatError("lzma: bad lc/lp/pb byte")
                lc, rest = props[0] % 9, props[0] // 9
                f = {"id": lzma.FILTER_LZMA1, "lc": lc, "lp": rest % 5, "pb": rest // 5,
                     "dict_size": max(struct.unpack("<I", props[1:])[0], 4096)}
            else:
                if len(props) != 1 or props[0] > 40:
                    raise FormatError("lzma2: bad dictionary size property")
                f = {"id": lzma.FILTER_LZMA2, "dict_size": lzma2_dict_size(props[0])}
            if f["dict_size"] > 0x60000000:
                raise Unsupported("%s: dictionary of %d bytes exceeds decoder limit" % (name, f["dict_size"]))
            d = lzma.LZMADecompressor(lzma.FORMAT_RAW, filters=[f])
            if name == "lzma":  # no end marker required: stop at the declared size
                out = d.decompress(bytes(data), outsize) if outsize else b""
                return _exact(out, outsize, name), (len(d.unused_data) if d.eof else None)
            out = d.decompress(bytes(data), outsize + 1)  # lzma2: must reach its end marker
            if len(out) <= outsize and not d.eof:
                raise FormatError("lzma2: stream truncated or end marker missing")
            return _exact(out, outsize, name), len(d.unused_data)
        if name == "delta":
            if len(props) != 1:
                raise FormatError("delta: properties must be 1 byte")
            return _exact(delta_decode(data[:outsize] if padded else data, props[0] + 1), outsize, name), 0
        if name in _BCJ:
            src = bytes(data[:outsize] if padded else data)
            out = getattr(_bcj, _BCJ[name] + "Decoder")(len(src)).decode(src)
            out += src[len(out):]  # pybcj (IA64) withholds a final partial block; branch filters copy it verbatim
            return _exact(out, outsize, name), 0
        if name == "bzip2":
            out, rest = b"", bytes(data)
            while True:  # multi-stream bzip2 is legal
                d = bz2.BZ2Decompressor()
                out += d.decompress(rest)
                if not d.eof:
                    raise FormatError("bzip2: stream truncated")
                rest = d.unused_data
                if not rest.startswith(b"BZh"):
                    return _exact(out, outsize, name), len(rest)
        if name == "deflate":
            d = zlib.decompressobj(-15)
            out = d.decompress(bytes(data)) + d.flush()
            return _exact(out, outsize, name), (len(d.unused_data) if d.eof else None)
        if name == "deflate64":
            d = _inflate64.Inflater()
            return _exact(d.inflate(bytes(data)), outsize, name), None
        if name == "ppmd":
            if len(props) < 5:  # 7-Zip's decoder reads the first 5 bytes and ignores any excess
                raise FormatError("ppmd: properties shorter than 5 bytes")
            order, mem = struct.unpack("<BI", props[:5])
            if outsize > len(data) * 100000 + 65536:
                raise FormatError("ppmd: declared unpack size %d implausible for %d packed bytes" % (outsize, len(data)))
            if not 2 <= order <= 64 or not (1 << 11) <= mem <= 0xFFFFFFFF - 36:
                raise FormatError("ppmd: order/memory property out of range")
            return _exact(_isolated(lambda: _ppmd_decode(order, mem, bytes(data), outsize)), outsize, name), None
        if name == "zstd":
            d = _zstd.ZstdDecompressor() if padded else _zstd.EndlessZstdDecompressor()
            out = d.decompress(bytes(data))
            return _exact(out, outsize, name), (len(d.unused_data) if padded else None)
        if name == "brotli":
            data, out = bytes(data), b""
            if data[:4] != b"\x50\x2a\x4d\x18":
                d = _brotli.Decompressor()
                out = d.process(data)
                if not d.is_finished():
                    err = FormatError("brotli: stream is not terminated (no final block)")
                    err.partial = out
                    raise err
                return _exact(out, outsize, name), None
            while data[:4] == b"\x50\x2a\x4d\x18":  # brotli-mt framing used by 7-Zip-zstd: skippable frame + chunk
                if len(data) < 16 or data[4:8] != b"\x08\0\0\0":
                    raise FormatError("brotli: bad brotli-mt frame header")
                n = struct.unpack("<I", data[8:12])[0]
                out, data = out + _brotli.decompress(data[16:16 + n]), data[16 + n:]
            return _exact(out, outsize, name), len(data)
    except (FormatError, NeedPassword, Unsupported):
        raise
    except MemoryError:
        raise Unsupported("%s: decoder memory limit" % name)
    except Exception as e:  # codec library rejected the stream
        raise FormatError("%s: decode failed: %s: %s" % (name, type(e).__name__, e))
    raise Unsupported("method %s" % method)
