"""Exception types of the independent 7z reference codec."""


class RefCodecError(Exception):
    pass


class FormatError(RefCodecError):
    """A structural rule of the 7z container format is violated."""

    def __init__(self, reason: str):
        super().__init__(reason)
        self.reason = reason
        self.partial = None  # decoder output recovered despite the violation (used by strict=False)


class NeedPassword(RefCodecError):
    """An AES coder must be traversed and no password was given."""


class Unsupported(RefCodecError):
    """Well-formed as far as parsed, but uses a feature refcodec does not implement."""
