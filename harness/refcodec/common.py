"""Primitive data representations of the 7z container (NUMBER, bit vectors, CRC, ids)."""
import zlib

MAGIC = b"7z\xbc\xaf\x27\x1c"
U64 = (1 << 64) - 1

PROP = {
    0x00: "End", 0x01: "Header", 0x02: "ArchiveProperties", 0x03: "AdditionalStreamsInfo",
    0x04: "MainStreamsInfo", 0x05: "FilesInfo", 0x06: "PackInfo", 0x07: "UnpackInfo",
    0x08: "SubStreamsInfo", 0x09: "Size", 0x0A: "CRC", 0x0B: "Folder", 0x0C: "CodersUnpackSize",
    0x0D: "NumUnpackStream", 0x0E: "EmptyStream", 0x0F: "EmptyFile", 0x10: "Anti", 0x11: "Names",
    0x12: "CTime", 0x13: "ATime", 0x14: "MTime", 0x15: "Attributes", 0x16: "Comment",
    0x17: "EncodedHeader", 0x18: "StartPos", 0x19: "Dummy",
}
PID = {v: k for k, v in PROP.items()}

METHOD = {
    "copy": "00", "delta": "03", "bcj": "03030103", "ppc": "03030205", "ia64": "03030401",
    "arm": "03030501", "armt": "03030701", "sparc": "03030805", "lzma": "030101", "lzma2": "21",
    "bzip2": "040202", "deflate": "040108", "deflate64": "040109", "ppmd": "030401",
    "zstd": "04f71101", "brotli": "04f71102", "aes": "06f10701", "bcj2": "0303011b", "lz4": "04f71104",
}
METHOD_NAME = {v: k for k, v in METHOD.items()}
METHOD_NAME[""] = "copy"  # a zero-length method id denotes id 0 = Copy


def crc32(b) -> int:
    return zlib.crc32(b) & 0xFFFFFFFF


def num_width(v: int) -> int:
    """Minimal number of bytes of the NUMBER encoding of v."""
    for k in range(8):
        if v < 1 << (7 * k + 7):
            return k + 1
    return 9


def enc_number(v: int, width: int = 0) -> bytes:
    """Encode NUMBER; width (total bytes) may exceed the minimum (non-minimal but conforming form)."""
    v &= U64
    k = min(max(width, num_width(v)), 9) - 1  # number of extra bytes
    if k == 8:
        return b"\xff" + v.to_bytes(8, "little")
    first = ((0xFF << (8 - k)) & 0xFF) | (v >> (8 * k))
    return bytes([first]) + (v & ((1 << (8 * k)) - 1)).to_bytes(k, "little")


def dec_number(b, p: int):
    """Decode NUMBER at b[p:]; returns (value, newpos) or raises IndexError when truncated."""
    first = b[p]
    p += 1
    if first < 0x80:
        return first, p
    k = 1
    while k < 8 and first & (0x80 >> k):
        k += 1
    if p + k > len(b):
        raise IndexError("NUMBER truncated")
    low = int.from_bytes(b[p:p + k], "little")
    high = (first & ((0x80 >> k) - 1)) if k < 8 else 0
    return (high << (8 * k)) + low, p + k


def pack_bits(bits, padding: int = 0) -> bytes:
    out = bytearray((len(bits) + 7) // 8)
    for i, v in enumerate(bits):
        if v:
            out[i >> 3] |= 0x80 >> (i & 7)
    if padding and out:
        out[-1] |= padding
    return bytes(out)


def unpack_bits(b, n: int):
    return [(b[i >> 3] >> (7 - (i & 7))) & 1 for i in range(n)]
