"""refcodec: an independent reference implementation of the 7z container format.

Written from docs/archive_format.rst and 7zFormat.txt; shares no code with py7zr.

    write_archive(layout) -> (bytes, regions)                       harness.refcodec.writer
    read_archive(data, password=None, strict=True, decode=True)     harness.refcodec.reader  -> Parsed
    parse_to_tree(data, password=None) / build_from_tree(tree)      harness.refcodec.mutate
    iter_number_sites(tree) / get_at(tree, path) / set_at(tree, path, value)
    FormatError(reason) / NeedPassword / Unsupported                harness.refcodec.errors
"""
from .errors import FormatError, NeedPassword, RefCodecError, Unsupported  # noqa: F401
from .mutate import build_from_tree, get_at, iter_number_sites, parse_to_tree, serialise, set_at  # noqa: F401
from .reader import Parsed, read_archive  # noqa: F401
from .writer import write_archive  # noqa: F401
