"""Lossless, editable tree representation of a 7z header for structure-aware fuzzing.

tree = {"sig": {"magic": hex, "version": hex, "startcrc"/"nextofs"/"nextsize"/"nextcrc": None (=recompute) | int},
        "body": bytes   (everything between byte 32 and the header / header pack stream, carried verbatim),
        "tail": bytes   (anything after the next header),
        "encoded": None | {"streams": node, "password": str|None, "resync": True, "packed": bytes, "hdr_gap": bytes},
        "header": node | None}
Header nodes are dicts {"t": <section name>, ...}; containers keep their children in the list "items"
(FilesInfo/ArchiveProperties: "props") and write a terminating End iff "end" is true.  NUMBER fields are
ints, or {"n": value, "w": width} to force a non-minimal encoding; "size"/"propsize" = None means "compute".
Byte strings inside the header tree are hex str.  build_from_tree() never validates.
"""
import struct

from . import coders
from .common import PID, PROP, crc32, dec_number, enc_number, num_width, pack_bits, unpack_bits
from .errors import FormatError, Unsupported
from .reader import chain_order, read_archive

NUMBER_KEYS = {"packpos", "numstreams", "sizes", "numfolders", "dataindex", "numcoders", "nin", "nout", "propsize",
               "bindpairs", "packed", "nums", "numfiles", "size"}
_CONTAINERS = {"Header", "MainStreamsInfo", "AdditionalStreamsInfo", "EncodedHeader", "PackInfo", "UnpackInfo",
               "SubStreamsInfo"}
_TIMEIDS = (PID["CTime"], PID["ATime"], PID["MTime"], PID["StartPos"])


# ===================================================================== parsing (lenient, lossless)
class _P:
    def __init__(self, b, p=0, end=None):
        self.b, self.p, self.end = b, p, len(b) if end is None else end

    def take(self, n):
        if n < 0 or self.p + n > self.end:
            raise FormatError("tree parse: truncated")
        self.p += n
        return bytes(self.b[self.p - n:self.p])

    def byte(self):
        return self.take(1)[0]

    def num(self):
        try:
            v, p = dec_number(self.b, self.p)
        except IndexError:
            raise FormatError("tree parse: truncated NUMBER")
        if p > self.end:
            raise FormatError("tree parse: truncated NUMBER")
        w, self.p = p - self.p, p
        return v if w == num_width(v) else {"n": v, "w": w}

    def nums(self, n):
        if n > self.end - self.p:
            raise FormatError("tree parse: count exceeds data")
        return [self.num() for _ in range(n)]

    def bits(self, n, node):
        raw = self.take((n + 7) // 8)
        node["bits"] = unpack_bits(raw, n)
        pad = raw[-1] & ((1 << (-n % 8)) - 1) if raw else 0
        if pad:
            node["padding"] = pad


def _v(x):
    return x["n"] if isinstance(x, dict) else x


def _digest_node(p, n):
    node = {"t": "CRC", "alldefined": p.byte()}
    if node["alldefined"] == 0:
        p.bits(n, node)
    ndef = sum(node["bits"]) if "bits" in node else n
    node["crcs"] = list(struct.unpack("<%dI" % ndef, p.take(4 * ndef)))
    return node


def _parse_folder(p):
    f = {"numcoders": p.num(), "coders": [], "bindpairs": [], "packed": []}
    nin = nout = 0
    for _ in range(_v(f["numcoders"])):
        c = {"flag": p.byte()}
        c["id"] = p.take(c["flag"] & 15).hex()
        if c["flag"] & 0x10:
            c["nin"], c["nout"] = p.num(), p.num()
        if c["flag"] & 0x20:
            c["propsize"] = p.num()
            c["props"] = p.take(_v(c["propsize"])).hex()
        nin, nout = nin + _v(c.get("nin", 1)), nout + _v(c.get("nout", 1))
        f["coders"].append(c)
    f["bindpairs"] = [[p.num(), p.num()] for _ in range(max(nout - 1, 0))]
    npacked = nin - len(f["bindpairs"])
    f["packed"] = p.nums(npacked) if npacked > 1 else []
    return f, nout, npacked


def _parse_streams(p, tname):
    """Children of a StreamsInfo container up to and including its End."""
    node = {"t": tname, "items": [], "end": True}
    folders, outs, fcrcs, nums = 0, [], [], None
    while True:
        pid = p.byte()
        if pid == PID["End"]:
            return node
        if pid == PID["PackInfo"]:
            it = {"t": "PackInfo", "packpos": p.num(), "numstreams": p.num(), "items": [], "end": True}
            n = _v(it["numstreams"])
            while True:
                q = p.byte()
                if q == PID["End"]:
                    break
                if q == PID["Size"]:
                    it["items"].append({"t": "Size", "sizes": p.nums(n)})
                elif q == PID["CRC"]:
                    it["items"].append(_digest_node(p, n))
                else:
                    raise FormatError("tree parse: id 0x%02x in PackInfo" % q)
        elif pid == PID["UnpackInfo"]:
            it = {"t": "UnpackInfo", "items": [], "end": True}
            while True:
                q = p.byte()
                if q == PID["End"]:
                    break
                if q == PID["Folder"]:
                    fo = {"t": "Folder", "numfolders": p.num(), "external": p.byte()}
                    if fo["external"]:
                        fo["dataindex"] = p.num()
                    else:
                        fo["folders"] = []
                        for _ in range(_v(fo["numfolders"])):
                            f, nout, _np = _parse_folder(p)
                            fo["folders"].append(f)
                            outs.append(nout)
                    folders = _v(fo["numfolders"])
                    fcrcs = [None] * folders
                    it["items"].append(fo)
                elif q == PID["CodersUnpackSize"]:
                    it["items"].append({"t": "CodersUnpackSize", "sizes": p.nums(sum(outs))})
                elif q == PID["CRC"]:
                    d = _digest_node(p, folders)
                    fcrcs = d.get("bits", [1] * folders)
                    it["items"].append(d)
                else:
                    raise FormatError("tree parse: id 0x%02x in UnpackInfo" % q)
        elif pid == PID["SubStreamsInfo"]:
            it = {"t": "SubStreamsInfo", "items": [], "end": True}
            nums = [1] * folders
            while True:
                q = p.byte()
                if q == PID["End"]:
                    break
                if q == PID["NumUnpackStream"]:
                    it["items"].append({"t": "NumUnpackStream", "nums": p.nums(folders)})
                    nums = [_v(x) for x in it["items"][-1]["nums"]]
                elif q == PID["Size"]:
                    it["items"].append({"t": "Size", "sizes": p.nums(sum(max(n - 1, 0) for n in nums))})
                elif q == PID["CRC"]:
                    unknown = sum(n for n, c in zip(nums, fcrcs) if not (n == 1 and c))
                    it["items"].append(_digest_node(p, unknown))
                else:
                    raise FormatError("tree parse: id 0x%02x in SubStreamsInfo" % q)
        else:
            raise FormatError("tree parse: id 0x%02x in StreamsInfo" % pid)
        node["items"].append(it)


def _parse_file_prop(pid, raw, nfiles, nempty):
    """Structured payload of one FilesInfo property, or None when it does not parse exactly."""
    p, node = _P(raw), {}
    try:
        if pid == PID["EmptyStream"]:
            p.bits(nfiles, node)
        elif pid in (PID["EmptyFile"], PID["Anti"]):
            p.bits(nempty, node)
        elif pid == PID["Names"]:
            node["external"] = p.byte()
            rest = p.take(len(raw) - 1)
            if node["external"] or len(rest) % 2 or (rest and rest[-2:] != b"\0\0"):
                return None
            units = struct.unpack("<%dH" % (len(rest) // 2), rest)
            node["names"], a = [], 0
            for i, u in enumerate(units):
                if u == 0:
                    node["names"].append(rest[2 * a:2 * i].decode("utf-16-le", "surrogatepass"))
                    a = i + 1
        elif pid in _TIMEIDS or pid == PID["Attributes"]:
            node["alldefined"] = p.byte()
            if node["alldefined"] == 0:
                p.bits(nfiles, node)
            ndef = sum(node["bits"]) if "bits" in node else nfiles
            node["external"] = p.byte()
            if node["external"]:
                return None
            w, c = (8, "Q") if pid in _TIMEIDS else (4, "I")
            node["values"] = list(struct.unpack("<%d%s" % (ndef, c), p.take(w * ndef)))
        else:
            return None
    except FormatError:
        return None
    return node if p.p == len(raw) else None


def _parse_header(raw):
    p = _P(raw)
    if p.byte() != PID["Header"]:
        raise FormatError("tree parse: not a Header")
    node = {"t": "Header", "items": [], "end": True}
    while True:
        pid = p.byte()
        if pid == PID["End"]:
            break
        if pid == PID["ArchiveProperties"]:
            it = {"t": "ArchiveProperties", "props": [], "end": True}
            while True:
                q = p.byte()
                if q == 0:
                    break
                size = p.num()
                it["props"].append({"id": q, "size": size, "data": p.take(_v(size)).hex()})
        elif pid in (PID["AdditionalStreamsInfo"], PID["MainStreamsInfo"]):
            it = _parse_streams(p, PROP[pid])
        elif pid == PID["FilesInfo"]:
            it = {"t": "FilesInfo", "numfiles": p.num(), "props": [], "end": True}
            nfiles, nempty = _v(it["numfiles"]), 0
            if nfiles > len(raw) * 8:
                raise FormatError("tree parse: numfiles exceeds data")
            while True:
                q = p.byte()
                if q == 0:
                    break
                size = p.num()
                payload = p.take(_v(size))
                body = _parse_file_prop(q, payload, nfiles, nempty)
                if body is None:
                    body = {"data": payload.hex()}
                    prop = {"t": "Dummy" if q == PID["Dummy"] else "Prop", "id": q, "size": size}
                else:
                    prop = {"t": PROP[q], "size": size}
                    if q == PID["EmptyStream"]:
                        nempty = sum(body["bits"])
                prop.update(body)
                it["props"].append(prop)
        else:
            raise FormatError("tree parse: id 0x%02x in Header" % pid)
        node["items"].append(it)
    if p.p < len(raw):
        node["trailing"] = raw[p.p:].hex()
    return node


def parse_to_tree(data: bytes, password=None) -> dict:
    P = read_archive(data, password, strict=False, decode=False)
    startcrc, nofs, nsize, ncrc = struct.unpack("<IQQI", data[8:32])
    hstart, hend = 32 + nofs, 32 + nofs + nsize
    nxt = data[hstart:hend]
    tree = {"sig": {"magic": data[:6].hex(), "version": data[6:8].hex(),
                    "startcrc": None if startcrc == crc32(data[12:32]) else startcrc, "nextofs": None,
                    "nextsize": None, "nextcrc": None if ncrc == crc32(nxt) else ncrc},
            "body": bytes(data[32:hstart]), "tail": bytes(data[hend:]), "encoded": None, "header": None}
    if P.header_mode == "encoded":
        if len(P.regions.get("hdrpack", [])) != 1:
            raise Unsupported("tree parse: nested or multi-stream encoded header")
        a, b = P.regions["hdrpack"][0]
        p = _P(nxt, 1)
        streams = _parse_streams(p, "EncodedHeader")
        if p.p < len(nxt):
            streams["trailing"] = nxt[p.p:].hex()
        tree["body"] = bytes(data[32:a])
        tree["encoded"] = {"streams": streams, "password": password, "resync": True, "packed": bytes(data[a:b]),
                           "hdr_gap": bytes(data[b:hstart])}
    if P.header_mode != "none":
        tree["header"] = _parse_header(P.raw_header)
    return tree


# ===================================================================== serialisation (never validates)
def _n(x) -> bytes:
    return enc_number(x["n"], x.get("w", 0)) if isinstance(x, dict) else enc_number(x)


def _bitvec(node) -> bytes:
    return pack_bits(node.get("bits", []), node.get("padding", 0))


def _payload(prop) -> bytes:
    t = prop["t"]
    if "data" in prop:
        return bytes.fromhex(prop["data"])
    if t in ("EmptyStream", "EmptyFile", "Anti"):
        return _bitvec(prop)
    if t == "Names":
        return bytes([prop["external"]]) + b"".join(
            n.encode("utf-16-le", "surrogatepass") + b"\0\0" for n in prop["names"])
    out = bytes([prop["alldefined"]]) + (_bitvec(prop) if "bits" in prop else b"") + bytes([prop["external"]])
    fmt = "<I" if t == "Attributes" else "<Q"
    return out + b"".join(struct.pack(fmt, v & (0xFFFFFFFF if fmt == "<I" else (1 << 64) - 1)) for v in prop["values"])


def _folder_bytes(f) -> bytes:
    out = _n(f["numcoders"])
    for c in f["coders"]:
        out += bytes([c["flag"]]) + bytes.fromhex(c["id"])
        if "nin" in c:
            out += _n(c["nin"]) + _n(c["nout"])
        if "props" in c:
            props = bytes.fromhex(c["props"])
            out += (_n(c["propsize"]) if c.get("propsize") is not None else enc_number(len(props))) + props
    for a, b in f["bindpairs"]:
        out += _n(a) + _n(b)
    return out + b"".join(_n(x) for x in f["packed"])


def serialise(node) -> bytes:
    """Serialise any header-tree node (including its property id)."""
    t = node["t"]
    if t == "Raw":
        return bytes.fromhex(node["data"])
    out = bytes([node["id"] if "id" in node else PID[t]])
    if t in _CONTAINERS:
        if t == "PackInfo":
            out += _n(node["packpos"]) + _n(node["numstreams"])
        out += b"".join(serialise(c) for c in node["items"])
    elif t == "ArchiveProperties":
        for pr in node["props"]:
            d = bytes.fromhex(pr["data"])
            out += bytes([pr["id"]]) + (_n(pr["size"]) if pr["size"] is not None else enc_number(len(d))) + d
    elif t == "FilesInfo":
        out += _n(node["numfiles"])
        for pr in node["props"]:
            if pr["t"] == "Raw":
                out += serialise(pr)
                continue
            d = _payload(pr)
            out += bytes([pr["id"] if "id" in pr else PID[pr["t"]]])
            out += (_n(pr["size"]) if pr.get("size") is not None else enc_number(len(d))) + d
    elif t in ("Size", "CodersUnpackSize"):
        out += b"".join(_n(x) for x in node["sizes"])
    elif t == "NumUnpackStream":
        out += b"".join(_n(x) for x in node["nums"])
    elif t == "CRC":
        out += bytes([node["alldefined"]]) + (_bitvec(node) if "bits" in node else b"")
        out += b"".join(struct.pack("<I", c & 0xFFFFFFFF) for c in node["crcs"])
    elif t == "Folder":
        out += _n(node["numfolders"]) + bytes([node["external"]])
        out += _n(node["dataindex"]) if "dataindex" in node else b"".join(_folder_bytes(f) for f in node["folders"])
    else:
        raise ValueError("cannot serialise node type %r" % t)
    if node.get("end"):
        out += b"\0"
    return out + bytes.fromhex(node.get("trailing", ""))


def _find(node, *names):
    for name in names:
        node = next((c for c in node["items"] if c["t"] == name), None)
        if node is None:
            return None
    return node


def _resync(enc, hdr: bytes, packpos: int) -> bytes:
    """Re-encode the header through the EncodedHeader folder and refresh its sizes / CRCs (best effort:
    a hostile / incomplete EncodedHeader record is left as edited and the stale packed bytes are reused)."""
    st = enc["streams"]
    fnode = _find(st, "UnpackInfo", "Folder")
    if not fnode or not fnode.get("folders"):
        return enc["packed"]
    folder = fnode["folders"][0]
    cs = [{"method": c["id"], "props": c.get("props"), "nin": _v(c.get("nin", 1)), "nout": _v(c.get("nout", 1))}
          for c in folder["coders"]]
    try:
        chain = chain_order(cs, [(_v(a), _v(b)) for a, b in folder["bindpairs"]])
    except (FormatError, Unsupported):
        chain = list(range(len(cs)))  # edited bind pairs: fall back to the conventional record order
    sizes, buf = [0] * len(cs), hdr
    for c in reversed(chain):  # encoding order is the reverse of the decode chain
        sizes[c] = len(buf)
        spec = coders.spec_from(cs[c]["method"], bytes.fromhex(cs[c]["props"] or ""))
        buf, _props = coders.encode(spec, buf, enc.get("password"))
    pack = _find(st, "PackInfo")
    if pack:
        pack["packpos"] = packpos
        if _find(pack, "Size"):
            _find(pack, "Size")["sizes"] = [len(buf)]
        if _find(pack, "CRC") and _find(pack, "CRC")["crcs"]:
            _find(pack, "CRC")["crcs"] = [crc32(buf)]
    if _find(st, "UnpackInfo", "CodersUnpackSize"):
        _find(st, "UnpackInfo", "CodersUnpackSize")["sizes"] = sizes
    d = _find(st, "UnpackInfo", "CRC")
    if d and d["crcs"]:
        d["crcs"] = [crc32(hdr)]
    return buf


def build_from_tree(tree: dict) -> bytes:
    hdr = serialise(tree["header"]) if tree.get("header") is not None else b""
    body, enc, sig = tree["body"], tree.get("encoded"), tree["sig"]
    if enc:
        packed = _resync(enc, hdr, len(body)) if enc.get("resync", True) else enc["packed"]
        body, nxt = body + packed + enc.get("hdr_gap", b""), serialise(enc["streams"])
    else:
        nxt = hdr

    def pick(key, computed):
        return computed if sig.get(key) is None else sig[key]
    start = struct.pack("<QQI", pick("nextofs", len(body)) & (2 ** 64 - 1), pick("nextsize", len(nxt)) & (2 ** 64 - 1),
                        pick("nextcrc", crc32(nxt)) & 0xFFFFFFFF)
    head = bytes.fromhex(sig["magic"]) + bytes.fromhex(sig["version"])
    return head + struct.pack("<I", pick("startcrc", crc32(start)) & 0xFFFFFFFF) + start + body + nxt + tree.get("tail", b"")


# ===================================================================== paths
def _walk(node, path):
    if isinstance(node, dict):
        for k, v in node.items():
            if k in NUMBER_KEYS and v is not None:
                if isinstance(v, list):
                    for i, x in enumerate(v):
                        if isinstance(x, list):
                            for j in range(len(x)):
                                yield path + (k, i, j)
                        else:
                            yield path + (k, i)
                else:
                    yield path + (k,)
            elif isinstance(v, (dict, list)) and k not in ("bits", "crcs", "values", "names"):
                yield from _walk(v, path + (k,))
    elif isinstance(node, list):
        for i, v in enumerate(node):
            yield from _walk(v, path + (i,))


def iter_number_sites(tree):
    """Yield paths (tuples of keys / indices from the tree root) of every NUMBER field."""
    if tree.get("header") is not None:
        yield from _walk(tree["header"], ("header",))
    if tree.get("encoded"):
        yield from _walk(tree["encoded"]["streams"], ("encoded", "streams"))


def get_at(tree, path):
    for k in path:
        tree = tree[k]
    return tree


def set_at(tree, path, value):
    get_at(tree, path[:-1])[path[-1]] = value
    return tree
