"""Strict parser + decoder for the 7z container, written from docs/archive_format.rst / 7zFormat.txt."""
import struct
from dataclasses import dataclass, field

from . import coders
from .common import MAGIC, PID, PROP, crc32, dec_number, unpack_bits
from .errors import FormatError, Unsupported

_TIMES = {PID["CTime"]: "ctime", PID["ATime"]: "atime", PID["MTime"]: "mtime", PID["StartPos"]: "startpos"}
S_IFMT, S_IFLNK, S_IFDIR = 0o170000, 0o120000, 0o040000


@dataclass
class Parsed:
    members: list = field(default_factory=list)
    header_mode: str = "raw"          # 'raw' | 'encoded' | 'none' (empty archive without header)
    header_coders: list = field(default_factory=list)
    folders: list = field(default_factory=list)
    packpos: int = 0
    regions: dict = field(default_factory=dict)
    tokens: list = field(default_factory=list)
    raw_header: bytes = b""
    warnings: list = field(default_factory=list)
    notes: list = field(default_factory=list)   # legal-but-unusual observations (never errors)


class _Cur:
    """Bounded cursor over header bytes; running off the end is always a FormatError."""
    __slots__ = ("b", "p", "end")

    def __init__(self, b, p=0, end=None):
        self.b, self.p, self.end = b, p, len(b) if end is None else end

    def left(self):
        return self.end - self.p

    def take(self, n):
        if n < 0 or self.p + n > self.end:
            raise FormatError("header truncated: need %d bytes at offset %d, %d left" % (n, self.p, self.left()))
        self.p += n
        return self.b[self.p - n:self.p]

    def byte(self):
        if self.p >= self.end:
            raise FormatError("header truncated at offset %d" % self.p)
        self.p += 1
        return self.b[self.p - 1]

    def number(self):
        try:
            v, p = dec_number(self.b, self.p)
        except IndexError:
            raise FormatError("header truncated inside NUMBER at offset %d" % self.p)
        if p > self.end:
            raise FormatError("NUMBER crosses section end at offset %d" % self.p)
        self.p = p
        return v

    def u32(self):
        return struct.unpack("<I", self.take(4))[0]

    def u64(self):
        return struct.unpack("<Q", self.take(8))[0]

    def count(self, what, per_item_bits=8):
        """NUMBER used as an element count; bounded by the bytes that remain (memory safety)."""
        n = self.number()
        if n * per_item_bits > self.left() * 8 + 64:
            raise FormatError("%s %d exceeds remaining header data" % (what, n))
        return n


def chain_order(cs, bindpairs, packed=None):
    """Coder indices from the packed stream to the final output, following bind pairs (simple coders only)."""
    if any(c["nin"] != 1 or c["nout"] != 1 for c in cs):
        raise Unsupported("complex coder (multiple in/out streams, e.g. BCJ2)")
    by_out = {o: i for i, o in bindpairs}
    ins = set(by_out.values())
    start = packed[0] if packed else next((i for i in range(len(cs)) if i not in ins), None)
    chain, c = [], start
    while c is not None and c not in chain and c < len(cs):
        chain.append(c)
        c = by_out.get(c)
    if c is not None or len(chain) != len(cs):
        raise FormatError("bind pairs do not form a single chain over all coders")
    return chain


class _Reader:
    def __init__(self, data, password, strict, decode):
        self.data, self.password, self.strict, self.decode = data, password, strict, decode
        self.out = Parsed()
        self.tok = self.out.tokens
        self.segments = []  # (start, end, region name) of every packed stream, absolute offsets

    def problem(self, reason):
        if self.strict:
            raise FormatError(reason)
        self.out.warnings.append(reason)

    # ------------------------------------------------------------ top level
    def run(self):
        d, out, reg = self.data, self.out, self.out.regions
        if len(d) < 32:
            raise FormatError("file shorter than the 32-byte signature header")
        if d[:6] != MAGIC:
            raise FormatError("bad signature")
        if d[6] != 0:
            self.problem("unsupported major version %d" % d[6])
        startcrc, nofs, nsize, ncrc = struct.unpack("<IQQI", d[8:32])
        if crc32(d[12:32]) != startcrc:
            self.problem("start header CRC mismatch")
        for name, a, b in (("magic", 0, 6), ("version", 6, 8), ("startcrc", 8, 12), ("nextofs", 12, 20),
                           ("nextsize", 20, 28), ("nextcrc", 28, 32)):
            reg[name] = [[a, b]]
        hstart, hend = 32 + nofs, 32 + nofs + nsize
        if hend > len(d):
            raise FormatError("next header [%d,%d) lies outside the file (%d bytes)" % (hstart, hend, len(d)))
        if hend < len(d):
            self.problem("%d bytes of trailing data after the next header" % (len(d) - hend))
        reg["header"] = [[hstart, hend]]
        hdr = d[hstart:hend]
        if nsize == 0:
            out.header_mode = "none"
            if ncrc != 0:
                self.problem("next header CRC nonzero for empty next header")
            self._tiling(hstart)
            return out
        if crc32(hdr) != ncrc:
            self.problem("next header CRC mismatch")
        limit = hstart  # packed streams must end where the (outermost) next header starts
        for depth in range(4):
            cur = _Cur(hdr)
            pid = cur.byte()
            if pid == PID["Header"]:
                break
            if pid != PID["EncodedHeader"]:
                raise FormatError("next header starts with id 0x%02x, expected Header or EncodedHeader" % pid)
            out.header_mode = "encoded"
            self.tok.append("EncodedHeader")
            si = self._streams_info(cur, "hdrpack")
            if cur.left():
                self.problem("%d trailing bytes after EncodedHeader record" % cur.left())
            if len(si["folders"]) != 1:
                raise FormatError("EncodedHeader must describe exactly one folder, found %d" % len(si["folders"]))
            if si["sub"] is not None and si["nums"] != [1]:
                self.problem("EncodedHeader folder split into %r substreams" % si["nums"])
            out.header_coders = si["folders"][0]["coders"]
            hdr = self._decode_folder(si, 0, "encoded header")
        else:
            raise FormatError("EncodedHeader nesting too deep")
        out.raw_header = bytes(hdr)
        self._header(cur)
        if cur.left():
            self.problem("%d trailing bytes after Header End" % cur.left())
        self._tiling(limit)
        return out

    def _tiling(self, limit):
        """Packed streams must tile [32+packpos, next header) without gap or overlap."""
        pos, reg = None, self.out.regions
        for a, b, name in sorted(self.segments):
            if pos is None:
                if a > 32:
                    reg["gap"] = [[32, a]]
            elif a > pos:
                self.problem("gap of %d unreferenced bytes before packed stream at %d" % (a - pos, a))
            elif a < pos:
                self.problem("packed streams overlap at %d" % a)
            reg.setdefault(name, []).append([a, b])
            pos = b if pos is None else max(pos, b)
        if pos is None:
            pos = 32
        if pos < limit:
            self.problem("gap of %d unreferenced bytes between packed streams and next header" % (limit - pos))
        elif pos > limit:
            self.problem("packed streams overlap the next header by %d bytes" % (pos - limit))

    # ------------------------------------------------------------ digests / vectors
    def _bits(self, cur, n):
        raw = cur.take((n + 7) // 8)
        if n % 8 and raw[-1] & ((1 << (8 - n % 8)) - 1):
            self.out.notes.append("bit vector with nonzero padding bits")
        return unpack_bits(raw, n)

    def _defined(self, cur, n, what):
        alldef = cur.byte()
        if alldef == 0:
            return self._bits(cur, n)
        if alldef != 1:
            self.problem("%s: AllAreDefined byte is 0x%02x" % (what, alldef))
        return [1] * n

    def _digests(self, cur, n, what):
        defined = self._defined(cur, n, what)
        return defined, [cur.u32() if x else None for x in defined]

    # ------------------------------------------------------------ StreamsInfo
    def _streams_info(self, cur, region):
        """PackInfo? UnpackInfo? SubStreamsInfo? End  ->  dict; region: 'pack' or 'hdrpack'."""
        tok = self.tok
        si = {"packpos": 0, "packsizes": [], "packcrcs": [], "folders": [], "sub": None, "nums": [], "region": region}
        pid = cur.byte()
        if pid == PID["PackInfo"]:
            tok.append("PackInfo")
            si["packpos"] = cur.number()
            n = cur.count("number of pack streams")
            tok.append({"packpos": si["packpos"], "numstreams": n})
            si["packcrcs"] = [None] * n
            pid = cur.byte()
            if pid == PID["Size"]:
                si["packsizes"] = [cur.number() for _ in range(n)]
                tok += ["Size", list(si["packsizes"])]
                pid = cur.byte()
            elif n:
                self.problem("PackInfo: %d streams but no Size property" % n)
                si["packsizes"] = [0] * n
            if pid == PID["CRC"]:
                defined, si["packcrcs"] = self._digests(cur, n, "PackInfo CRC")
                tok += ["CRC", {"defined": defined, "crcs": si["packcrcs"]}]
                pid = cur.byte()
            if pid != PID["End"]:
                raise FormatError("PackInfo: unexpected property id 0x%02x" % pid)
            tok.append("End")
            pid = cur.byte()
        if pid == PID["UnpackInfo"]:
            tok.append("UnpackInfo")
            self._unpack_info(cur, si)
            pid = cur.byte()
        nf = len(si["folders"])
        si["nums"] = [1] * nf
        if pid == PID["SubStreamsInfo"]:
            tok.append("SubStreamsInfo")
            self._substreams(cur, si)
            pid = cur.byte()
        else:  # one substream per folder, carrying the folder digest
            si["subsizes"] = [f["unpacksize"] for f in si["folders"]]
            si["subcrcs"] = [f["crc"] for f in si["folders"]]
        if pid != PID["End"]:
            raise FormatError("StreamsInfo: unexpected property id 0x%02x" % pid)
        tok.append("End")
        # distribute pack streams over folders and register their byte ranges
        need = sum(f["npacked"] for f in si["folders"])
        if need != len(si["packsizes"]):
            raise FormatError("folders consume %d packed streams but PackInfo declares %d" % (need, len(si["packsizes"])))
        pos, k = 32 + si["packpos"], 0
        for i, f in enumerate(si["folders"]):
            f["packranges"], f["packcrcs"] = [], si["packcrcs"][k:k + f["npacked"]]
            for size in si["packsizes"][k:k + f["npacked"]]:
                if pos + size > len(self.data):
                    raise FormatError("packed stream [%d,%d) lies outside the file" % (pos, pos + size))
                f["packranges"].append((pos, pos + size))
                self.segments.append((pos, pos + size, region if region == "hdrpack" else "pack%d" % i))
                pos += size
            k += f["npacked"]
        return si

    def _unpack_info(self, cur, si):
        tok = self.tok
        pid = cur.byte()
        if pid != PID["Folder"]:
            raise FormatError("UnpackInfo: expected Folder id, got 0x%02x" % pid)
        nf = cur.count("number of folders")
        ext = cur.byte()
        tok += ["Folder", {"n": nf}, {"external": ext}]
        if ext == 1:
            cur.number()
            raise Unsupported("external folder definitions (AdditionalStreams)")
        if ext != 0:
            raise FormatError("UnpackInfo: bad External byte 0x%02x" % ext)
        si["folders"] = [self._folder(cur) for _ in range(nf)]
        pid = cur.byte()
        if pid == PID["CodersUnpackSize"]:
            sizes = []
            for f in si["folders"]:
                f["unpacksizes"] = [cur.number() for _ in range(f["nout"])]
                f["unpacksize"] = f["unpacksizes"][f["mainout"]]
                sizes.append(list(f["unpacksizes"]))
            tok += ["CodersUnpackSize", sizes]
            pid = cur.byte()
        elif nf:
            raise FormatError("UnpackInfo: CodersUnpackSize missing")
        if pid == PID["CRC"]:
            defined, crcs = self._digests(cur, nf, "UnpackInfo CRC")
            for f, c in zip(si["folders"], crcs):
                f["crc"] = c
            tok += ["CRC", {"defined": defined, "crcs": crcs}]
            pid = cur.byte()
        if pid != PID["End"]:
            raise FormatError("UnpackInfo: unexpected property id 0x%02x" % pid)
        tok.append("End")

    def _folder(self, cur):
        nc = cur.count("number of coders")
        if nc == 0:
            raise FormatError("folder without coders")
        if nc > 32:
            raise FormatError("folder with %d coders" % nc)
        cs, nin, nout = [], 0, 0
        for _ in range(nc):
            flag = cur.byte()
            if flag & 0xC0:
                self.problem("coder flag reserved bits set: 0x%02x" % flag)
            c = {"method": bytes(cur.take(flag & 15)).hex(), "props": None, "nin": 1, "nout": 1}
            if flag & 0x10:
                c["nin"], c["nout"] = cur.count("NumInStreams"), cur.count("NumOutStreams")
                if c["nin"] > 32 or c["nout"] > 32:
                    raise FormatError("coder with %d in / %d out streams" % (c["nin"], c["nout"]))
            if flag & 0x20:
                c["props"] = bytes(cur.take(cur.number())).hex()
            nin, nout = nin + c["nin"], nout + c["nout"]
            cs.append(c)
        if nout == 0:
            raise FormatError("folder without output streams")
        bps = [(cur.number(), cur.number()) for _ in range(nout - 1)]
        npacked = nin - len(bps)
        if npacked < 1:
            raise FormatError("folder has no packed stream (in=%d, bindpairs=%d)" % (nin, len(bps)))
        packed = [cur.number() for _ in range(npacked)] if npacked > 1 else None
        f = {"coders": cs, "bindpairs": bps, "nin": nin, "nout": nout, "npacked": npacked, "crc": None,
             "unpacksizes": [], "unpacksize": 0}
        self.tok.append({"coders": cs, "bindpairs": [list(b) for b in bps], "packed": packed})
        ins, outs = [b[0] for b in bps], [b[1] for b in bps]
        if any(i >= nin for i in ins) or any(o >= nout for o in outs):
            raise FormatError("bind pair index out of range")
        if len(set(ins)) != len(ins) or len(set(outs)) != len(outs):
            raise FormatError("bind pair index used twice")
        if packed is None:
            packed = [i for i in range(nin) if i not in ins]
        if any(i >= nin for i in packed) or len(set(packed)) != len(packed) or set(packed) & set(ins):
            raise FormatError("packed stream index invalid")
        f["packed"] = packed
        f["mainout"] = next(o for o in range(nout) if o not in outs)
        return f

    def _substreams(self, cur, si):
        tok, folders = self.tok, si["folders"]
        nf = len(folders)
        pid = cur.byte()
        if pid == PID["NumUnpackStream"]:
            si["nums"] = [cur.number() for _ in range(nf)]
            tok += ["NumUnpackStream", list(si["nums"])]
            pid = cur.byte()
        total = sum(si["nums"])
        if total > len(cur.b) * 8 + 64:
            raise FormatError("number of substreams %d exceeds header data" % total)
        have_size = pid == PID["Size"]
        sizes, listed = [], []
        for f, n in zip(folders, si["nums"]):
            if n == 0:
                continue
            if n > 1 and not have_size:
                raise FormatError("SubStreamsInfo: folder with %d substreams but no Size property" % n)
            part = [cur.number() for _ in range(n - 1)] if have_size else []
            listed += part
            if sum(part) > f["unpacksize"]:
                raise FormatError("substream sizes %d exceed folder unpack size %d" % (sum(part), f["unpacksize"]))
            sizes += part + [f["unpacksize"] - sum(part)]
        if have_size:
            tok += ["Size", listed]
            pid = cur.byte()
        si["subsizes"] = sizes
        unknown = sum(n for f, n in zip(folders, si["nums"]) if not (n == 1 and f["crc"] is not None))
        got = None
        if pid == PID["CRC"]:
            defined, got = self._digests(cur, unknown, "SubStreamsInfo CRC")
            tok += ["CRC", {"defined": defined, "crcs": got}]
            pid = cur.byte()
        crcs, k = [], 0
        for f, n in zip(folders, si["nums"]):
            if n == 1 and f["crc"] is not None:
                crcs.append(f["crc"])
            else:
                crcs += got[k:k + n] if got is not None else [None] * n
                k += n
        si["subcrcs"] = crcs
        si["sub"] = True
        if pid != PID["End"]:
            raise FormatError("SubStreamsInfo: unexpected property id 0x%02x" % pid)
        tok.append("End")

    # ------------------------------------------------------------ decoding
    def _decode_folder(self, si, i, what):
        f = si["folders"][i]
        for (a, b), c in zip(f["packranges"], f["packcrcs"]):
            if c is not None and crc32(self.data[a:b]) != c:
                self.problem("%s: packed stream CRC mismatch" % what)
        chain = chain_order(f["coders"], f["bindpairs"], f["packed"])
        a, b = f["packranges"][0]
        buf, padded = self.data[a:b], False
        for c in chain:
            coder = f["coders"][c]
            props = bytes.fromhex(coder["props"]) if coder["props"] is not None else None
            try:
                buf, trailing = coders.decode(coder["method"], props, buf, f["unpacksizes"][c], self.password, padded)
            except FormatError as e:
                self.problem("%s: %s" % (what, e.reason))
                if e.partial is None or len(e.partial) != f["unpacksizes"][c]:
                    return b""
                buf, trailing = e.partial, 0
            is_aes = coder["method"] == "06f10701"
            if trailing and not is_aes and not (padded and trailing < 16):
                self.problem("%s: %d unused bytes at end of coder input" % (what, trailing))
            if is_aes and trailing >= 16:
                self.out.notes.append("%s: AES stream has %d bytes of padding" % (what, trailing))
            padded = is_aes or (padded and coder["method"] == "00")
        if f["crc"] is not None and crc32(buf) != f["crc"]:
            self.problem("%s: folder CRC mismatch" % what)
        return buf

    # ------------------------------------------------------------ Header
    def _header(self, cur):
        tok, out = self.tok, self.out
        tok.append("Header")
        pid = cur.byte()
        if pid == PID["ArchiveProperties"]:
            tok.append("ArchiveProperties")
            while True:
                t = cur.byte()
                if t == 0:
                    break
                size = cur.number()
                tok.append({"prop": t, "size": size, "data": bytes(cur.take(size)).hex()})
            tok.append("End")
            pid = cur.byte()
        if pid == PID["AdditionalStreamsInfo"]:
            tok.append("AdditionalStreamsInfo")
            self._streams_info(cur, "addpack")
            self.out.notes.append("AdditionalStreamsInfo present")
            pid = cur.byte()
        si = None
        if pid == PID["MainStreamsInfo"]:
            tok.append("MainStreamsInfo")
            si = self._streams_info(cur, "pack")
            out.packpos = si["packpos"]
            pid = cur.byte()
        files = []
        if pid == PID["FilesInfo"]:
            files = self._files_info(cur)
            pid = cur.byte()
        if pid != PID["End"]:
            raise FormatError("Header: unexpected property id 0x%02x" % pid)
        tok.append("End")
        self._assemble(si, files)

    def _files_info(self, cur):
        tok = self.tok
        n = cur.count("number of files", 1)
        tok += ["FilesInfo", {"numfiles": n}]
        files = [{"name": None, "emptystream": 0, "emptyfile": 0, "is_anti": False, "attrib": None,
                  "mtime": None, "ctime": None, "atime": None} for _ in range(n)]
        seen, nempty, last = set(), None, 0
        while True:
            pid = cur.byte()
            if pid == 0:
                break
            size = cur.number()
            if size > cur.left():
                raise FormatError("property 0x%02x: declared size %d exceeds remaining %d" % (pid, size, cur.left()))
            start, name = cur.p, PROP.get(pid, "0x%02x" % pid)
            sub = _Cur(cur.b, cur.p, cur.p + size)
            t = {"prop": name, "size": size}
            if pid in seen and pid != PID["Dummy"]:
                self.problem("FilesInfo: property %s appears twice" % name)
            seen.add(pid)
            if pid != PID["Dummy"]:
                if pid < last:
                    self.out.notes.append("FilesInfo: property %s out of ascending id order" % name)
                last = pid
            if pid == PID["EmptyStream"]:
                if {PID["EmptyFile"], PID["Anti"]} & seen:
                    self.problem("FilesInfo: EmptyStream after EmptyFile/Anti")
                t["bits"] = self._bits(sub, n)
                nempty = sum(t["bits"])
                for f, b in zip(files, t["bits"]):
                    f["emptystream"] = b
            elif pid in (PID["EmptyFile"], PID["Anti"]):
                if nempty is None:
                    self.problem("FilesInfo: %s without preceding EmptyStream" % name)
                t["bits"] = self._bits(sub, nempty or 0)
                key = "emptyfile" if pid == PID["EmptyFile"] else "is_anti"
                for f, b in zip([f for f in files if f["emptystream"]], t["bits"]):
                    f[key] = bool(b) if key == "is_anti" else b
            elif pid == PID["Names"]:
                t["external"] = ext = sub.byte()
                if ext:
                    raise Unsupported("external file names (AdditionalStreams)")
                raw = bytes(sub.take(sub.left()))
                if len(raw) % 2:
                    raise FormatError("Names: odd number of bytes")
                units = struct.unpack("<%dH" % (len(raw) // 2), raw)
                ends = [i for i, u in enumerate(units) if u == 0]
                if len(ends) != n:
                    raise FormatError("Names: %d terminated names for %d files" % (len(ends), n))
                if n and ends[-1] != len(units) - 1 or (not n and units):
                    raise FormatError("Names: data after the last name terminator")
                a = 0
                for f, e in zip(files, ends):
                    try:
                        f["name"] = raw[2 * a:2 * e].decode("utf-16-le")
                    except UnicodeDecodeError:
                        self.problem("Names: invalid UTF-16")
                        f["name"] = raw[2 * a:2 * e].decode("utf-16-le", "surrogatepass")
                    a = e + 1
            elif pid in _TIMES or pid == PID["Attributes"]:
                t["defined"] = defined = self._defined(sub, n, name)
                ext = sub.byte()
                if ext:
                    raise Unsupported("external %s (AdditionalStreams)" % name)
                key = _TIMES.get(pid, "attrib")
                for f, dfn in zip(files, defined):
                    if dfn:
                        f[key] = sub.u64() if pid in _TIMES else sub.u32()
            elif pid == PID["Dummy"]:
                if any(sub.take(size)):
                    self.out.notes.append("Dummy property with nonzero bytes")
            else:
                self.problem("FilesInfo: unknown property id 0x%02x" % pid)
                sub.take(size)
            if sub.left():
                self.problem("property %s: declared size %d but content uses %d bytes" % (name, size, sub.p - start))
            cur.p = start + size
            tok.append(t)
        tok.append("End")
        if n and PID["Names"] not in seen:  # real 7-Zip writes such archives for "-si" input: names are empty
            self.out.notes.append("FilesInfo: %d files but no Names property" % n)
            for f in files:
                f["name"] = ""
        return files

    def _assemble(self, si, files):
        out = self.out
        streams = [f for f in files if not f["emptystream"]]
        nsub = len(si["subsizes"]) if si else 0
        if nsub != len(streams):
            raise FormatError("%d substreams but %d files with a stream" % (nsub, len(streams)))
        k, datas = 0, [None] * nsub
        for i, fo in enumerate(si["folders"] if si else []):
            n = si["nums"][i]
            a, b = fo["packranges"][0][0], fo["packranges"][-1][1]
            out.folders.append({"coders": [{"method": c["method"], "props": c["props"]} for c in fo["coders"]],
                                "unpacksizes": fo["unpacksizes"], "crc": fo["crc"], "nfiles": n, "packsize": b - a,
                                "packcrc": fo["packcrcs"][0], "packsizes": [y - x for x, y in fo["packranges"]],
                                "packcrcs": fo["packcrcs"]})
            for j in range(k, k + n):
                streams[j]["folder"], streams[j]["size"], streams[j]["crc"] = i, si["subsizes"][j], si["subcrcs"][j]
            if self.decode and n:
                buf, p = self._decode_folder(si, i, "folder %d" % i), 0
                for j in range(k, k + n):
                    datas[j] = bytes(buf[p:p + si["subsizes"][j]])
                    p += si["subsizes"][j]
                    if si["subcrcs"][j] is not None and crc32(datas[j]) != si["subcrcs"][j]:
                        self.problem("folder %d: CRC mismatch of substream %d (%r)" % (i, j - k, streams[j]["name"]))
            k += n
        k = 0
        for f in files:
            att = f["attrib"]
            unix = (att >> 16) if att is not None and att & 0x8000 else 0
            if (att is not None and att & 0x10) or unix & S_IFMT == S_IFDIR or (f["emptystream"] and not f["emptyfile"]):
                kind = "dir"
            elif unix & S_IFMT == S_IFLNK:
                kind = "symlink"
            else:
                kind = "empty" if f["emptystream"] else "file"
            m = {"name": f["name"], "kind": kind, "data": None, "size": 0, "crc": None, "attrib": att,
                 "mtime": f["mtime"], "ctime": f["ctime"], "atime": f["atime"], "folder": None, "is_anti": f["is_anti"]}
            if f["emptystream"]:
                m["data"] = b"" if self.decode else None
            else:
                m.update(folder=f["folder"], size=f["size"], crc=f["crc"], data=datas[k])
                if f["size"] == 0:
                    self.out.notes.append("%r: zero-length substream instead of EmptyStream/EmptyFile" % f["name"])
                k += 1
                if kind == "dir":
                    self.problem("directory %r has a data stream" % f["name"])
            out.members.append(m)


def read_archive(data: bytes, password=None, strict: bool = True, decode: bool = True) -> Parsed:
    """Parse (and decode) a 7z archive held in memory.  Raises FormatError / NeedPassword / Unsupported."""
    return _Reader(data, password, strict, decode).run()
