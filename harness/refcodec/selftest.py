"""Self test of refcodec:  /venv/bin/python -m harness.refcodec.selftest   (from /verif)

(a) writer -> reader round trip over generated layouts     (b) strict reader over /repo/tests/data/*.7z
(c) mutate parse_to_tree -> build_from_tree is lossless     (d) cross-check against py7zr (oracle only, never binding)
Exit status 0 iff (a), (b), (c) pass.  py7zr is imported in this file only, and only run in forked children.
"""
import copy
import glob
import io
import json
import os
import pickle
import random
import select
import struct
import sys
import tempfile
import time

from . import coders
from .common import crc32, enc_number
from .errors import FormatError, NeedPassword, Unsupported
from .mutate import build_from_tree, get_at, iter_number_sites, parse_to_tree, set_at
from .reader import read_archive
from .writer import DEFAULT_ATTRIB, write_archive

FIXTURES = "/repo/tests/data"
PASSWORDS = {"filename_encryption.7z": "hello", "encrypted_4.7z": "abc"}
CORRUPT = {"crc_corrupted.7z", "data_corrupted.7z"}  # deliberately damaged fixtures: strict reader must reject
CHAINS = [["copy"], ["lzma"], ["lzma2"], ["bzip2"], ["deflate"], ["delta", "lzma2"], ["bcj", "lzma"], ["arm", "lzma2"],
          ["armt", "lzma"], ["ppc", "lzma2"], ["sparc", "copy"], ["copy", "copy"], ["lzma2", "aes"], ["copy", "aes"],
          ["bcj", "lzma2", "aes"], ["delta", "bcj", "lzma2", "aes"], ["ppmd"], ["zstd"], ["brotli"], ["deflate64"],
          ["ia64", "deflate"], ["ia64", "lzma2"], ["zstd", "aes"]]
CHAINS = [c for c in CHAINS if all(coders.available(x) for x in c)]
NAMES = ["a.txt", "dir/b.bin", "dür/日本.txt", "x/y/z", "emoji-\U0001F600.dat", "UPPER.TXT", "sp ace", "t"]
FT = 132223104000000000  # 2020-01-01 as FILETIME


# ------------------------------------------------------------------ layout generation and expectations
def gen_layout(rng):
    files = []
    for i in range(rng.choice([0, 1, 1, 2, 3, 4, 5, 6])):
        kind = rng.choice(["file", "file", "file", "file", "dir", "empty", "symlink"])
        f = {"name": "%d-%s" % (i, rng.choice(NAMES)), "kind": kind}
        if kind == "file":
            n = rng.choice([0, 1, 5, 40, 300, 2000])
            f["data"] = bytes(rng.getrandbits(8) for _ in range(n)) if rng.random() < .4 else (b"hello 7z \xe8\x00\x01 " * n)[:n]
        elif kind == "symlink":
            f["data"] = rng.choice(["../target", "a.txt", ""])
        r = rng.random()
        if r < .25:
            f["attrib"] = None
        elif r < .5 and kind != "symlink":
            f["attrib"] = {"dir": 0x10, "file": 0x21, "empty": 0x8020 | (0o100600 << 16)}[kind]
        files.append(f)
    for key in ("mtime", "ctime", "atime"):
        mode = rng.choice(["absent", "all", "partial"]) if key == "mtime" else rng.choice(["absent", "absent", "all", "partial"])
        for f in files:
            if mode == "all" or (mode == "partial" and rng.random() < .5):
                f[key] = FT + rng.randrange(10 ** 15)
            elif mode == "partial":
                f[key] = None
    lay = {"files": files}
    ndata = sum(1 for f in files if f["kind"] in ("file", "symlink") and f.get("data"))
    need_pw = False
    if rng.random() < .8:
        folders, left = [], ndata
        while left:
            n = rng.randint(1, left)
            chain = rng.choice(CHAINS)
            need_pw |= "aes" in chain
            cs = [dict({"id": c}, **({"dist": rng.randint(1, 256)} if c == "delta" else {})) for c in chain]
            folders.append({"nfiles": n, "coders": cs, "crc": rng.choice(["substream", "substream", "folder", "none"])})
            left -= n
        lay["folders"] = folders
    opt = lambda key, vals: lay.__setitem__(key, rng.choice(vals)) if rng.random() < .6 else None  # noqa: E731
    opt("packpos", [0, 1, 3, 17, 200])
    opt("packcrc", [True, False, "partial"])
    opt("omit_numunpack_if_all_one", [True, False])
    opt("dummy", [None, 0, 1, 3, 130])
    opt("emptyfile_vector", ["auto", "always", "never"])
    opt("attrib_vector", ["auto", "explicit"])
    opt("time_vector", ["auto", "explicit"])
    opt("header", ["raw", "lzma", "aes"])
    opt("header_folder_crc", [True, False])
    opt("number_pad", [0, 1, 2, 8])
    if need_pw or lay.get("header") == "aes" or rng.random() < .1:
        lay["password"] = rng.choice(["secret", "päss \U0001F511", ""])
    return lay


def expected_members(lay):
    """What a conforming reader must report for a layout (derived from the layout semantics, not the reader)."""
    out, k, fidx = [], 0, []
    for i, fo in enumerate(lay.get("folders") or []):
        fidx += [(i, fo.get("crc", "substream"))] * fo.get("nfiles", 1)
    for f in lay["files"]:
        kind = f.get("kind", "file")
        data = f.get("data", b"")
        data = data.encode() if isinstance(data, str) else data
        stream = kind in ("file", "symlink") and len(data) > 0
        att = f.get("attrib", DEFAULT_ATTRIB[kind])
        if kind == "dir" or (not stream and lay.get("emptyfile_vector") == "never"):
            ek = "dir"  # empty stream without EmptyFile bit is a directory by definition
        elif kind == "symlink" and att is not None:
            ek = "symlink"
        else:
            ek = "file" if stream else "empty"
        m = {"name": f["name"], "kind": ek, "data": data if stream else b"", "size": len(data) if stream else 0,
             "crc": None, "attrib": att, "mtime": f.get("mtime"), "ctime": f.get("ctime"), "atime": f.get("atime"),
             "folder": None, "is_anti": False}
        if stream:
            folder, mode = fidx[k] if fidx else (0, "substream")
            m.update(folder=folder, crc=None if mode == "none" else crc32(data))
            k += 1
        out.append(m)
    return out


def describe(lay):
    d = {k: v for k, v in lay.items() if k not in ("files", "folders")}
    d["files"] = [(f.get("kind", "file"), len(f.get("data", b"")), "attrib" in f and f["attrib"]) for f in lay["files"]]
    d["folders"] = [(fo.get("nfiles"), [c["id"] for c in fo.get("coders", [])], fo.get("crc")) for fo in lay.get("folders") or []]
    return json.dumps(d, default=str, ensure_ascii=True)


# ------------------------------------------------------------------ forked child with hard kill
def in_child(fn, *args, timeout=20):
    r, w = os.pipe()
    pid = os.fork()
    if pid == 0:
        os.close(r)
        try:
            res = ("ok", fn(*args))
        except BaseException as e:  # noqa
            res = ("err", "%s: %s" % (type(e).__name__, str(e)[:200]))
        try:
            with os.fdopen(w, "wb") as f:
                pickle.dump(res, f)
        finally:
            os._exit(0)
    os.close(w)
    buf, deadline = b"", time.time() + timeout
    while True:
        left = deadline - time.time()
        if left <= 0 or not select.select([r], [], [], left)[0]:
            os.kill(pid, 9)
            os.waitpid(pid, 0)
            os.close(r)
            return ("timeout", "no answer within %ds (killed)" % timeout)
        chunk = os.read(r, 1 << 20)
        if not chunk:
            break
        buf += chunk
    os.close(r)
    os.waitpid(pid, 0)
    return pickle.loads(buf) if buf else ("err", "child died without result")


def py7zr_read(b, password):
    import py7zr
    import py7zr.io
    with py7zr.SevenZipFile(io.BytesIO(b), password=password) as z:
        names = z.getnames()
        fac = py7zr.io.BytesIOFactory(10 ** 7)
        z.extractall(factory=fac)
        prods = {}
        for k, v in fac.products.items():
            v.seek(0)
            prods[k] = v.read()
        return names, prods


def py7zr_write(cfg):
    import py7zr
    kw = {}
    if cfg.get("filters"):
        kw["filters"] = [dict(f, id=getattr(py7zr, f["id"])) for f in cfg["filters"]]
    if cfg.get("password"):
        kw["password"] = cfg["password"]
    if cfg.get("header_encryption"):
        kw["header_encryption"] = True
    bio = io.BytesIO()
    with tempfile.TemporaryDirectory() as td:
        root = os.path.join(td, "root")
        os.makedirs(os.path.join(root, "sub", "emptydir"))
        for name, data in cfg["files"]:
            with open(os.path.join(root, name), "wb") as f:
                f.write(data)
        os.symlink("../one.txt", os.path.join(root, "sub", "link"))  # py7zr refuses dangling links
        with py7zr.SevenZipFile(bio, "w", **kw) as z:
            if cfg.get("raw_header"):
                z.set_encoded_header_mode(False)
            z.writeall(root, "root")
            z.writestr(b"from writestr", "root/str.txt")
    return bio.getvalue()


# ------------------------------------------------------------------ the four parts
def part_a(n, seed, log):
    rng, fails, archives = random.Random(seed), [], []
    for i in range(n):
        lay = gen_layout(rng)
        try:
            blob, reg = write_archive(lay)
            p = read_archive(blob, lay.get("password"))
            exp = expected_members(lay)
            if p.members != exp:
                bad = next((a, b) for a, b in zip(p.members + [None], exp + [None]) if a != b)
                raise AssertionError("members differ: got %r expected %r" % bad)
            if {k: v for k, v in p.regions.items()} != reg:
                raise AssertionError("regions differ: reader %r writer %r" % (p.regions, reg))
            mode = "none" if not lay["files"] else ("raw" if lay.get("header", "raw") == "raw" else "encoded")
            if p.header_mode != mode or (p.folders and p.packpos != lay.get("packpos", 0)):
                raise AssertionError("header_mode/packpos differ: %s %s" % (p.header_mode, p.packpos))
            json.dumps(p.tokens)
            q = read_archive(blob, lay.get("password"), strict=False, decode=False)
            assert not q.warnings and q.tokens == p.tokens and all(m["data"] is None for m in q.members), "decode=False view"
            if p.header_mode == "encoded" and lay.get("password") and any(c["method"] == "06f10701" for c in p.header_coders):
                try:
                    read_archive(blob, None)
                    raise AssertionError("AES header read without password")
                except NeedPassword:
                    pass
            archives.append((lay, blob))
        except Exception as e:
            fails.append("layout %d: %s: %s | %s" % (i, type(e).__name__, e, describe(lay)))
    log("(a) writer->reader: %d layouts, %d failures" % (n, len(fails)))
    return fails, archives


def fixtures():
    for path in sorted(glob.glob(os.path.join(FIXTURES, "*.7z"))):
        name = os.path.basename(path)
        with open(path, "rb") as f:
            yield name, f.read(), PASSWORDS.get(name, "secret" if name.startswith("encrypted") else None)


def part_b(log):
    fails, stats = [], {"ok": 0, "unsupported": 0, "rejected-corrupt": 0}
    for name, blob, pw in fixtures():
        try:
            try:
                p = read_archive(blob, pw)
                for m in p.members:
                    assert m["data"] is not None and len(m["data"]) == m["size"]
                key = "ok"
            except Unsupported as e:
                read_archive(blob, pw, decode=False)  # structure must still be fully conforming
                key = "unsupported"
                log("    %s: Unsupported (%s), structure parsed strictly" % (name, e))
            if name in CORRUPT:
                fails.append("%s: corrupt fixture accepted" % name)
            stats[key] += 1
        except FormatError as e:
            if name in CORRUPT:
                stats["rejected-corrupt"] += 1
                log("    %s: rejected as intended (%s)" % (name, e.reason))
            else:
                fails.append("%s: FormatError: %s" % (name, e.reason))
        except Exception as e:
            fails.append("%s: %s: %s" % (name, type(e).__name__, e))
    log("(b) fixtures: %s, %d failures" % (stats, len(fails)))
    return fails


def check_tree(name, blob, pw):
    tree = parse_to_tree(blob, pw)
    json.dumps(tree["header"])
    sites = list(iter_number_sites(tree))
    for path in sites:
        v = get_at(tree, path)
        assert isinstance(v, int) or (isinstance(v, dict) and "n" in v), (path, v)
    rebuilt = build_from_tree(copy.deepcopy(tree))
    if tree["encoded"] is None:
        assert rebuilt == blob, "rebuild differs"
    else:
        a, b = (read_archive(x, pw, strict=False, decode=False) for x in (blob, rebuilt))
        assert a.raw_header == b.raw_header, "decoded header differs after rebuild"
        assert rebuilt[:32 + len(tree["body"])][32:] == blob[32:32 + len(tree["body"])], "packed area not verbatim"
        read_archive(rebuilt, pw, strict=(name not in CORRUPT), decode=False)
        frozen = copy.deepcopy(tree)
        frozen["encoded"]["resync"] = False
        assert build_from_tree(frozen) == blob, "verbatim (resync=False) rebuild differs"
    if sites:  # an edit must land in the output and the archive must be re-sealed
        b2 = build_from_tree(set_at(copy.deepcopy(tree), sites[0], 0x123456789A))
        nofs, nsize, ncrc = struct.unpack("<QQI", b2[12:32])
        assert b2 != blob and crc32(b2[12:32]) == struct.unpack("<I", b2[8:12])[0], "start header not re-sealed"
        assert crc32(b2[32 + nofs:32 + nofs + nsize]) == ncrc, "next header not re-sealed"
        assert 32 + nofs + nsize + len(tree["tail"]) == len(b2), "next header offset/size not re-sealed"
        if tree["encoded"] is None:
            assert enc_number(0x123456789A) in b2[32 + nofs:], "edited NUMBER not found"
    return len(sites)


def part_c(archives, log):
    fails, n, nsites = [], 0, 0
    items = [(name, blob, pw) for name, blob, pw in fixtures()]
    items += [("layout %d" % i, blob, lay.get("password")) for i, (lay, blob) in enumerate(archives)]
    for name, blob, pw in items:
        try:
            nsites += check_tree(name, blob, pw)
            n += 1
        except Unsupported as e:
            log("    %s: tree skipped (%s)" % (name, e))
        except Exception as e:
            fails.append("%s: %s: %s" % (name, type(e).__name__, e))
    log("(c) mutate: %d archives round-tripped losslessly, %d NUMBER sites, %d failures" % (n, nsites, len(fails)))
    return fails


def part_c2(archives, log):
    """Hostile rewrites through the tree and raw byte flips: the reader may only answer with refcodec errors."""
    from .errors import RefCodecError
    fails, calls, rejected, slow = [], 0, 0, 0.0
    rng = random.Random(7)
    items = [(blob, lay.get("password")) for lay, blob in archives[:80]]
    items += [(blob, pw) for name, blob, pw in fixtures() if len(blob) < 3000 and name not in CORRUPT][:25]

    def attempt(what, b, pw):
        nonlocal calls, rejected, slow
        for strict in (True, False):
            t = time.time()
            try:
                calls += 1
                read_archive(b, pw, strict=strict)
            except RefCodecError:
                rejected += 1
            except Exception as e:
                fails.append("%s strict=%s: %s: %s" % (what, strict, type(e).__name__, e))
            slow = max(slow, time.time() - t)
    for idx, (blob, pw) in enumerate(items):
        try:
            tree = parse_to_tree(blob, pw)
        except Unsupported:
            continue
        sites = list(iter_number_sites(tree))
        for path in rng.sample(sites, min(len(sites), 25)):
            v = get_at(tree, path)
            v = v["n"] if isinstance(v, dict) else v
            for nv in {0, 1, v + 1, max(v - 1, 0), 0x80, 1 << 32, (1 << 64) - 1} - {v}:
                try:
                    b2 = build_from_tree(set_at(copy.deepcopy(tree), path, nv))
                except Exception as e:
                    fails.append("item %d build %r=%d: %s: %s" % (idx, path, nv, type(e).__name__, e))
                    continue
                attempt("item %d %r=%d" % (idx, path, nv), b2, pw)
        for _ in range(60):
            pos = rng.randrange(len(blob))
            b2 = bytearray(blob)
            b2[pos] ^= 1 << rng.randrange(8)
            attempt("item %d flip@%d" % (idx, pos), bytes(b2), pw)
        for cut in (0, 5, 31, 32, len(blob) // 2, len(blob) - 1):
            attempt("item %d truncated@%d" % (idx, cut), blob[:cut], pw)
    log("(c2) robustness: %d hostile reads, %d rejected with refcodec errors, slowest %.2fs, %d foreign exceptions"
        % (calls, rejected, slow, len(fails)))
    if slow > 5:
        fails.append("a hostile read took %.1fs" % slow)
    return fails


def _one(chain):
    return {"folders": [{"nfiles": 3, "coders": [{"id": c} for c in chain]}], "password": "secret" if "aes" in chain else None}


PROBES = [  # single-feature layouts, so that a py7zr disagreement can be attributed (and then masked in the random part)
    ("baseline", {}), ("packpos", {"packpos": 5}), ("packcrc", {"packcrc": True}), ("number_pad1", {"number_pad": 1}),
    ("number_pad8", {"number_pad": 8}), ("dummy", {"dummy": 3}), ("dummy0", {"dummy": 0}),
    ("numunpack-explicit", {"omit_numunpack_if_all_one": False, "folders": [{"nfiles": 1}] * 3}),
    ("emptyfile-always", {"emptyfile_vector": "always"}), ("emptyfile-never", {"emptyfile_vector": "never"}),
    ("attrib-explicit", {"attrib_vector": "explicit"}), ("time-explicit", {"time_vector": "explicit"}),
    ("header-lzma", {"header": "lzma"}), ("header-lzma-nocrc", {"header": "lzma", "header_folder_crc": False}),
    ("header-aes", {"header": "aes", "password": "secret"}),
    ("foldercrc-only-no-substreamsinfo", {"folders": [{"nfiles": 1, "crc": "folder"}] * 3}),
    ("foldercrc-only-with-numunpack", {"folders": [{"nfiles": 1, "crc": "folder"}] * 3, "omit_numunpack_if_all_one": False}),
    ("foldercrc+substreamcrc-solid", {"folders": [{"nfiles": 3, "crc": "folder"}]}),
    ("foldercrc-mixed", {"folders": [{"nfiles": 1, "crc": "folder"}, {"nfiles": 2, "crc": "substream"}]}),
    ("crc-none", {"folders": [{"nfiles": 3, "crc": "none"}]}),
    ("crc-none-nonsolid-no-substreamsinfo", {"folders": [{"nfiles": 1, "crc": "none"}] * 3}),
    ("crc-partly-defined", {"folders": [{"nfiles": 2, "crc": "none"}, {"nfiles": 1, "crc": "substream"}]}),
    ("non-solid", {"folders": [{"nfiles": 1}, {"nfiles": 1}, {"nfiles": 1}]}),
    ("two-solid-blocks", {"folders": [{"nfiles": 2}, {"nfiles": 1}]}),
] + [("chain:" + "+".join(c), _one(c)) for c in CHAINS]
FEATURE_OF = {"packpos": "packpos", "packcrc": "packcrc", "number_pad1": "number_pad", "number_pad8": "number_pad",
              "dummy": "dummy", "dummy0": "dummy", "emptyfile-always": "emptyfile_vector", "emptyfile-never": "emptyfile_vector",
              "attrib-explicit": "attrib_vector", "time-explicit": "time_vector", "header-lzma-nocrc": "header_folder_crc",
              "numunpack-explicit": "omit_numunpack_if_all_one"}


def sanitize(lay, failed):
    """Copy of a random layout without the features whose single-feature probe already disagreed."""
    lay = copy.deepcopy(lay)
    for name in failed:
        lay.pop(FEATURE_OF.get(name, ""), None)
    for fo in lay.get("folders") or []:
        if any(n.startswith("foldercrc") for n in failed) and fo.get("crc") == "folder":
            fo["crc"] = "substream"
        if any(n.startswith("crc-") for n in failed) and fo.get("crc") == "none":
            fo["crc"] = "substream"
        if "chain:" + "+".join(c["id"] for c in fo.get("coders", [{"id": "lzma2"}])) in failed:
            fo["coders"] = [{"id": "lzma2"}]
    if any(n.startswith("header-") for n in failed):
        lay.pop("header", None)
    return lay


def probe_layout(extra, attrib=True, partial=False):
    files = [{"name": "d", "kind": "dir"}, {"name": "d/one.txt", "data": b"one " * 40}, {"name": "d/empty", "kind": "empty"},
             {"name": "d/two.bin", "data": bytes(range(256))}, {"name": "three", "data": b"3"}]
    for i, f in enumerate(files):
        f["mtime"] = FT if not (partial and i % 2) else None
        if not attrib or (partial and i % 2 == 0):
            f["attrib"] = None
    return dict({"files": files}, **extra)


def compare_py7zr(tag, lay, blob, seen, log):
    exp = expected_members(lay)
    st, res = in_child(py7zr_read, blob, lay.get("password"))
    msg = None
    if st != "ok":
        msg = "py7zr %s: %s" % (st, res)
    else:
        names, prods = res
        if names != [m["name"] for m in exp]:
            msg = "names differ: py7zr %r vs %r" % (names, [m["name"] for m in exp])
        else:
            for m in exp:
                if m["kind"] in ("file", "empty") and prods.get(m["name"]) != m["data"]:
                    got = prods.get(m["name"])
                    msg = "content of %r differs: py7zr %s vs %d bytes" % (
                        m["name"], "missing" if got is None else "%d bytes" % len(got), len(m["data"]))
                    break
    if msg:
        key = msg.split(":")[0:2]
        if True:
            log("PY7ZR-DISAGREES: [%s] %s | %s" % (tag, msg, describe(lay)))
        seen[str(key)] = seen.get(str(key), 0) + 1
    return msg is None


def part_d(archives, log):
    try:
        import py7zr  # noqa: F401  (oracle only; every call runs in a forked child)
    except Exception as e:
        log("(d) skipped: py7zr not importable (%s)" % e)
        return
    seen, agree, total, failed = {}, 0, 0, set()
    probes = [(name, probe_layout(copy.deepcopy(extra))) for name, extra in PROBES]
    probes.append(("no-attributes", probe_layout({}, attrib=False)))
    probes.append(("partial-times-and-attribs", probe_layout({}, partial=True)))
    probes.append(("empty-symlink+unicode", dict(files=[{"name": "l\u00e4nk", "kind": "symlink", "data": ""},
                                                        {"name": "d\u00fcr/\u65e5\u672c-\U0001F600.txt", "data": b"x" * 50}])))
    for name, lay in probes:
        blob, _ = write_archive(lay)
        read_archive(blob, lay.get("password"))
        good = compare_py7zr("probe:" + name, lay, blob, seen, log)
        agree, total = agree + good, total + 1
        if not good:
            failed.add(name)
    log("(d1) probes: %d/%d agree; features masked in the random part: %s" % (agree, total, sorted(failed)))
    agree = total = 0
    for i, (lay, _blob) in enumerate(archives[::3]):
        lay = sanitize(lay, failed)
        blob, _ = write_archive(lay)
        read_archive(blob, lay.get("password"))
        agree += compare_py7zr("layout %d (sanitized)" % (3 * i), lay, blob, seen, log)
        total += 1
    log("(d1) py7zr reads random refcodec archives: %d/%d agree; disagreement classes: %s" % (agree, total, json.dumps(seen)))
    files = [("one.txt", b"one " * 100), ("two.bin", bytes(range(256)) * 3), ("empty.dat", b"")]
    cfgs = [{}, {"raw_header": True}, {"filters": [{"id": "FILTER_LZMA"}]}, {"filters": [{"id": "FILTER_COPY"}]},
            {"filters": [{"id": "FILTER_BZIP2"}]}, {"filters": [{"id": "FILTER_DEFLATE"}]},
            {"filters": [{"id": "FILTER_ZSTD", "level": 3}]},
            {"filters": [{"id": "FILTER_PPMD", "order": 6, "mem": 24}]}, {"filters": [{"id": "FILTER_BROTLI", "level": 5}]},
            {"filters": [{"id": "FILTER_DELTA"}, {"id": "FILTER_LZMA2", "preset": 1}]},
            {"filters": [{"id": "FILTER_X86"}, {"id": "FILTER_LZMA", "preset": 1}]},
            {"filters": [{"id": "FILTER_ARM"}, {"id": "FILTER_LZMA2", "preset": 1}]},
            {"password": "secret"}, {"password": "secret", "header_encryption": True},
            {"password": "secret", "raw_header": True},
            {"filters": [{"id": "FILTER_ZSTD", "level": 3}, {"id": "FILTER_CRYPTO_AES256_SHA256"}], "password": "secret"}]
    ok, soft = 0, {}
    for cfg in cfgs:
        cfg = dict(cfg, files=files)
        tag = json.dumps({k: v for k, v in cfg.items() if k != "files"})
        st, blob = in_child(py7zr_write, cfg)
        if st != "ok":
            log("PY7ZR-DISAGREES: [py7zr write %s] py7zr could not write: %s" % (tag, blob))
            continue
        want = {"root/" + n: ("file" if d else "empty", d) for n, d in files}
        want.update({"root": ("dir", b""), "root/sub": ("dir", b""), "root/sub/emptydir": ("dir", b""),
                     "root/sub/link": ("symlink", b"../one.txt"), "root/str.txt": ("file", b"from writestr")})
        try:
            try:
                p = read_archive(blob, cfg.get("password"))
                ok += 1
            except FormatError as e:
                log("PY7ZR-DISAGREES: [py7zr write %s] strict reader rejects py7zr output: %s" % (tag, e.reason))
                p = read_archive(blob, cfg.get("password"), strict=False)
            got = {m["name"]: (m["kind"], m["data"]) for m in p.members}
            diff = {k: (got.get(k, ("missing",))[0], want.get(k, ("unexpected",))[0]) for k in set(got) | set(want)
                    if got.get(k) != want.get(k)}
            msgs = []
            if diff:
                msgs.append("members differ {name: (kind read, kind expected)}: %r; reader notes: %s" % (diff, p.notes[:2]))
            for fo in p.folders:
                for cdr in fo["coders"]:
                    if cdr["method"] == "030401" and len(cdr["props"] or "") != 10:
                        msgs.append("PPMd coder properties are %d bytes (%s); 7-Zip writes exactly 5 (order, mem)"
                                    % (len(cdr["props"]) // 2, cdr["props"]))
            for msg in msgs:
                if msg not in soft:
                    log("PY7ZR-DISAGREES: [py7zr write %s] %s" % (tag, msg))
                soft[msg] = soft.get(msg, 0) + 1
            parse_to_tree(blob, cfg.get("password"))
        except Exception as e:
            log("PY7ZR-DISAGREES: [py7zr write %s] reader: %s: %s" % (tag, type(e).__name__, e))
    log("(d2) refcodec strictly reads py7zr archives: %d/%d; soft disagreements (count of archives): %s"
        % (ok, len(cfgs), json.dumps(soft)[:600]))


def main(argv=None):
    argv = sys.argv[1:] if argv is None else argv
    n = int(argv[0]) if argv else 400
    t0 = time.time()

    def log(s):
        print(s, flush=True)
    import lzma  # hand-written property blobs agree with liblzma's helper
    f1 = {"dict_size": 1 << 20, "lc": 2, "lp": 1, "pb": 1}
    assert coders.encode(dict(f1, id="lzma"), b"")[1] == lzma._encode_filter_properties(dict(f1, id=lzma.FILTER_LZMA1))
    assert coders.encode({"id": "lzma2", "dict_size": 3 << 19}, b"")[1] == \
        lzma._encode_filter_properties({"id": lzma.FILTER_LZMA2, "dict_size": 3 << 19})
    assert coders.encode({"id": "delta", "dist": 77}, b"")[1] == \
        lzma._encode_filter_properties({"id": lzma.FILTER_DELTA, "dist": 77})
    fa, archives = part_a(n, 20261004, log)
    fb = part_b(log)
    fc = part_c(archives, log)
    fc += part_c2(archives, log)
    try:
        part_d(archives, log)
    except Exception as e:  # (d) never decides the exit status
        log("(d) aborted: %s: %s" % (type(e).__name__, e))
    for f in fa + fb + fc:
        log("FAIL " + f)
    log("SUMMARY: (a) %s  (b) %s  (c) %s   [%.1fs]" % tuple(
        ["PASS" if not x else "FAIL(%d)" % len(x) for x in (fa, fb, fc)] + [time.time() - t0]))
    return 1 if fa or fb or fc else 0


if __name__ == "__main__":
    sys.exit(main())
