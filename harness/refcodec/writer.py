"""Build complete 7z archives from a layout description (see write_archive)."""
import struct

from . import coders, mutate
from .common import crc32, num_width

DEFAULT_ATTRIB = {"dir": 0x10 | 0x8000 | (0o040755 << 16), "file": 0x20 | 0x8000 | (0o100644 << 16),
                  "empty": 0x20 | 0x8000 | (0o100644 << 16), "symlink": 0x20 | 0x400 | 0x8000 | (0o120777 << 16)}


def _digest_node(values, explicit=False):
    """CRC node for a list of crc-or-None."""
    node = {"t": "CRC", "alldefined": int(all(v is not None for v in values) and not explicit)}
    if not node["alldefined"]:
        node["bits"] = [int(v is not None) for v in values]
    node["crcs"] = [v for v in values if v is not None]
    return node


def _folder_record(specs, data, password, record_order=None, bind_order=None):
    """Run data through the coders (encoding order); return (packed, folder node, unpack sizes in record order)."""
    cs, sizes = [], []
    for spec in specs:
        sizes.append(len(data))
        data, props = coders.encode(spec, data, password)
        mid = coders.method_bytes(spec["id"])
        c = {"flag": len(mid) | (0x20 if props is not None else 0), "id": mid.hex()}
        if props is not None:
            c["propsize"], c["props"] = len(props), props.hex()
        cs.append(c)
    cs.reverse()  # decoding order, starting at the coder that consumes the packed stream
    sizes.reverse()
    n = len(cs)
    # record_order[j] = record position of the j-th coder of the decoding chain (default: positional);
    # bind_order = order in which the n-1 bind pairs are written.  The bind pairs, not the positions, define the chain.
    pos = list(record_order) if record_order is not None else list(range(n))
    if sorted(pos) != list(range(n)):
        raise ValueError("record_order must be a permutation of 0..%d" % (n - 1))
    rec, rsz = [None] * n, [None] * n
    for j in range(n):
        rec[pos[j]], rsz[pos[j]] = cs[j], sizes[j]
    pairs = [[pos[j + 1], pos[j]] for j in range(n - 1)]
    if bind_order is not None:
        pairs = [pairs[k] for k in bind_order]
    node = {"numcoders": n, "coders": rec, "bindpairs": pairs, "packed": []}
    return data, node, rsz


def _streams(t, packpos, packed, fnodes, fsizes, fcrcs, packcrc, sub_items):
    pack = {"t": "PackInfo", "packpos": packpos, "numstreams": len(packed), "end": True,
            "items": [{"t": "Size", "sizes": [len(p) for p in packed]}]}
    if packcrc == "partial" and len(packed) > 1:
        # a partially defined digest vector: every other packed stream carries a CRC (the first one does not)
        pack["items"].append(_digest_node([crc32(p) if k % 2 else None for k, p in enumerate(packed)]))
    elif packcrc:
        pack["items"].append(_digest_node([crc32(p) for p in packed]))
    unpack = {"t": "UnpackInfo", "end": True, "items": [
        {"t": "Folder", "numfolders": len(fnodes), "external": 0, "folders": fnodes},
        {"t": "CodersUnpackSize", "sizes": [s for ss in fsizes for s in ss]}]}
    if any(c is not None for c in fcrcs):
        unpack["items"].append(_digest_node(fcrcs))
    items = [pack, unpack]
    if sub_items:
        items.append({"t": "SubStreamsInfo", "items": sub_items, "end": True})
    return {"t": t, "items": items, "end": True}


def _vector_prop(t, values, explicit):
    node = {"t": t, "size": None, "alldefined": int(all(v is not None for v in values) and not explicit)}
    if not node["alldefined"]:
        node["bits"] = [int(v is not None) for v in values]
    node["external"], node["values"] = 0, [v for v in values if v is not None]
    return node


def write_archive(layout: dict):
    """layout -> (archive bytes, regions).  See the package README / brief for the layout keys."""
    password = layout.get("password")
    files = []
    for f in layout["files"]:
        kind = f.get("kind", "file")
        data = f.get("data", b"")
        data = data.encode("utf-8") if isinstance(data, str) else bytes(data)
        stream = kind in ("file", "symlink") and len(data) > 0
        files.append(dict(f, kind=kind, data=data, stream=stream, attrib=f.get("attrib", DEFAULT_ATTRIB[kind])))
    datas = [f["data"] for f in files if f["stream"]]
    folders = layout.get("folders")
    if folders is None:
        folders = [{"nfiles": len(datas)}] if datas else []
    if sum(fo.get("nfiles", 1) for fo in folders) != len(datas):
        raise ValueError("layout: folders cover %d files but %d files have data" % (
            sum(fo.get("nfiles", 1) for fo in folders), len(datas)))
    # ---- packed streams and StreamsInfo
    packpos = layout.get("packpos", 0)
    packed, fnodes, fsizes, fcrcs, nums, subsizes, subcrcs, k = [], [], [], [], [], [], [], 0
    for fo in folders:
        n, mode = fo.get("nfiles", 1), fo.get("crc", "substream")
        part = datas[k:k + n]
        k += n
        plain = b"".join(part)
        p, node, sizes = _folder_record(fo.get("coders", [{"id": "lzma2"}]), plain, password,
                                        fo.get("record_order"), fo.get("bind_order"))
        packed.append(p)
        fnodes.append(node)
        fsizes.append(sizes)
        fcrcs.append(crc32(plain) if mode == "folder" else None)
        nums.append(n)
        subsizes += [len(d) for d in part[:-1]]
        if not (n == 1 and mode == "folder"):  # streams whose CRC is not already known from the folder
            subcrcs += [None if mode == "none" else crc32(d) for d in part]
    sub = []
    if not (all(n == 1 for n in nums) and layout.get("omit_numunpack_if_all_one", True)):
        sub.append({"t": "NumUnpackStream", "nums": nums})
    if any(n > 1 for n in nums):
        sub.append({"t": "Size", "sizes": subsizes})
    if any(c is not None for c in subcrcs):
        sub.append(_digest_node(subcrcs))
    items = []
    if folders:
        items.append(_streams("MainStreamsInfo", packpos, packed, fnodes, fsizes, fcrcs, layout.get("packcrc", False), sub))
    # ---- FilesInfo
    if files:
        props = []
        es = [int(not f["stream"]) for f in files]
        ef = [int(f["kind"] != "dir") for f in files if not f["stream"]]
        evec = layout.get("emptyfile_vector", "auto")
        if any(es):
            props.append({"t": "EmptyStream", "size": None, "bits": es})
            if evec == "always" or (evec == "auto" and any(ef)):
                props.append({"t": "EmptyFile", "size": None, "bits": ef})
        if layout.get("dummy") is not None:
            props.append({"t": "Dummy", "id": 0x19, "size": None, "data": "00" * layout["dummy"]})
        props.append({"t": "Names", "size": None, "external": 0, "names": [f["name"] for f in files]})
        texp = layout.get("time_vector", "auto") == "explicit"
        for key, t in (("ctime", "CTime"), ("atime", "ATime"), ("mtime", "MTime")):
            vals = [f.get(key) for f in files]
            if any(v is not None for v in vals):
                props.append(_vector_prop(t, vals, texp))
        vals = [f["attrib"] for f in files]
        if any(v is not None for v in vals):
            props.append(_vector_prop("Attributes", vals, layout.get("attrib_vector", "auto") == "explicit"))
        for pr in props:
            pr["size"] = len(mutate._payload(pr))
        items.append({"t": "FilesInfo", "numfiles": len(files), "props": props, "end": True})
    body = b"\xa5" * packpos + b"".join(packed) if folders else b""
    tree = {"sig": {"magic": "377abcaf271c", "version": "0004", "startcrc": None, "nextofs": None, "nextsize": None,
                    "nextcrc": None},
            "body": body, "tail": b"", "encoded": None,
            "header": {"t": "Header", "items": items, "end": True} if items else None}
    # ---- header encoding
    mode = layout.get("header", "raw")
    if mode != "raw" and items:
        specs = [{"id": "lzma", "dict_size": 1 << 16}] + ([{"id": "aes"}] if mode == "aes" else [])
        _p, node, sizes = _folder_record(specs, b"", password)
        fcrc = [0 if layout.get("header_folder_crc", True) else None]
        st = _streams("EncodedHeader", len(body), [b""], [node], [sizes], fcrc, layout.get("packcrc", False), [])
        tree["encoded"] = {"streams": st, "password": password, "resync": True, "packed": b"", "hdr_gap": b""}
    pad = layout.get("number_pad", 0)
    if pad:
        for path in list(mutate.iter_number_sites(tree)):
            v = mutate.get_at(tree, path)
            mutate.set_at(tree, path, {"n": v, "w": min(num_width(v) + pad, 9)})
    out = mutate.build_from_tree(tree)
    # ---- regions
    nofs, nsize = struct.unpack("<QQ", out[12:28])
    reg = {"magic": [[0, 6]], "version": [[6, 8]], "startcrc": [[8, 12]], "nextofs": [[12, 20]],
           "nextsize": [[20, 28]], "nextcrc": [[28, 32]], "header": [[32 + nofs, 32 + nofs + nsize]]}
    if folders and packpos:
        reg["gap"] = [[32, 32 + packpos]]
    pos = 32 + packpos
    for i, p in enumerate(packed):
        reg["pack%d" % i] = [[pos, pos + len(p)]]
        pos += len(p)
    if tree["encoded"]:
        reg["hdrpack"] = [[32 + len(body), 32 + nofs]]
    return out, reg
