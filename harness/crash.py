"""C14: record the ordered seek/write stream a write session issues on the archive file, then materialise every
byte-granular prefix of it (plus 'last operation dropped' and 'last two operations reordered') and open each image."""
import io
import os


class RecordingFile(io.BytesIO):
    """a BytesIO that logs every write as (offset, bytes)"""

    def __init__(self, initial=b""):
        super().__init__(initial)
        self.ops = []
        self.seek(0)

    def write(self, b):
        b = bytes(b)
        self.ops.append((self.tell(), b))
        return super().write(b)

    def truncate(self, size=None):
        size = self.tell() if size is None else size
        self.ops.append((size, None))            # (offset, None): the file is cut at offset
        return super().truncate(size)


def images(initial: bytes, ops, step=1):
    """yield (label, image) for every crash point.  label = (k, j): k complete operations, j bytes of operation k+1"""
    img = bytearray(initial)

    def apply(buf, off, data):
        if data is None:                         # truncate
            del buf[off:]
            return
        if off > len(buf):
            buf.extend(bytes(off - len(buf)))
        buf[off:off + len(data)] = data

    for k, (off, data) in enumerate(ops):
        # torn inside operation k (prefix of j bytes), j = 0 is the clean state before it
        for j in range(0, len(data) if data is not None else 1, step):
            cur = bytearray(img)
            apply(cur, off, data[:j] if data is not None else b"")
            yield ("torn", k, j), bytes(cur)
        if k >= 1:
            # the previous operation never reached the disk but this one did (reordered), complete
            poff, pdata = ops[k - 1]
            base = bytearray(initial)
            for (o2, d2) in ops[:k - 1]:
                apply(base, o2, d2)
            apply(base, off, data)
            yield ("reordered", k, len(data) if data is not None else 0), bytes(base)
        apply(img, off, data)
    yield ("complete", len(ops), 0), bytes(img)


def probe_image(case):
    """open one image with py7zr: returns ('reject', exc) | ('ok', [(name, sha1-or-None)...]) ; runs in a sandbox child"""
    import hashlib

    from .common import import_py7zr

    py7zr = import_py7zr()
    raw, password = case
    try:
        with py7zr.SevenZipFile(io.BytesIO(raw), "r", password=password) as z:
            names = z.getnames()
            fac = py7zr.io.BytesIOFactory(1 << 28)
            z.extractall(factory=fac)
            out = []
            for n in names:
                p = fac.products.get(n)
                out.append((n, hashlib.sha1(p.read()).hexdigest() if p is not None else None))
            return ("ok", out)
    except Exception as e:  # noqa
        return ("reject", type(e).__name__)


MARKER = ("retry/marker.bin", b"written by the session that came after the crash")


def probe_append(case):
    """the caller's natural reaction to a crash: run an append session on what was left.  Opens the image with mode 'a', adds one
    member, closes, and reads the result like probe_image: ('reject', exc) when mode 'a' refuses the image, else ('ok', members)"""
    import hashlib

    from .common import import_py7zr

    py7zr = import_py7zr()
    raw, password = case
    bio = io.BytesIO(raw)
    try:
        z = py7zr.SevenZipFile(bio, "a", password=password)
    except Exception as e:  # noqa
        return ("reject", type(e).__name__)
    try:
        z.writestr(MARKER[1], MARKER[0])
        z.close()
    except Exception as e:  # noqa
        return ("reject-late", type(e).__name__)
    o = probe_image((bio.getvalue(), password))
    return o
