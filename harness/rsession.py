"""Read sessions on real archives: build an archive of a given shape with the reference writer, run a sequence of public
read-mode calls on it, and record the trace that TraceReadSession.tla validates (C09, C10, C12)."""
import hashlib
import io
import os
import random
import shutil
import zlib

from .refcodec import write_archive

BASES = ["dir", "x一", "e\u0300t", "日本", "sp ace", "a\u3000b", "n\U0001F600", "\u0100z", "ü", "k\U00020BB7", ".h", "Q", "f", "g"]   # incl. a code unit with low byte 00 right after a Latin-1 character; astral


def shape_names(shape):
    names = []
    for i, m in enumerate(shape["members"]):
        base = f"{BASES[i % len(BASES)]}{i + 1}"
        names.append(base if m["parent"] == 0 else names[m["parent"] - 1] + "/" + base)
    return names


def content(i, R):
    n = [300, 17, 4097, 1, 70000, 33][i % 6]
    return (bytes([R.randrange(256) for _ in range(64)]) * (n // 64 + 1))[:n]


def build(shape, seed=0, password=None, coder="lzma2", header="lzma", packcrc=False, damaged=(), partialcrc=False, mixedtimes=False):
    """shape: {members:[{kind, folder, pos, parent}], nfolders}.  Returns (raw, info) with info[i] = {name, data, size, crc}"""
    R = random.Random(seed)
    names = shape_names(shape)
    files, info = [], []
    for i, m in enumerate(shape["members"]):
        if m["kind"] == "file":
            d = content(i, R)
            files.append({"name": names[i], "kind": "file", "data": d, "mtime": 132223104000000000 + i * 10_000_000})
        elif m["kind"] == "dir":
            d = None
            files.append({"name": names[i], "kind": "dir", "mtime": 132223104000000000 + i * 10_000_000})
            if (seed + i) % 3 == 0:
                files[-1]["attrib"] = None            # a directory without an attribute word: empty stream and not an empty file
        else:
            d = b""
            files.append({"name": names[i], "kind": "empty", "mtime": 132223104000000000 + i * 10_000_000})
        mt = files[-1]["mtime"]
        if mixedtimes and (seed + i) % 3 == 1:
            del files[-1]["mtime"]                    # undefined in a partially defined time vector: stays undefined in every listing
            mt = None
        elif mixedtimes and (seed + i) % 5 == 4:
            mt = files[-1]["mtime"] = [1 << 63, (1 << 64) - 1, 2650467744000000000][i % 3]      # legal FILETIMEs beyond the year 9999
        info.append({"name": names[i], "data": d, "size": 0 if d is None else len(d), "crc": zlib.crc32(d) if d else 0, "kind": m["kind"], "mtime": mt})
    # folders in order of first appearance of data members; members of a folder must be consecutive among data members
    data_idx = [i for i, m in enumerate(shape["members"]) if m["folder"] != 0]
    folders, last = [], None
    for i in data_idx:
        f = shape["members"][i]["folder"]
        if f != last:
            cs = [dict({"id": c}, **({"dist": 3} if c == "delta" else {})) for c in coder.split("+")] + ([{"id": "aes"}] if password else [])   # "bcj+lzma2": a chain
            # partialcrc: some folders store no digests at all - the digest vector of the archive is then partially defined
            folders.append({"nfiles": 0, "coders": cs, "crc": "none" if (partialcrc and (seed + len(folders)) % 3 == 0) else "substream"})
            last = f
        folders[-1]["nfiles"] += 1
    # which members carry a digest: those of folders that store them
    k = 0
    for i in data_idx:
        f = shape["members"][i]["folder"]
    fi = -1
    last = None
    for i in data_idx:
        f = shape["members"][i]["folder"]
        if f != last:
            fi += 1
            last = f
        info[i]["hascrc"] = folders[fi]["crc"] != "none"
    lay = {"files": files, "header": header if not password else "aes", "password": password, "packcrc": packcrc if packcrc == "partial" else bool(packcrc)}
    if folders:
        lay["folders"] = folders
    raw, regions = write_archive(lay)
    if damaged:
        raw = bytearray(raw)
        for f in damaged:                       # the first byte of the folder's packed stream: its first member is hit for certain
            a, b = regions[f"pack{f - 1}"][0]
            raw[a] ^= 0x55
        raw = bytes(raw)
    return raw, info


def arch_event(shape, info, encrypted=False, bypath=True):
    return {"e": "arch", "nfolders": shape["nfolders"], "encrypted": bool(encrypted), "bypath": bool(bypath),
            "members": [dict(m, size=[info[i]["size"] % 65536, info[i]["size"] >> 16], crc=[info[i]["crc"] % 65536, info[i]["crc"] >> 16],
                             hascrc=bool(info[i].get("hascrc", True)), **({"mtdef": info[i]["mtime"] is not None} if "mtime" in info[i] else {}))
                        for i, m in enumerate(shape["members"])]}


def _snapshot(root):
    out = {}
    for dp, dn, fn in os.walk(root):
        for d in dn:
            out[os.path.relpath(os.path.join(dp, d), root)] = None
        for f in fn:
            p = os.path.join(dp, f)
            out[os.path.relpath(p, root)] = open(p, "rb").read()
    return out


def run_calls(py7zr, raw, shape, info, calls, *, target="stream", password=None, ending="close", workdir=None, has_aes=None, extra_folders=0, damaged=()):
    """calls: list of dicts {name, T:[member index or 0], rec, sink, asset(list|set), slash}.  Returns the trace."""
    names = [x["name"] for x in info]
    idx = {n: i + 1 for i, n in enumerate(names)}
    # needs_password() must be true exactly when an encryption coder is present or a password was supplied
    trace = [arch_event(shape, info, (password is not None) or bool(has_aes), target == "path")]
    trace[0]["extra"] = int(extra_folders)
    trace[0]["damaged"] = sorted(damaged)
    path = None
    if target == "path":
        path = os.path.join(workdir, "a.7z")
        with open(path, "wb") as f:
            f.write(raw)
    h0 = hashlib.sha256(raw).hexdigest()
    src = path if target == "path" else io.BytesIO(raw)
    z = py7zr.SevenZipFile(src, "r", password=password)
    nout = 0
    try:
        for c in calls:
            ev = {"e": "call", "name": c["name"], "T": sorted(set(c.get("T", []))), "rec": bool(c.get("rec", False)), "sink": c.get("sink", "factory"),
                  "ok": True, "exc": "", "out": [], "dirs_out": [], "bad": [], "extra": 0, "verdict": "none", "names": [], "sizes": [], "crcs": [], "dirs": [], "methods": [],
                  "flag": False}
            try:
                if c["name"] in ("extract", "extractall"):
                    tg = None
                    # the flag as a caller may pass it: the annotated type is Optional[bool], any truth value is in use
                    recarg = ([True, 1] if c.get("rec", False) else [False, None, 0])[c.get("recform", 0) % (2 if c.get("rec", False) else 3)]
                    if c["name"] == "extract":
                        tg = []
                        for t in c.get("T", []):
                            if t >= 1:
                                nm = names[t - 1]
                            else:
                                # a name that is not in the archive - also one that is a string prefix of names that are
                                k = (len(names) * 7 + len(trace)) % max(1, len(names))
                                cands = [f"absent{-t}/nothing", names[k][:-1] if names else "q", (names[k] + "0") if names else "q0", "",
                                         names[k][:1] if names else "q"]
                                nm = cands[c.get("absent", 0) % len(cands)]
                                if nm in names or (nm + "/") in names:
                                    nm = cands[0]
                            sl = c.get("slash", "none")
                            add = sl == "all" or (sl == "dirs" and t >= 1 and shape["members"][t - 1]["kind"] == "dir")
                            tg.append(nm + "/" if add else nm)
                        if c.get("asset") == "set":
                            tg = set(tg)
                    if c.get("sink") == "path":
                        nout += 1
                        od = os.path.join(workdir, f"out{nout}")
                        if c["name"] == "extract":
                            z.extract(od, targets=tg, recursive=recarg)
                        else:
                            z.extractall(od)
                        snap = _snapshot(od) if os.path.isdir(od) else {}
                        for rel, data in snap.items():
                            i = idx.get(rel)
                            if i is None:
                                ev["extra"] += 1
                            elif info[i - 1]["data"] is None:
                                ev["dirs_out"].append(i) if data is None else ev["bad"].append(i)
                            elif data == info[i - 1]["data"]:
                                ev["out"].append(i)
                            else:
                                ev["bad"].append(i)
                        shutil.rmtree(od, ignore_errors=True)
                    else:
                        fac = py7zr.io.BytesIOFactory(1 << 30)
                        if c["name"] == "extract":
                            z.extract(targets=tg, recursive=recarg, factory=fac)
                        else:
                            z.extractall(factory=fac)
                        for nm, prod in fac.products.items():
                            i = idx.get(nm)
                            if i is None:
                                ev["extra"] += 1
                            elif prod.read() == (info[i - 1]["data"] or b""):
                                ev["out"].append(i)
                            else:
                                ev["bad"].append(i)
                    ev["out"].sort()
                    ev["dirs_out"].sort()
                    ev["bad"].sort()
                elif c["name"] == "wrongmode":
                    # a write-side call on the read-mode object; content that no codec can hold back (it would reach the file at once)
                    import random as _rnd
                    blob = _rnd.Random(len(trace)).randbytes(400000)
                    k = c.get("k", "writestr")
                    if k == "writestr":
                        z.writestr(blob, "intruder.bin")
                    elif k == "writef":
                        z.writef(io.BytesIO(blob), "intruder.bin")
                    elif k in ("write", "writeall"):
                        sp = os.path.join(workdir, "intruder.bin")
                        with open(sp, "wb") as f:
                            f.write(blob)
                        getattr(z, k)(sp, "intruder.bin")
                    else:
                        z.set_encoded_header_mode(False)
                        z.set_encrypted_header(True)
                elif c["name"] == "reset":
                    z.reset()
                elif c["name"] == "test":
                    v = z.test()
                    ev["verdict"] = "none" if v is None else ("true" if v else "false")
                elif c["name"] == "testzip":
                    v = z.testzip()
                    ev["verdict"] = "none" if v is None else "bad:" + str(v)
                elif c["name"] == "getnames":
                    got = z.getnames()
                    ev["names"] = [idx.get(n, 0) for n in got]
                    ev["flag"] = got == z.namelist() == [f.filename for f in z.files] == [f.filename for f in z.list()]
                elif c["name"] == "list":
                    L = z.list()
                    ev["names"] = [idx.get(f.filename, 0) for f in L]
                    ev["sizes"] = [[f.uncompressed % 65536, f.uncompressed >> 16] for f in L]
                    # a listed CRC of None ("not stored") is not a CRC of 0
                    ev["crcs"] = [[f.crc32 % 65536, f.crc32 >> 16] if f.crc32 is not None else [70000, 70000] for f in L]
                    ev["dirs"] = [bool(f.is_directory) for f in L]
                    # the listed time: None exactly for an undefined one; the defined value itself where a datetime can hold it
                    import datetime as _dt
                    ev["mtdef"], ev["mtsame"] = [], []
                    for f, x in zip(L, info):
                        if "mtime" not in x:
                            ev["mtdef"].append(True)
                            ev["mtsame"].append(True)
                            continue
                        want = x.get("mtime")
                        try:
                            wdt = None if want is None else _dt.datetime(1970, 1, 1, tzinfo=_dt.timezone.utc) + _dt.timedelta(microseconds=(want - 116444736000000000) // 10)
                            rep_ok = True
                        except OverflowError:
                            wdt, rep_ok = None, False                     # not representable: any answer but an exception
                        ev["mtdef"].append(f.creationtime is not None if rep_ok else want is not None)
                        ev["mtsame"].append((f.creationtime == wdt) if rep_ok else True)
                elif c["name"] == "getinfo":
                    okk = True
                    for n in names:
                        okk &= z.getinfo(n).filename == n and z.getinfo(n + "/").filename == n
                    try:
                        z.getinfo("absent/none")
                        okk = False
                    except KeyError:
                        pass
                    ev["flag"] = okk
                elif c["name"] == "needs_password":
                    ev["flag"] = bool(z.needs_password())
                elif c["name"] == "archiveinfo":
                    ai = z.archiveinfo()
                    ev["sizes"] = [[ai.uncompressed % 65536, ai.uncompressed >> 16]]
                    ev["names"] = [ai.blocks]
                    ev["flag"] = bool(ai.solid)
                    ev["verdict"] = ",".join(ai.method_names)
                    ev["methods"] = sorted(set(ai.method_names))
            except Exception as e:  # noqa
                ev["ok"] = False
                ev["exc"] = type(e).__name__ + ":" + str(e)[:100]
            if c["name"] == "wrongmode":
                ev["k"] = c.get("k", "writestr")
                ev["same"] = hashlib.sha256(open(path, "rb").read() if path else src.getvalue()).hexdigest() == h0
            trace.append(ev)
        end = {"e": "closed", "how": ending, "exc": "", "same": True}
        try:
            if ending == "close":
                z.close()
            elif ending == "with":
                with z:
                    pass
            else:
                try:
                    with z:
                        raise RuntimeError("caller's exception")
                except RuntimeError:
                    pass
        except Exception as e:  # noqa
            end["exc"] = type(e).__name__ + ":" + str(e)[:100]
        now = open(path, "rb").read() if path else src.getvalue()
        end["same"] = hashlib.sha256(now).hexdigest() == h0
        trace.append(end)
    finally:
        try:
            z.close()
        except Exception:  # noqa
            pass
    return trace
