"""C20: write, then extract, one large synthetic member in fresh processes and measure peak resident memory.
Run as:  python -m harness.bigmem <json case>   (prints one JSON line)."""
import io
import json
import os
import resource
import sys
import time


class Synthetic(io.BufferedIOBase):
    """size bytes generated on the fly: 'zeros', 'period' (short period) or 'random' (incompressible)"""

    def __init__(self, size, texture):
        self.size, self.pos, self.texture = size, 0, texture
        if texture == "random":
            self.block = os.urandom(1 << 20)
        elif texture == "period":
            self.block = (b"0123456789abcdef" * 4)[:61] * 17200
            self.block = self.block[: 1 << 20]
        else:
            self.block = bytes(1 << 20)

    def readable(self):
        return True

    def seekable(self):
        return True

    def tell(self):
        return self.pos

    def seek(self, off, whence=0):
        self.pos = off if whence == 0 else (self.pos + off if whence == 1 else self.size + off)
        return self.pos

    def read(self, n=-1):
        if n is None or n < 0:
            n = self.size - self.pos
        n = min(n, self.size - self.pos)
        if n <= 0:
            return b""
        off = self.pos % len(self.block)
        out = self.block[off:off + n]
        while len(out) < n:
            out += self.block[: n - len(out)]
        self.pos += n
        return out


def rss_mb():
    return resource.getrusage(resource.RUSAGE_SELF).ru_maxrss / 1024.0


def main():
    case = json.loads(sys.argv[1])
    sys.path.insert(0, os.environ.get("VERIF_REPO", "/repo"))
    import py7zr
    import py7zr.compressor as C

    base = rss_mb()
    out = {"phase": case["phase"], "base_mb": round(base, 1)}
    t0 = time.time()
    arc = case["arc"]
    if case["phase"] == "write":
        filters = case["filters"]
        with py7zr.SevenZipFile(arc, "w", filters=filters, password=case.get("password")) as z:
            for k, (size, texture) in enumerate(case["members"]):
                z.writef(Synthetic(size, texture), f"m{k}")
    else:
        maxbuf = [0]
        orig = C.SevenZipDecompressor.decompress

        def dec(self, fp, max_length=-1):
            r = orig(self, fp, max_length)
            b = len(self._buf) - self._pos
            if b > maxbuf[0]:
                maxbuf[0] = b
            return r

        C.SevenZipDecompressor.decompress = dec
        with py7zr.SevenZipFile(arc, "r", password=case.get("password")) as z:
            if case["phase"] == "extract-path":
                z.extractall(case["out"])
                out["sizes"] = [os.path.getsize(os.path.join(case["out"], f"m{k}")) for k in range(len(case["members"]))]
            elif case["phase"] == "extract-factory":
                class Count(py7zr.io.Py7zIO):
                    def __init__(self):
                        self.n = 0

                    def write(self, s):
                        self.n += len(s)
                        return len(s)

                    def read(self, size=None):
                        return b""

                    def seek(self, offset, whence=0):
                        return 0

                    def flush(self):
                        pass

                    def size(self):
                        return self.n

                class Fac(py7zr.io.WriterFactory):
                    def __init__(self):
                        self.p = {}

                    def create(self, filename):
                        self.p[filename] = Count()
                        return self.p[filename]

                f = Fac()
                z.extractall(factory=f)
                out["sizes"] = [f.p[f"m{k}"].n for k in range(len(case["members"]))]
            else:
                out["testzip"] = z.testzip()
        out["maxbuf_mb"] = round(maxbuf[0] / (1 << 20), 1)
    out["peak_mb"] = round(rss_mb(), 1)
    out["wall"] = round(time.time() - t0, 1)
    print(json.dumps(out))


if __name__ == "__main__":
    main()
