"""C20: write, or extract, large synthetic members in a FRESH process and measure its peak resident memory.

Run as   python -m harness.bigmem '<json case>'   and read one JSON line:
  {"events": [...], "base_kb": .., "peak_kb": .., "wall": .., "error": null | "Type: text", ...}

events (the trace validated by TLC against TraceMem):
  new    {block, limit}                          one SevenZipDecompressor came to life
  call   {m, cur, d, t, res, buf, h, dr, req}    one SevenZipDecompressor.decompress(fp, m): bytes parked before (cur), packed bytes
                                                 read (d), decoder output of the call (t), handed out (res), parked after (buf),
                                                 h: a decoder still held data of earlier input at entry, dr: what draining it gave (-1: not tried)
  wread  {n, block}                              the compressor's largest single read from the member's source
  wret   {held}                                  after a write call returned: members whose content the archive object still references
  rss    {phase, base, peak}                     KiB; peak resident set of the process, base = after importing py7zr
Numbers are saturated at 2^31-1 (TLC's integers).
"""
import io
import json
import os
import random
import resource
import sys
import time

SAT = (1 << 31) - 1


def sat(x):
    return int(x) if x < SAT else SAT


class Synthetic(io.BufferedIOBase):
    """size bytes generated on the fly: 'zeros', 'period' (61-byte period), 'text' (compressible, not trivially) or
    'random' (incompressible, no period)"""

    def __init__(self, size, texture, seed=1):
        self.size, self.pos, self.texture = size, 0, texture
        self.maxread = 0
        self.rnd = random.Random(seed)
        if texture == "period":
            self.block = ((b"0123456789abcdef" * 4)[:61] * 17200)[: 61 * 17189]
        elif texture == "text":
            words = [b"alpha", b"beta", b"gamma", b"delta", b"epsilon", b"zeta", b"eta", b"theta", b"iota", b"kappa"]
            self.block = b" ".join(self.rnd.choice(words) for _ in range(180000))[: 1 << 20]
        else:
            self.block = bytes(1 << 20)

    def readable(self):
        return True

    def seekable(self):
        return True

    def tell(self):
        return self.pos

    def seek(self, off, whence=0):
        self.pos = off if whence == 0 else (self.pos + off if whence == 1 else self.size + off)
        return self.pos

    def read(self, n=-1):
        if n is None or n < 0:
            n = self.size - self.pos
        n = min(n, self.size - self.pos)
        if n <= 0:
            return b""
        self.maxread = max(self.maxread, n)
        if self.texture == "random":
            out = self.rnd.randbytes(n)
        else:
            off = self.pos % len(self.block)
            out = self.block[off:off + n]
            while len(out) < n:
                out += self.block[: n - len(out)]
        self.pos += n
        return out


class HandMadeZstd:
    """a minimal ZStandard encoder (RLE blocks for runs of one byte, raw blocks otherwise) whose frame header DECLARES a window of
    2^window_log bytes: the decoder's history buffer is sized from these two bytes of the archive"""
    window_log = 30

    def __init__(self, level=None):
        self.started = False

    def _block(self, kind, payload, size, last=0):
        hdr = last | (kind << 1) | (size << 3)
        return hdr.to_bytes(3, "little") + payload

    def compress(self, data):
        out = b""
        if not self.started:
            self.started = True
            out += b"\x28\xb5\x2f\xfd" + bytes([0x00, (self.window_log - 10) << 3])      # no checksum, no content size, window descriptor
        view = memoryview(data)
        for off in range(0, len(view), 1 << 17):
            piece = bytes(view[off:off + (1 << 17)])
            if piece.count(piece[:1]) == len(piece):
                out += self._block(1, piece[:1], len(piece))
            else:
                out += self._block(0, piece, len(piece))
        return out

    def flush(self):
        return (b"" if self.started else self.compress(b"")) + self._block(0, b"", 0, last=1)


def rss_kb():
    return resource.getrusage(resource.RUSAGE_SELF).ru_maxrss


def materialise(path, size, texture, seed):
    """a source file on disk for write()/writeall(): zeros are a sparse file, everything else is written in pieces"""
    with open(path, "wb") as f:
        if texture == "zeros":
            f.truncate(size)
            return
        s = Synthetic(size, texture, seed)
        while True:
            b = s.read(1 << 20)
            if not b:
                break
            f.write(b)


def install_probe(C, events):
    D = C.SevenZipDecompressor
    o_init, o_dec, o_inner, o_read = D.__init__, D.decompress, D._decompress, D._read_data

    def __init__(self, *a, **kw):
        o_init(self, *a, **kw)
        import py7zr.properties as P
        events.append({"e": "new", "block": sat(self.block_size), "limit": sat(P.get_memory_limit())})

    def _read_data(self, fp):
        r = o_read(self, fp)
        self._vd = getattr(self, "_vd", 0) + len(r)
        return r

    def _decompress(self, data, max_length, *a, **kw):
        r = o_inner(self, data, max_length, *a, **kw)
        self._vcalls.append((len(data), len(r), int(max_length)))
        return r

    def holding(self):
        # independent of the code's own bookkeeping: does any decoder of the chain say it needs no input?
        try:
            return any(self._unpacked[i] < self._unpacksizes[i] and getattr(c, "needs_input", True) is False
                       for i, c in enumerate(self.chain))
        except Exception:  # noqa
            return False

    def decompress(self, fp, max_length=-1):
        cur = len(self._buf) - self._pos
        self._vd, self._vcalls = 0, []
        h = holding(self)
        res = o_dec(self, fp, max_length)
        if max_length >= 0:
            calls = self._vcalls
            dr = calls[0][1] if (calls and calls[0][0] == 0 and h) else -1
            t = calls[-1][1] if calls else -1
            req = calls[-1][2] if calls else -1          # what the decoders were asked for
            events.append({"e": "call", "m": sat(max_length), "cur": sat(cur), "d": sat(self._vd), "t": sat(t), "res": sat(len(res)),
                           "buf": sat(len(self._buf) - self._pos), "h": bool(h), "dr": sat(dr) if dr >= 0 else -1, "req": sat(req) if req >= 0 else -1})
        return res

    D.__init__, D.decompress, D._decompress, D._read_data = __init__, decompress, _decompress, _read_data


def inflate64_alone(n_mib):
    """the delegated Deflate64 library on its own: deflate, then inflate, n MiB of incompressible data in 1 MiB pieces,
    dropping every result at once.  Reports what stays resident after the objects are gone."""
    import gc
    import inflate64

    def cur_kb():
        return int(open("/proc/self/statm").read().split()[1]) * (os.sysconf("SC_PAGE_SIZE") // 1024)

    rnd = random.Random(7)
    packed = os.path.join("/dev/shm" if os.path.isdir("/dev/shm") else "/tmp", f"i64-{os.getpid()}.raw")
    b0 = cur_kb()
    d = inflate64.Deflater()
    with open(packed, "wb") as f:
        for _ in range(n_mib):
            f.write(d.deflate(rnd.randbytes(1 << 20)))
        f.write(d.flush())
    del d
    gc.collect()
    b1 = cur_kb()
    i = inflate64.Inflater()
    n = 0
    with open(packed, "rb") as f:
        while True:
            b = f.read(1 << 20)
            if not b:
                break
            n += len(i.inflate(b))
    del i
    gc.collect()
    b2 = cur_kb()
    os.unlink(packed)
    print(json.dumps({"n_mib": n_mib, "inflated_mib": n >> 20, "deflater_left_mib": (b1 - b0) // 1024, "inflater_left_mib": (b2 - b1) // 1024}))


def pyppmd_alone(members, order=6, mem=1 << 24):
    """the delegated PPMd library on its own, driven the way a streaming caller drives it: the same synthetic members encoded in
    1 MiB blocks, decoded from 1 MiB input blocks with the output of every call bounded by what the member still needs (<= 128 MB).
    Prints one JSON line; a crash of the library kills this process (the caller sees the exit status)."""
    import pyppmd

    packed = os.path.join("/dev/shm" if os.path.isdir("/dev/shm") else "/tmp", f"ppmd-{os.getpid()}.raw")
    try:
        e = pyppmd.Ppmd7Encoder(order, mem)
        with open(packed, "wb") as f:
            for k, (size, texture) in enumerate(members):
                src = Synthetic(size, texture, seed=1000 + k)
                while True:
                    b = src.read(1 << 20)
                    if not b:
                        break
                    f.write(e.encode(b))
            f.write(e.flush())
        d = pyppmd.Ppmd7Decoder(order, mem)
        verdict = "ok"
        with open(packed, "rb") as f:
            for k, (size, texture) in enumerate(members):
                src = Synthetic(size, texture, seed=1000 + k)
                got, idle = 0, 0
                while got < size and idle < 64:
                    chunk = f.read(1 << 20)
                    if not chunk and d.needs_input:
                        chunk = b"\0"
                    r = d.decode(chunk, min(size - got, 128000000))
                    if r and r != src.read(len(r)):
                        verdict = "different bytes"
                        break
                    got += len(r)
                    idle = 0 if r else idle + 1
                if got < size and verdict == "ok":
                    verdict = "short output"
                if verdict != "ok":
                    break
    except Exception as ex:  # noqa
        verdict = f"raised {ex!r}"
    finally:
        if os.path.exists(packed):
            os.unlink(packed)
    print(json.dumps({"pyppmd_alone": verdict}))


def main():
    if sys.argv[1] == "--inflate64-alone":
        return inflate64_alone(int(sys.argv[2]))
    if sys.argv[1] == "--pyppmd-alone":
        return pyppmd_alone(json.loads(sys.argv[2]))
    case = json.loads(sys.argv[1])
    if case.get("rlimit_data"):
        # a generous, finite data-segment limit (ulimit -d): the chunk size must stay capped at 128 MB whatever the limit says
        resource.setrlimit(resource.RLIMIT_DATA, (int(case["rlimit_data"]), int(case["rlimit_data"])))
    sys.path.insert(0, os.environ.get("VERIF_REPO", "/repo"))
    import py7zr
    import py7zr.compressor as C
    import py7zr.properties as P

    if case.get("limit"):
        lim = int(case["limit"])
        P.get_memory_limit = lambda: lim
        import py7zr.py7zr as M
        M.get_memory_limit = lambda: lim
    base = rss_kb()
    events = []
    out = {"phase": case["phase"], "error": None}
    t0 = time.time()
    arc = case["arc"]
    kw = {}
    if case.get("blocksize"):
        kw["blocksize"] = case["blocksize"]
    if case.get("zstd_window"):
        HandMadeZstd.window_log = int(case["zstd_window"])
        C.algorithm_class_map[P.FILTER_ZSTD] = (HandMadeZstd, C.algorithm_class_map[P.FILTER_ZSTD][1])
    try:
        if case["phase"] == "write" and case.get("pad_header"):
            # an ordinary archive whose ENCODED header is followed, behind its END mark, by pad_header zero bytes (they are part of the
            # packed header stream's declared size; the parser ignores what follows END): small on disk, huge when decoded
            import py7zr.archiveinfo as ai
            from py7zr.helpers import calculate_crc32
            orig_write = ai.Header.write
            pad = int(case["pad_header"])

            def padded_write(self, file, afterheader, encoded=True, encrypted=False):
                if not encoded and isinstance(file, io.BytesIO):
                    start, length, crc = orig_write(self, file, afterheader, False, False)
                    block = bytes(1 << 20)
                    for _ in range(pad >> 20):
                        file.write(block)
                        crc = calculate_crc32(block, crc)
                    return start, length + (pad >> 20 << 20), crc
                return orig_write(self, file, afterheader, encoded, encrypted)

            ai.Header.write = padded_write
            try:
                with py7zr.SevenZipFile(arc, "w", filters=case["filters"]) as z:
                    for k, (size, texture) in enumerate(case["members"]):
                        z.writef(Synthetic(size, texture, seed=k), f"m{k}")
            finally:
                ai.Header.write = orig_write
            events.append({"e": "wread", "n": 0, "block": 0})
            events.append({"e": "wret", "held": 0})
        elif case["phase"] == "write" and case.get("per_session"):
            # one session per member (create, then append): every member gets a folder of its own, and an archive opened by name
            # is then extracted by one worker per folder at the same time
            for k, (size, texture) in enumerate(case["members"]):
                with py7zr.SevenZipFile(arc, "w" if k == 0 else "a", filters=case["filters"], password=case.get("password"), **kw) as z:
                    z.writef(Synthetic(size, texture, seed=case.get("seed", 1) * 1000 + k), f"m{k}")
            events.append({"e": "wread", "n": 0, "block": 0})
            events.append({"e": "wret", "held": 0})
        elif case["phase"] == "write":
            with py7zr.SevenZipFile(arc, "w", filters=case["filters"], password=case.get("password"), **kw) as z:
                if case.get("header_encryption"):
                    z.set_encrypted_header(True)
                block = z._block_size if hasattr(z, "_block_size") else 0
                maxread, held = 0, 0
                for k, (size, texture) in enumerate(case["members"]):
                    how = case.get("how", "writef")
                    if how == "writef":
                        src = Synthetic(size, texture, seed=case.get("seed", 1) * 1000 + k)
                        z.writef(src, f"m{k}")
                        maxread = max(maxread, src.maxread)
                        del src
                    elif how == "writestr":
                        z.writestr(Synthetic(size, texture, seed=k).read(), f"m{k}")
                    else:  # write(path)
                        z.write(os.path.join(case["srcdir"], f"m{k}"), f"m{k}")
                    if k in case.get("linkflag", []):
                        # what a hostile (or merely odd) archive says: this member is a symbolic link, its content the link's target
                        import stat as _st
                        z.header.files_info.files[-1]["attributes"] = (_st.FILE_ATTRIBUTE_ARCHIVE | _st.FILE_ATTRIBUTE_REPARSE_POINT | 0x8000
                                                                       | ((_st.S_IFLNK | 0o777) << 16))
                    held = max(held, sum(1 for fi in z.header.files_info.files if fi.get("data") is not None))
                events.append({"e": "wread", "n": sat(maxread), "block": sat(block)})
                events.append({"e": "wret", "held": held})
        else:
            install_probe(C, events)
            with py7zr.SevenZipFile(arc, "r", password=case.get("password"), **kw) as z:
                if case["phase"] == "extract-path":
                    z.extractall(case["out"])
                    out["sizes"] = [os.path.getsize(os.path.join(case["out"], f"m{k}")) for k in range(len(case["members"]))]
                elif case["phase"] == "extract-factory":
                    class Count(py7zr.io.Py7zIO):
                        def __init__(self):
                            self.n = 0

                        def write(self, s):
                            self.n += len(s)
                            return len(s)

                        def read(self, size=None):
                            return b""

                        def seek(self, offset, whence=0):
                            return 0

                        def flush(self):
                            pass

                        def size(self):
                            return self.n

                    class Fac(py7zr.io.WriterFactory):
                        def __init__(self):
                            self.p = {}

                        def create(self, filename):
                            self.p[filename] = Count()
                            return self.p[filename]

                    f = Fac()
                    z.extractall(factory=f)
                    out["sizes"] = [f.p[f"m{k}"].n if f"m{k}" in f.p else -1 for k in range(len(case["members"]))]
                else:
                    out["testzip"] = z.testzip()
    except BaseException as ex:  # noqa
        out["error"] = f"{type(ex).__name__}: {str(ex)[:200]}"
    peak = rss_kb()
    events.append({"e": "rss", "phase": case["phase"], "base": sat(base), "peak": sat(peak), "tag": case.get("tag", "")})
    out.update(events=events, base_kb=base, peak_kb=peak, wall=round(time.time() - t0, 1))
    print(json.dumps(out))


if __name__ == "__main__":
    main()
