"""C14  A crash while writing never leaves a file that opens with wrong contents.

D  Crash.tla: the archive file as cells (six signature-header fields, data units, packed header, header record); the write
   operations in program order for create and append sessions; crash between or inside any operation, last operation dropped
   or reordered; Accept = the reader's open pipeline; invariants CrashSafe / Honest.  Negative control: an encoded header
   whose decoded bytes no checksum covers (HeaderCrc = FALSE) accepts a foreign packed header in an empty append session.
T  the real seek/write stream of create and append sessions (recording file object) is compared with the specification's
   commit order (data, header, signature header last and field by field).
R  for every recorded session EVERY byte-granular prefix of the write stream (and the dropped / reordered variants) is
   materialised and opened with py7zr in a sandbox: the result must be an error or exactly the old or the new member list
   with the right bytes.
"""
import hashlib
import io
import json
import os

from .. import tlc, sandbox, crash
from ..common import import_py7zr, rng, scratch, MachineryError

LEVEL = "model_checking"

CFG = """SPECIFICATION Spec
CONSTANT IsAppend = %s
CONSTANT NOld = %d
CONSTANT NNew = %d
CONSTANT Encoded = %s
CONSTANT OldEncoded = %s
CONSTANT HeaderCrc = %s
INVARIANT CrashSafe
INVARIANT Honest
CHECK_DEADLOCK FALSE
"""


def member_map(py7zr, raw, password=None):
    o = crash.probe_image((raw, password))
    if o[0] != "ok":
        raise MachineryError(f"complete archive does not open: {o}")
    return o[1]


def sessions(py7zr, R, tier):
    """yield (description, initial bytes, ops, old members, new members, password)"""
    chains = [None, [{"id": 0x33}], [{"id": 0x21, "preset": 1}], [{"id": 0x32}]]
    n = 16 if tier == "quick" else 96
    for i in range(n):
        pw = "pw" if i % 5 == 4 else None
        hdr = [None, "raw", "encrypted" if pw else None][i % 3]
        # ---- create  (member count i % 4, chain (i // 4 + i) % 4: every member count meets every chain, the default one included)
        f = crash.RecordingFile()
        z = py7zr.SevenZipFile(f, "w", filters=chains[(i // 4 + i) % 4] if not pw else None, password=pw)
        if hdr == "raw":
            z.set_encoded_header_mode(False)
        elif hdr == "encrypted":
            z.set_encrypted_header(True)
        for k in range(i % 4):
            z.writestr(bytes(R.getrandbits(8) for _ in range(R.choice([0, 5, 40, 300]))), f"m{k}/é{k}.bin")
        if i % 6 == 5:
            os.makedirs("/dev/shm/verif-c14-dir", exist_ok=True)
            z.write("/dev/shm/verif-c14-dir", "adir")
        z.close()
        created = f.getvalue()
        new = member_map(py7zr, created, pw)
        yield (f"create#{i} hdr={hdr} pw={bool(pw)} members={len(new)}", b"", list(f.ops), None, new, pw)
        # ---- append on top of it (1..2 sessions), incl. the empty append and the directory-only append
        base = created
        for a in range(1 + i % 2):
            f2 = crash.RecordingFile(base)
            z = py7zr.SevenZipFile(f2, "a", filters=chains[(i // 2 + a) % 4] if not pw else None, password=pw)
            if (i + a) % 3 == 1:
                z.set_encoded_header_mode(False)
            kind = (i + a) % 4
            if kind == 0:
                pass                                        # nothing appended
            elif kind == 1:
                os.makedirs("/dev/shm/verif-c14-dir", exist_ok=True)
                z.write("/dev/shm/verif-c14-dir", f"newdir{a}")   # only a directory: no new data
            else:
                for k in range(kind - 1):
                    z.writestr(bytes(R.getrandbits(8) for _ in range(R.choice([1, 30, 200]))), f"app{a}_{k}")
            z.close()
            old = member_map(py7zr, base, pw)
            newm = member_map(py7zr, f2.getvalue(), pw)
            yield (f"append#{i}.{a} kind={kind} pw={bool(pw)}", base, list(f2.ops), old, newm, pw)
            base = f2.getvalue()


def small_sessions(py7zr):
    """one-member archives with the default chain (their encoded header is tiny) and appends of a few incompressible bytes with the
    default chain (the new data starts with an LZMA2 'uncompressed chunk' marker and lands where the old packed header was)"""
    # (members beginning 01 00 - kHeader, kEnd - decode to something that parses as an empty header; b"\x01" + zeros is compressible
    #  and longer than the old header: its LZMA2 stream yields at least the old header's declared size)
    for names, add in ((["a"], [("n", b"new")]), (["a.txt"], [("notes.txt", b"\x01\x00"), ("z", b"\x00")]), (["a.txt", "b.txt"], [("n", b"new")]),
                       (["a"], [("n", b"\x01" + bytes(300))]), (["a.txt", "b.txt"], [("n", b"\x01" + bytes(600)), ("o", b"\x01\x00" * 40)])):
        f = crash.RecordingFile()
        z = py7zr.SevenZipFile(f, "w")
        for nm in names:
            z.writestr(b"content of " + nm.encode(), nm)
        z.close()
        base = f.getvalue()
        f2 = crash.RecordingFile(base)
        z = py7zr.SevenZipFile(f2, "a")
        for nm, data in add:
            z.writestr(data, nm)
        z.close()
        yield (f"append-small#{names}", base, list(f2.ops), member_map(py7zr, base), member_map(py7zr, f2.getvalue()), None)


def overwrite_sessions(py7zr):
    """a create session ('w') on a stream that already holds an archive (a reused buffer, a file the caller opened r+b): from its first
    step on the old signature header must stop vouching for data that is being overwritten (seed C14-7)"""
    for k, (oldn, newn, filt) in enumerate(((["old1.bin", "old2.txt"], ["n1"], None), (["old1.bin"], ["n1", "n2", "n3"], [{"id": 0x33}]),
                                            (["o1", "o2", "o3"], [], None), (["o1", "o2"], ["n1", "n2"], [{"id": 0x33}]))):
        f = crash.RecordingFile()
        z = py7zr.SevenZipFile(f, "w", filters=[{"id": 0x33}] if k % 2 == 0 else None)
        for nm in oldn:
            z.writestr((b"old content of " + nm.encode()) * 9, nm)
        z.close()
        base = f.getvalue()
        f2 = crash.RecordingFile(base)
        z = py7zr.SevenZipFile(f2, "w", filters=filt)
        for nm in newn:
            z.writestr((b"new content of " + nm.encode()) * 7, nm)
        z.close()
        yield (f"create-over#{k} old={len(oldn)} new={len(newn)}", base, list(f2.ops), member_map(py7zr, base), member_map(py7zr, f2.getvalue()), None)


def check_order(desc, initial, ops, rep):
    ops = [(o, d) for (o, d) in ops if d is not None]          # (a final truncate cuts the file behind the end header: no write)
    """T: the write stream follows the commit order of Crash.tla: nothing touches offset < 32 between the first and the final
    signature-header rewrite, and the final rewrite is the last thing that happens, field by field from offset 0."""
    sig_writes = [k for k, (off, d) in enumerate(ops) if off < 32]
    if not sig_writes:
        rep.violation("order:no-signature-header-write", f"{desc}: the session never wrote the signature header", {"ops": [(o, len(d)) for o, d in ops]})
        return
    last_body = max([k for k, (off, d) in enumerate(ops) if off >= 32], default=-1)
    final = [k for k in sig_writes if k > last_body]
    covered = sorted((ops[k][0], ops[k][0] + len(ops[k][1])) for k in final)
    pos = 0
    for a, b in covered:
        if a != pos:
            break
        pos = b
    if pos != 32:
        rep.violation("order:signature-header-not-last", f"{desc}: the bytes 0..32 are not rewritten as the last step (covered up to {pos})",
                      {"ops": [(o, len(d)) for o, d in ops]})
    early = [k for k in sig_writes if k < last_body and initial != b"" and not desc.startswith("create")]
    first_body = min([k for k, (off, d) in enumerate(ops) if off >= 32], default=len(ops))
    lead, at = sorted((ops[k][0], ops[k][0] + len(ops[k][1])) for k in range(first_body)), 0
    for a, b in lead:
        if a > at:
            break
        at = max(at, b)
    if initial != b"" and desc.startswith("create") and at < 32:
        rep.violation("order:create-leaves-old-signature-header", f"{desc}: a create session on a stream that holds an archive does not begin by "
                      "replacing the old signature header", {"ops": [(o, len(d)) for o, d in ops]})
    if early:
        rep.violation("order:append-touches-signature-header-early", f"{desc}: an append session wrote into the signature header before its data",
                      {"ops": [(o, len(d)) for o, d in ops]})


def run(tier, rep, ev):
    py7zr = import_py7zr()
    R = rng("c14")
    for (ap, no, nn, en, oe) in [("FALSE", 0, 2, "TRUE", "FALSE"), ("FALSE", 0, 0, "FALSE", "FALSE"), ("FALSE", 0, 1, "FALSE", "FALSE"),
                                 ("TRUE", 2, 1, "TRUE", "TRUE"), ("TRUE", 1, 0, "TRUE", "TRUE"), ("TRUE", 2, 2, "FALSE", "TRUE"),
                                 ("TRUE", 3, 1, "TRUE", "FALSE"), ("TRUE", 0, 2, "TRUE", "TRUE"), ("TRUE", 2, 0, "FALSE", "FALSE")]:
        # HeaderCrc = TRUE is what the repaired code does: the folder CRC of the encoded header is written (and checked by the reader)
        r = tlc.run("Crash", cfg_text=CFG % (ap, no, nn, en, oe, "TRUE"), workers=4)
        ev.add_tlc(r, f"Crash(append={ap},old={no},new={nn},enc={en},oldenc={oe})")
        if not r.ok:
            rep.note_drift(f"Crash model violates {r.violated} for append={ap} old={no} new={nn} enc={en}")
    # negative control: the tree before the repair stored no CRC of the decoded header - an append without new data rewrites the packed
    # header in place, and a crash right after it leaves the old record describing a packed stream that decodes to another header
    rn = tlc.run("Crash", cfg_text=CFG % ("TRUE", 1, 0, "TRUE", "TRUE", "FALSE"), workers=4)
    ev.cov["negative_control"] = {"cfg": "no CRC on the decoded header (tree before the repair)", "violated": rn.violated or "NOTHING"}
    if rn.ok:
        raise MachineryError("negative control failed: without a header CRC the in-place header rewrite is crash safe in the model")
    total = 0
    step = 1
    import itertools
    for desc, initial, ops, old, new, pw in itertools.chain(sessions(py7zr, R, tier), small_sessions(py7zr), overwrite_sessions(py7zr)):
        check_order(desc, initial, ops, rep)
        cases, labels = [], []
        for label, img in crash.images(initial, ops, step=step):
            cases.append((img, pw))
            labels.append(label)
        outs = sandbox.run_cases(crash.probe_image, cases, timeout=20, nproc=16, slice_size=64)
        nrej = nold = nnew = 0
        for label, (img, _), o in zip(labels, cases, outs):
            total += 1
            ev.case((desc, label), nontrivial=label[0] != "complete")
            if o.status == "hang":
                rep.violation("hang-on-crash-image", f"{desc} {label}: opening the image did not finish", {"session": desc, "crash_point": label, "image": img})
                continue
            if o.status != "ok":
                rep.violation(f"crash-image-{o.status}", f"{desc} {label}: {o.value} {o.detail[-300:]}", {"session": desc, "crash_point": label, "image": img})
                continue
            verdict, val = o.value
            if verdict == "reject":
                nrej += 1
            elif old is not None and val == old:
                nold += 1
            elif val == new:
                nnew += 1
            else:
                what = "the image opens with a member list that is neither the old nor the new one (or with other bytes)"
                rep.violation(f"crash-accepted-wrong:{label[0]}:{desc.split('#')[0]}", f"{desc} crash point {label}: {what}: got {val[:4]}",
                              {"session": desc, "crash_point": label, "image": img, "got": val, "old": old, "new": new})
        # ---- the session that comes after the crash: mode 'a' on what was left, one more member.  It may refuse the image; if it goes
        # ahead, the result holds the old or the new member list plus its own member - never less (a create session had nothing before)
        import hashlib
        mk = (crash.MARKER[0], hashlib.sha1(crash.MARKER[1]).hexdigest())
        sel = [k for k in range(len(cases)) if old is not None or k % 4 == 0]
        outs2 = sandbox.run_cases(crash.probe_append, [cases[k] for k in sel], timeout=20, nproc=16, slice_size=64)
        nrej2 = nkept = 0
        for k, o in zip(sel, outs2):
            total += 1
            label, img = labels[k], cases[k][0]
            ev.case((desc, label, "then-append"))
            if o.status != "ok":
                rep.violation(f"append-after-crash-{o.status}", f"{desc} {label}: {o.value} {o.detail[-300:]}", {"session": desc, "crash_point": label, "image": img})
                continue
            verdict, val = o.value
            if verdict.startswith("reject"):
                nrej2 += 1
                continue
            val = [tuple(x) for x in val]
            allowed = [[tuple(x) for x in new] + [mk]]
            if old is not None:
                allowed.append([tuple(x) for x in old] + [mk])
            else:
                allowed.append([mk])
            if val in allowed:
                nkept += 1
            else:
                rep.violation(f"append-after-crash-loses-members:{label[0]}:{desc.split('#')[0]}",
                              f"{desc} crash point {label}: an append session on the image left {val[:4]}, neither the old nor the new members plus its own",
                              {"session": desc, "crash_point": label, "image": img, "got": val, "old": old, "new": new})
        ev.sample({"session": desc, "operations": [(o, len(d) if d is not None else -1) for o, d in ops][:14], "crash_points": len(cases),
                   "outcomes": {"reject": nrej, "old": nold, "new": nnew}, "then_append": {"refused": nrej2, "kept": nkept}}, cap=6)
    ev.traces(0)
    ev.cov["traces_validated_against_impl"] = total
    ev.cov["exhaustive"] = True
    ev.cov["rule"] = ("every byte-granular prefix of the recorded write stream of every session (create; append incl. empty and directory-only "
                      "appends; raw/encoded/encrypted header; several chains) plus last-operation-reordered variants; distinct = (session, crash point)")
    ev.assumptions += ["CRC32 mismatches are detected (no adversarial collisions)", "the recorded stream mode write order equals the path mode order (same code)"]


def replay(path, rep, ev):
    from ..common import unhex

    r = unhex(json.load(open(path))["replay"])
    print(r.get("session"), r.get("crash_point"))
    if "image" in r:
        print(sandbox.run_one(crash.probe_image, (r["image"], "pw" if "pw=True" in r.get("session", "") else None)).value)
