"""C03  Extraction never writes outside the destination directory.

D  ExtractFS.tla: a file system with symbolic links and _extract/_extract_single transcribed step by step (lexical
   sanitising, directory phase, member phase with mkdir-parents / open / touch / unlink+symlink, utime+chmod post pass);
   invariants NoEscape / OutsideUntouched over every archive of 1..2 entries of the full alphabet and 3 entries of a
   reduced alphabet, destination absolute or None.  Negative control: Guarded = FALSE (the tree before the repair) escapes.
R/T every archive of the same alphabets (sampled in quick) plus random longer ones is written by the reference writer and
   extracted by the real code in a sandboxed child inside a scratch root, by path and by stream, destination absolute /
   relative / None; an interpreter audit hook records every mutation with the location it resolves to at that moment, and a
   before/after snapshot covers everything around the jail.  TLC (TraceExtractFS) runs the specification on the same archive,
   requires every observed effect to lie inside the destination and reports differences to the model as drift.
"""
import itertools
import json
import os
import shutil

from .. import tlc, sandbox, fsjail
from ..common import rng, scratch, MachineryError
from .C15 import validate

LEVEL = "model_checking"

NAMES_FULL = [["a"], ["b"], ["a", "c"], ["b", "a"], ["b", "a", "c"], ["b", "a", "c", "e"], ["..", "x"], ["a", "..", "..", "x"], ["/", "a"],
              ["/", "O", "x"], ["J", "a"], [".", "a"], ["a", "..", "b"]]
TARGETS = [["."], [".."], ["..", ".."], ["a"], ["a", ".."], ["/", "J", "a"], ["/", "O"], ["c"], ["..", "Jx"]]
NAMES_RED = [["b", "a"], ["b", "a", "c"], ["b", "a", "c", "e"], ["a"], ["a", "c"]]


def entries_of(names, targets):
    out = []
    for n in names:
        out.append({"name": n, "kind": "file", "tgt": []})
        out.append({"name": n, "kind": "dir", "tgt": []})
        for t in targets:
            out.append({"name": n, "kind": "link", "tgt": t})
    return out


def chain_archives(R, n):
    """archives grown from link chains: later names run through earlier links, links are re-pointed through aliases, files are
    written after a parent directory has already been used.  A tiny resolver tracks what each name denotes."""
    outs = []
    tg = [[".."], ["."], ["..", ".."], ["..", "Jx"], ["..", "O"], ["a"], ["b"], ["b", ".."]]
    for _ in range(n):
        ents, links, dirs = [], [], [["a"], ["b"]]
        for _ in range(R.randrange(3, 7)):
            r = R.random()
            base = R.choice(links + dirs) if (links or dirs) and r < 0.8 else []
            comp = R.choice(["a", "b", "c", "up", "x"])
            name = list(base) + [comp]
            if len(name) > 5:
                name = name[-5:]
            k = R.random()
            if k < 0.55:
                tgt = R.choice(tg)
                if links and R.random() < 0.15:
                    tgt = list(R.choice(links)) + R.choice([["O", "keep"], ["O", "new"], ["Jx", "n"], []])     # through an earlier link, by name
                ents.append({"name": name, "kind": "link", "tgt": tgt})
                links.append(name)
            elif k < 0.9:
                if links and R.random() < 0.3:
                    # the same output name as an earlier link, spelled differently
                    ln = R.choice(links)
                    name = R.choice([["."] + list(ln), list(ln[:-1]) + ["x", "..", ln[-1]], list(ln)])
                ents.append({"name": name, "kind": R.choice(["file", "file", "empty", "link"]), "tgt": []})      # (a link without target: empty stream)
                dirs.append(name[:-1] or ["a"])
            else:
                ents.append({"name": name, "kind": "dir", "tgt": []})
                dirs.append(name)
            # hostile attribute words (kind derivation must not open a way around the checks)
            if R.random() < 0.35:
                ents[-1]["attrv"] = R.choice({"link": ["noreparse", "reparse-only"], "file": ["reparse", "nounix", "readonly", "fifo", "reparse-nounix"],
                                              "empty": ["reparse", "nounix"], "dir": ["nounix", "unixonly", "reparse"]}[ents[-1]["kind"]])
        outs.append(ents)
    return outs


MC_CFG = """SPECIFICATION Spec
CONSTANT Archives <- %s
CONSTANT Dests = {"abs", "none"}
CONSTANT Guarded = %s
CONSTANT Fuel = 6
INVARIANT NoEscape
INVARIANT OutsideUntouched
CHECK_DEADLOCK FALSE
"""


def execute(case):
    try:
        return fsjail.run_extraction(case)
    finally:
        shutil.rmtree(case["root"], ignore_errors=True)


def classify(tr, l):
    o = tr[1] if len(tr) > 1 else {}
    esc = [p for p in o.get("effects", []) if not (p and p[0] == "J")]
    kinds = sorted({e["kind"] + ("->" + "/".join(e["tgt"]) if e["kind"] == "link" else "") for e in tr[0]["entries"]})
    return f"escape:dest={tr[0]['dest']}:{len(tr[0]['entries'])}-entries:" + ",".join(kinds)[:80], {"escaped_to": esc[:5], "entries": tr[0]["entries"]}


def run(tier, rep, ev):
    R = rng("c03")
    # ---- D
    arch_set = "Len3Red" if tier == "quick" else "QuickArchives"
    r = tlc.run("ExtractFSMC", cfg_text=MC_CFG % (arch_set, "TRUE"), workers=16, timeout=1800, heap="8g")
    ev.add_tlc(r, f"ExtractFSMC({arch_set}, Guarded)")
    if not r.ok:
        rep.note_drift(f"I-level model of the repaired tree violates {r.violated}; replay decides")
    rn = tlc.run("ExtractFSMC", cfg_text=MC_CFG % ("NegArchives", "FALSE"), workers=4, timeout=900)
    ev.cov["negative_control"] = {"cfg": "Guarded = FALSE", "violated": rn.violated or "NOTHING"}
    if rn.ok:
        raise MachineryError("negative control failed: the unguarded extraction model never escapes")
    # ---- R/T
    full = entries_of(NAMES_FULL, TARGETS)
    red = [e for e in entries_of(NAMES_RED, [["."], [".."], ["..", ".."], ["..", "Jx"]]) if e["kind"] != "dir"]
    archives = [[e] for e in full]
    l2 = [[a, b] for a in full for b in full]
    l3 = [[a, b, c] for a in red for b in red for c in red]
    if tier == "quick":
        archives += R.sample(l2, 1500) + R.sample(l3, 1500)
    else:
        archives += l2 + l3
    # known shapes (always): chained links, cwd '..' through a link, duplicate name replacing a directory by a link
    archives += [
        [{"name": ["b", "l"], "kind": "link", "tgt": [".."]}, {"name": ["b", "l", "m"], "kind": "link", "tgt": [".."]},
         {"name": ["b", "l", "m", "evil"], "kind": "file", "tgt": []}],
        [{"name": ["a"], "kind": "link", "tgt": ["."]}, {"name": ["a", "..", "b"], "kind": "link", "tgt": ["a"]}],
        [{"name": ["a"], "kind": "link", "tgt": ["."]}, {"name": ["a", "..", "evil"], "kind": "file", "tgt": []}],
        [{"name": ["d"], "kind": "file", "tgt": []}, {"name": ["x", "..", "d"], "kind": "link", "tgt": [".."]}, {"name": ["d", "..", "z"], "kind": "file", "tgt": []}],
        [{"name": ["d"], "kind": "dir", "tgt": []}, {"name": ["d", "l"], "kind": "link", "tgt": ["..", ".."]}, {"name": ["d", "l", "O", "keep"], "kind": "file", "tgt": []}],
    ]
    L = lambda n, t: {"name": n, "kind": "link", "tgt": t}      # noqa: E731
    F = lambda n: {"name": n, "kind": "file", "tgt": []}          # noqa: E731
    archives += [
        # the destination's sibling with a common name prefix
        [L(["d", "l1"], [".."]), L(["d", "l1", "l2"], ["..", "Jx"]), F(["l2", "x"])],
        [L(["b", "a"], [".."]), L(["b", "a", "c"], ["..", "Jx"]), F(["b", "a", "c", "e"])],
        # an existing link re-pointed through an alias of its directory, after its parent had been used (and checked) before
        [L(["b", "up"], [".."]), L(["a"], ["b"]), F(["a", "x1"]), L(["b", "up", "a"], ["..", "O"]), F(["a", "x2"])],
        [L(["b", "up"], [".."]), L(["a"], ["b"]), F(["a", "x1"]), L(["b", "up", "a"], ["..", "Jx"]), F(["a", "x2"])],
        [L(["b", "up"], ["."]), L(["a"], ["b"]), {"name": ["a", "d"], "kind": "dir", "tgt": []}, L(["b", "up", "up", "a"], [".."]), F(["a", "d", "x2"])],
    ]
    for av in ("reparse", "reparse-nounix", "fifo", None):
        for alias in ([".", "f"], ["f"], ["x", "..", "f"]):
            for tail in (["O", "keep"], ["O", "new"]):
                archives.append([L(["x"], ["."]), L(["x", "up"], [".."]), L(["f"], ["x", "up"] + tail), dict(F(alias), **({"attrv": av} if av else {}))])
                archives.append([L(["x"], ["."]), L(["x", "up"], [".."]), F(["f"]), L(["a", "..", "f"], ["x", "up"] + tail), dict(F(["g"]), **({"attrv": av} if av else {}))])
    # a link member WITHOUT a target (empty stream) at a name where an earlier member left a link: created like an empty file
    for alias in ([".", "b"], ["b"], ["x", "..", "b"]):
        for tail in (["victim"], ["O", "keep"], ["Jx", "n"]):
            archives.append([L(["a"], ["."]), L(["b"], ["a", ".."] + tail), {"name": alias, "kind": "link", "tgt": []}])
            archives.append([L(["a"], ["."]), L(["b"], ["a", ".."] + tail), {"name": alias, "kind": "empty", "tgt": []}])
    archives += chain_archives(R, 1500 if tier == "quick" else 30000)
    # random longer archives
    comps = ["a", "b", "c", "..", ".", "J"]
    for _ in range(300 if tier == "quick" else 6000):
        n = R.randrange(3, 6)
        arc = []
        for _ in range(n):
            name = [R.choice(comps) for _ in range(R.randrange(1, 5))]
            if R.random() < 0.1:
                name = ["/"] + name
            kind = R.choice(["file", "dir", "link", "link", "empty"])
            arc.append({"name": name, "kind": kind, "tgt": R.choice(TARGETS + [name[:1]]) if kind == "link" else []})
        archives.append(arc)
    base = scratch("c03w")
    cases = []
    for k, arc in enumerate(archives):
        dest = ["abs", "none", "rel"][k % 3]
        cases.append({"entries": arc, "dest": dest, "via": "path" if k % 2 else "stream", "root": os.path.join(base, f"r{k}"),
                      "prepopulate": ["a/old.txt"] if k % 11 == 0 and not any(e["name"] == ["a"] for e in arc) else []})
    # names that are lexically inside but walk through an outside directory on the way ('../a/../J/x' with J the destination's own
    # name): every destination mode, by path and by stream
    D = lambda n: {"name": n, "kind": "dir", "tgt": []}          # noqa: E731
    for arc in ([D(["..", "a", "..", "J"])], [F(["..", "a", "..", "J", "f"])], [D([".", "a"]), D(["..", "a", "..", "J"])],
                [F(["b", "..", "..", "new", "..", "J", "c", "f"])], [L(["..", "q", "..", "J", "l"], ["."]), F(["l", "g"])],
                [D(["..", "Jx", "..", "J", "d"]), F(["..", "O", "..", "J", "d", "f"])]):
        for dest in ("abs", "none", "rel"):
            for via in ("path", "stream"):
                cases.append({"entries": arc, "dest": dest, "via": via, "root": os.path.join(base, f"r{len(cases)}"), "prepopulate": []})
    # the parallel path (one worker per folder): a member of one folder, checked and then held, while a worker of another folder
    # creates the links that lead its directory outside - check and use must not be separated by another worker's link
    for arc, split, watch in (([F(["e", "f"]), L(["d", "x"], [".."]), L(["e"], ["d", "x", ".."])], 1, ["e"]),
                              ([F(["e", "g", "f"]), L(["d", "x"], [".."]), L(["e"], ["d", "x", "..", "O"])], 1, ["e", "g"]),
                              ([L(["d", "x"], [".."]), L(["e"], ["d", "x", ".."]), F(["e", "f"])], 2, ["e"])):
        for dest in ("abs", "rel"):
            cases.append({"entries": arc, "dest": dest, "via": "path", "split": split, "race": watch, "root": os.path.join(base, f"r{len(cases)}"), "prepopulate": []})
    # two extractions into one destination: the first leaves links (each lexically inside), the second brings directories and files
    # whose names run through them
    firsts = [[L(["a"], ["."]), L(["b"], ["a", ".."])], [L(["a"], ["."]), L(["b"], ["a", "..", "O"])], [L(["d"], [".."]) if False else L(["a"], ["."]), L(["a", "up"], [".."])],
              [L(["b", "l"], [".."]), L(["b", "l", "m"], [".."])]]
    seconds = [[D(["b", "d"]), F(["b", "d", "f"])], [F(["b", "new.txt"])], [D(["a", "up", "dd"])], [F(["a", "up", "ff"])], [D(["b", "l", "m", "x"]), F(["b", "l", "m", "x", "y"])],
               [{"name": ["b", "e"], "kind": "empty", "tgt": []}]]
    for a1 in firsts:
        for a2 in seconds:
            for dest in ("abs", "none"):
                cases.append({"entries": a1, "then": a2, "dest": dest, "via": "stream", "root": os.path.join(base, f"r{len(cases)}"), "prepopulate": []})
    outs = sandbox.run_cases(execute, cases, timeout=30, nproc=16)
    traces, origins = [], []
    for c, o in zip(cases, outs):
        key = json.dumps([c["entries"], c.get("then"), c["dest"], c["via"]])
        ev.case(key, nontrivial=any(e["kind"] == "link" or ".." in e["name"] or "/" in e["name"][:1] for e in c["entries"]))
        if o.status == "ok":
            # 'rel' is lexically the same as 'abs' for the model; empty files behave like files
            ents = [dict(e, kind="file" if e["kind"] == "empty" else e["kind"]) for e in c["entries"]]
            traces.append([{"e": "arch", "entries": ents, "dest": "none" if c["dest"] == "none" else "abs"}, o.value])
            origins.append({k2: v for k2, v in c.items() if k2 != "root"})
        elif o.status == "hang":
            rep.violation("hang-in-extraction", f"extraction did not finish: {o.detail[:400]}", {"case": {k2: v for k2, v in c.items() if k2 != 'root'}})
        else:
            raise MachineryError(f"jail harness failed: {o.status} {o.value} {o.detail[-600:]}")
    ev.sample({"archive": archives[len(full) + 5], "observed": traces[len(full) + 5][1]})
    acc_before = len(rep.violations)
    validate("C03", traces, rep, ev, spec="TraceExtractFS", cfg="TraceExtractFS.cfg", classify_fn=classify, origins=origins, batch=2500)
    ev.cov["exhaustive"] = tier != "quick"
    ev.cov["rule"] = ("archives: every 1-entry archive of the full alphabet (13 names x file/dir/8 link targets); 2-entry and reduced 3-entry archives "
                      + ("sampled 1500 each" if tier == "quick" else "all") + "; hand-written chained-link shapes; random 3-5 entry archives; "
                      "x destination abs/None/relative x by path/by stream; non-trivial = has a link, '..' or absolute name")
    ev.assumptions += ["audit events open/os.mkdir/os.symlink/os.chmod/os.utime/os.remove/os.rename/os.truncate/os.rmdir/os.link are the "
                       "mutating operations py7zr uses; the snapshot of everything around the jail is an independent second observer"]
    shutil.rmtree(base, ignore_errors=True)


def replay(path, rep, ev):
    from ..common import unhex

    r = unhex(json.load(open(path))["replay"])
    case = r.get("origin") or r.get("case")
    case["root"] = os.path.join(scratch("rp"), "r")
    o = sandbox.run_one(execute, case, timeout=60)
    print(json.dumps(case["entries"]), case["dest"])
    print(o.status, json.dumps(o.value, indent=1) if o.status == "ok" else (o.value, o.detail))
