"""shared by the read-side drivers C09, C10, C12"""
import json
import os
import shutil

from .. import rsession, sandbox
from ..common import import_py7zr

A1 = {"members": [{"kind": "dir", "folder": 0, "pos": 0, "parent": 0}, {"kind": "file", "folder": 1, "pos": 1, "parent": 1},
                  {"kind": "empty", "folder": 0, "pos": 0, "parent": 1}, {"kind": "file", "folder": 1, "pos": 2, "parent": 0},
                  {"kind": "file", "folder": 1, "pos": 3, "parent": 0}], "nfolders": 1}
A2 = {"members": [{"kind": "file", "folder": 1, "pos": 1, "parent": 0}, {"kind": "dir", "folder": 0, "pos": 0, "parent": 0},
                  {"kind": "file", "folder": 1, "pos": 2, "parent": 2}, {"kind": "file", "folder": 2, "pos": 1, "parent": 0},
                  {"kind": "empty", "folder": 0, "pos": 0, "parent": 2}, {"kind": "file", "folder": 2, "pos": 2, "parent": 2}], "nfolders": 2}


def random_shape(R, nmax=7):
    n = R.randrange(1, nmax + 1)
    members, folder, pos, nf = [], 0, 0, 0
    dirs = []
    for i in range(n):
        kind = R.choice(["file", "file", "file", "dir", "empty"])
        parent = R.choice([0] + dirs) if dirs else 0
        if kind == "file":
            if folder == 0 or R.random() < 0.4:
                nf += 1
                folder, pos = nf, 0
            pos += 1
            members.append({"kind": "file", "folder": folder, "pos": pos, "parent": parent})
        else:
            members.append({"kind": kind, "folder": 0, "pos": 0, "parent": parent})
            if kind == "dir":
                dirs.append(i + 1)
    return {"members": members, "nfolders": nf}


def norm_shape(a):
    """shape as TLC prints it -> python dict (members list of dicts)"""
    return {"members": [dict(kind=m["kind"], folder=m["folder"], pos=m["pos"], parent=m["parent"]) for m in a["members"]], "nfolders": a["nfolders"]}


def execute(case):
    if case.get("writer") == "py7zr":
        # an archive written by py7zr itself (zero-length files are stored as zero-length STREAMS of their folder)
        from .C10 import execute_py7zr_written
        c = dict(case)
        c.setdefault("filters", [{"id": 0x21, "preset": 1}])
        c.setdefault("methods", [])
        return execute_py7zr_written(c)
    py7zr = import_py7zr()
    wd = case["wd"]
    os.makedirs(wd, exist_ok=True)
    try:
        raw, info = rsession.build(case["shape"], seed=case.get("seed", 0), password=case.get("password"), coder=case.get("coder", "lzma2"),
                                   header=case.get("header", "lzma"), packcrc=case.get("packcrc", False), damaged=case.get("damaged", ()),
                                   partialcrc=case.get("partialcrc", False), mixedtimes=case.get("mixedtimes", False))
        return rsession.run_calls(py7zr, raw, case["shape"], info, case["calls"], target=case.get("target", "stream"),
                                  password=case.get("password"), ending=case.get("ending", "close"), workdir=wd, damaged=case.get("damaged", ()))
    finally:
        shutil.rmtree(wd, ignore_errors=True)


def classify(tr, l):
    e = tr[l - 1] if 0 < l <= len(tr) else {}
    key = "trace-rejected:" + e.get("e", "?")
    if e.get("e") == "call":
        key += ":" + e.get("name", "?")
        if not e.get("ok", True):
            key += ":raised:" + e.get("exc", "").split(":")[0]
        elif e.get("bad"):
            key += ":wrong-bytes"
        elif e.get("extra"):
            key += ":extra-output"
        elif e.get("name") in ("extract", "extractall"):
            key += ":wrong-member-set"
        elif e.get("name") in ("test", "testzip"):
            key += ":verdict=" + str(e.get("verdict"))[:20]
    return key, e


def run_and_validate(prop, cases, rep, ev, validate, timeout=60):
    outs = sandbox.run_cases(execute, cases, timeout=timeout, nproc=16)
    traces, origins = [], []
    for c, o in zip(cases, outs):
        desc = {k: v for k, v in c.items() if k != "wd"}
        ev.case(json.dumps(desc, default=str, sort_keys=True))
        if o.status == "ok":
            traces.append(o.value)
            origins.append(desc)
        elif o.status == "hang":
            rep.violation("hang:" + "+".join(x["name"] for x in c["calls"])[:80], f"read session did not finish: {o.detail[:500]}", {"case": desc})
        elif o.status == "crash":
            rep.violation("interpreter-crash", f"read session killed the interpreter: {o.detail[:300]}", {"case": desc})
        else:
            rep.violation("session-raised:" + str(o.value[0] if isinstance(o.value, tuple) else o.value)[:60],
                          f"opening/closing the archive raised {o.value}: {o.detail[-500:]}", {"case": desc})
    if traces:
        ev.sample({"trace": [{k: v for k, v in e.items() if v not in ([], "", 0, False)} for e in traces[len(traces) // 2]][:6]})
    validate(prop, traces, rep, ev, spec="TraceReadSession", cfg="TraceReadSession.cfg", classify_fn=classify, origins=origins, batch=4000)
    return traces


def replay_case(path):
    from ..common import unhex, scratch

    r = unhex(json.load(open(path))["replay"])
    case = r.get("origin") or r.get("case")
    if case:
        case["wd"] = scratch("rp")
        o = sandbox.run_one(execute, case, timeout=120)
        print(o.status)
        print(json.dumps(o.value, indent=0, default=str)[:5000] if o.status == "ok" else (o.value, o.detail))
    else:
        print(json.dumps(r, indent=1)[:3000])
