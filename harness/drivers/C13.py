"""C13  Extraction results do not depend on scheduling; worker errors reach the caller.

D  Parallel.tla (Main / Worker f / Reporter as interleaved actions; modes seq, thread, process): invariants Deterministic and
   ErrorReachesCaller under every interleaving, liveness Terminates; negative control: a process-mode child whose exception
   queue does not reach the parent (the tree before the repair) violates ErrorReachesCaller.
R  every order of the workers' output writes that TLC enumerates (GenParallel) is FORCED on the real thread-parallel path by
   gates in the WriterFactory products; one folder damaged at each position; two independent SevenZipFile objects on one path
   interleaved the same way; the sequential path (stream) and the process-parallel option (to a directory, OS scheduling,
   repeated) with damage at each position.
T  TraceParallel: outputs identical to the sequential result, nothing delivered with different bytes, error raised iff a
   folder is damaged.
"""
import itertools
import json
import os
import shutil

from .. import tlc, sandbox, sched
from ..common import rng, scratch, MachineryError
from .C15 import validate

LEVEL = "model_checking"

MC = """SPECIFICATION Spec
CONSTANT NF = %d
CONSTANT Sizes <- %s
CONSTANT Damaged = %s
CONSTANT Mode = "%s"
CONSTANT ChildSeesQueues = %s
CONSTANT JoinWaits = TRUE
CONSTANT WithCallback = %s
INVARIANT Deterministic
INVARIANT ErrorReachesCaller
INVARIANT Ordered
INVARIANT Complete
INVARIANT NoneAfterClose
INVARIANT CloseNeverFails
PROPERTY Terminates
CHECK_DEADLOCK FALSE
"""
GEN = """SPECIFICATION GSpec
CONSTANT NF = %d
CONSTANT Sizes <- %s
CONSTANT Damaged = {}
CONSTANT Mode = "thread"
CONSTANT ChildSeesQueues = TRUE
CONSTANT JoinWaits = TRUE
CONSTANT WithCallback = FALSE
CONSTRAINT Emit
CHECK_DEADLOCK FALSE
"""
SHAPES = {"S22": [[1, 2], [3, 1]], "S212": [[2, 1], [1], [1, 3]], "S222": [[1, 2], [1, 1], [2, 1]], "S33": [[1, 2, 1], [2, 1, 1]],
          "S333": [[1, 2, 1], [2, 1, 1], [1, 1, 1]], "S1111": [[1], [2], [1], [2]]}


def execute(case):
    try:
        return sched.run_case(case)
    finally:
        shutil.rmtree(case["wd"], ignore_errors=True)


def classify(tr, l):
    e = tr[l - 1] if 0 < l <= len(tr) else {}
    a = tr[0]
    key = f"trace-rejected:{e.get('e')}:{a.get('mode')}"
    if e.get("e") == "result":
        if e.get("bad"):
            key += ":wrong-bytes"
        elif (a.get("damaged") or a.get("failsink")) and not e.get("raised"):
            key += ":worker-error-lost"
        elif e.get("raised") and not (a.get("damaged") or a.get("failsink")):
            key += ":spurious-error:" + e.get("exc", "").split(":")[0]
        else:
            key += ":outputs-differ-from-sequential"
    if e.get("e") == "cb":
        key += ":" + str(e.get("k"))
    return key, e


def schedules(name, ev):
    g = tlc.run("GenParallel", cfg_text=GEN % (len(SHAPES[name]), name), workers=1, timeout=900)
    ev.add_tlc(g, f"GenParallel({name})")
    if not g.ok:
        raise MachineryError(f"GenParallel({name}): {g.violated}")
    out = sorted({tuple(json.loads(b) if isinstance(b, str) else b) for b in g.prints.get("BEH", [])})
    return [list(x) for x in out]


def run(tier, rep, ev):
    R = rng("c13")
    for (nf, sz, dmg, mode, child) in [(3, "S212", "{}", "thread", "TRUE"), (3, "S212", "{2}", "thread", "TRUE"), (2, "S22", "{1}", "seq", "TRUE"),
                                      (2, "S22", "{2}", "process", "TRUE"), (3, "S222", "{1, 3}", "thread", "TRUE")]:
        r = tlc.run("ParallelMC", cfg_text=MC % (nf, sz, dmg, mode, child, "FALSE"), workers=8)
        ev.add_tlc(r, f"ParallelMC({sz},{dmg},{mode})")
        if not r.ok:
            rep.note_drift(f"Parallel model violates {r.violated} for {sz} {dmg} {mode}")
    # the error met at the LAST member of a folder (unwritable output), earlier members delivered
    for (nf, sz, dmg, mode) in [(3, "S212", "{1}", "thread"), (2, "S22", "{2}", "process"), (2, "S22", "{1}", "seq"), (3, "S222", "{1, 3}", "thread")]:
        r = tlc.run("ParallelMC", cfg_text=MC % (nf, sz, dmg, mode, "TRUE", "FALSE") + "CONSTANT FailLast <- FailLastOn\n", workers=8)
        ev.add_tlc(r, f"ParallelMC({sz},{dmg},{mode},fail at last member)")
        if not r.ok:
            rep.note_drift(f"Parallel model violates {r.violated} for {sz} {dmg} {mode} with FailLast")
    rn = tlc.run("ParallelMC", cfg_text=MC % (2, "S22", "{2}", "process", "FALSE", "FALSE"), workers=4)
    ev.cov["negative_control"] = {"cfg": "process mode, child queues invisible to the parent", "violated": rn.violated or "NOTHING"}
    if rn.ok:
        raise MachineryError("negative control failed: lost worker exceptions do not violate ErrorReachesCaller")
    base = scratch("c13w")
    cases = []

    def add(**kw):
        kw["wd"] = os.path.join(base, f"c{len(cases)}")
        cases.append(kw)

    shapes = ["S22", "S212", "S222"] if tier == "quick" else ["S22", "S212", "S222", "S33", "S1111", "S333"]
    nsched = 0
    for name in shapes:
        sch = schedules(name, ev)
        nsched += len(sch)
        if tier == "quick" and len(sch) > 60:
            sch = R.sample(sch, 60)
        sizes = SHAPES[name]
        for k, s in enumerate(sch):
            add(sizes=sizes, mode="thread", schedule=s, sink="factory", seed=k % 5, coder=["lzma2", "bzip2", "copy"][k % 3])
        # one folder damaged at each position, a few schedules each
        for f in range(1, len(sizes) + 1):
            for s in R.sample(sch, min(len(sch), 4 if tier == "quick" else 20)):
                add(sizes=sizes, mode="thread", schedule=s, damaged=[f], sink="factory", seed=f)
            add(sizes=sizes, mode="seq", damaged=[f], sink="factory", seed=f)
            for rep_i in range(3 if tier == "quick" else 25):
                add(sizes=sizes, mode="process", damaged=[f], sink="path", seed=f + rep_i)
        add(sizes=sizes, mode="seq", sink="factory", seed=1)
        for rep_i in range(3 if tier == "quick" else 25):
            add(sizes=sizes, mode="process", sink="path", seed=rep_i)
        # several reads of packed data per folder (small I/O block) and a turn at EVERY write: the workers' reads interleave
        for k, s in enumerate(R.sample(sch, min(len(sch), 12 if tier == "quick" else 200))):
            fine = [f for f in s for _ in range(3)]
            add(sizes=sizes, mode="thread", schedule=fine if k % 2 else s, sink="factory", seed=k % 5, coder=["copy", "lzma2", "bzip2"][k % 3],
                block=[64, 100, 257][k % 3], limit=[64, 300, 1000][(k // 3) % 3], fine=True)
        # a selection confined to ONE folder (the others are skipped), that folder damaged: the error must still reach the caller
        for f in range(1, len(sizes) + 1):
            inside = [f"f{f}/m{i}-ü.bin" for i in range(1, len(sizes[f - 1]) + 1)]
            other = f % len(sizes) + 1
            # (selections ending with the folder's last member: the whole folder is decoded, the damage is met for certain)
            for tg in ([inside, inside[-1:], inside + [f"f{other}/m1-ü.bin"]] if tier != "quick" else [inside, inside[-1:]]):
                for mode, sink in (("thread", "factory"), ("thread", "path"), ("process", "path"), ("seq", "factory")):
                    add(sizes=sizes, mode=mode, sink=sink, damaged=[f], targets=tg, seed=f, schedule=[])
        # damage that only the member CRC can notice (incompressible content: the flipped byte sits in a stored chunk), every mode and coder
        for f in range(1, len(sizes) + 1):
            for mode, sink in (("process", "path"), ("thread", "path"), ("thread", "factory"), ("seq", "factory")):
                add(sizes=sizes, mode=mode, sink=sink, damaged=[f], seed=f, schedule=[], incompressible=True, coder=["lzma2", "deflate", "bzip2", "copy"][(f + len(cases)) % 4])
        # "unwritable output": the last member of one folder cannot be written (product raising ENOSPC / a directory in the file's place)
        for f in range(1, len(sizes) + 1):
            for s in R.sample(sch, min(len(sch), 3 if tier == "quick" else 20)):
                add(sizes=sizes, mode="thread", schedule=s, failsink=[f], sink="factory", seed=f)
            for mode, sink in (("thread", "path"), ("process", "path"), ("seq", "factory"), ("seq", "path")):
                add(sizes=sizes, mode=mode, sink=sink, failsink=[f], seed=f, schedule=[])
        # the process-parallel option delivering to a WriterFactory; the archive opened by a relative name, the caller changing directory
        for k in range(2 if tier == "quick" else 10):
            add(sizes=sizes, mode="process", sink="factory", schedule=[], seed=k, coder=["lzma2", "copy"][k % 2])
        for mode, sink in (("thread", "path"), ("thread", "factory"), ("process", "path")):
            add(sizes=sizes, mode=mode, sink=sink, schedule=[], seed=2, relname=True)
        # a worker process that dies while writing (killed, not raising): the caller must not be told that all went well
        for f in range(1, len(sizes) + 1):
            add(sizes=sizes, mode="process", sink="path", suicide=[f], seed=f, schedule=[])
        # members of different folders under one directory without an entry of its own: the workers meet while creating it
        for k in range(2 if tier == "quick" else 12):
            add(sizes=sizes, mode="thread", sink="path", schedule=[], seed=k, shared_parent=True, mkdir_rendezvous=True, coder=["lzma2", "copy"][k % 2])
        add(sizes=sizes, mode="process", sink="path", schedule=[], seed=1, shared_parent=True)
        # workers meeting at the entry of Worker._check: every folder has a passed-over member in front of its selected last one, so each
        # worker thread holds pending discards when it gets there (state kept per extraction must be per folder; seed C13-7)
        multi = [f for f in range(1, len(sizes) + 1) if len(sizes[f - 1]) >= 2]
        if len(multi) >= 2:
            tg = [f"f{f}/m{len(sizes[f - 1])}-ü.bin" for f in multi]
            for k, sink in enumerate(("factory", "path", "factory")):
                add(sizes=sizes, mode="thread", sink=sink, schedule=[], targets=tg, seed=k, rendezvous=["_check"], rendezvous_parties=len(multi),
                    coder=["lzma2", "copy", "bzip2"][k])
        # members of different folders in one directory whose names differ in the last suffix only, the workers meeting before any
        # of them has written: whatever scratch name a worker uses on the way must be its own (seed C13-9)
        for k in range(2 if tier == "quick" else 8):
            add(sizes=sizes, mode="thread", sink="path", schedule=[], seed=k, siblings=True, rendezvous=["decompress"], coder=["copy", "lzma2"][k % 2])
        add(sizes=sizes, mode="process", sink="path", schedule=[], seed=1, siblings=True)
        add(sizes=sizes, mode="seq", sink="path", seed=1, siblings=True)
        # selective extraction in parallel (folders with no selected member are skipped)
        add(sizes=sizes, mode="thread", schedule=[len(sizes)] * len(sizes[-1]), sink="factory", targets=[f"f{len(sizes)}/m{i}-ü.bin" for i in range(1, len(sizes[-1]) + 1)])
    # two independent objects on one path, interleaved
    sizes = SHAPES["S22"]
    tokens = [1] * 2 + [2] * 2 + [11] * 2 + [12] * 2
    perms = set()
    while len(perms) < (40 if tier == "quick" else 600):
        p = tokens[:]
        R.shuffle(p)
        perms.add(tuple(p))
    for p in sorted(perms):
        add(sizes=sizes, mode="two", schedule=list(p), sink="factory", seed=3)
    outs = sandbox.run_cases(execute, cases, timeout=25, nproc=16)
    traces, origins, unenforced = [], [], 0
    for c, o in zip(cases, outs):
        desc = {k: v for k, v in c.items() if k != "wd"}
        ev.case(json.dumps(desc, sort_keys=True), nontrivial=c["mode"] != "seq")
        if o.status == "ok":
            traces.append(o.value["trace"])
            origins.append(desc)
            if c["mode"] in ("thread", "two") and not o.value["extra"]["enforced"]:
                unenforced += 1
            if c["mode"] == "two":
                t2 = [dict(o.value["trace"][0]), o.value["extra"]["second"], {"e": "closeret", "exc": "", "callback": False}]
                traces.append(t2)
                origins.append(dict(desc, second=True))
        elif o.status == "skipped":
            continue
        elif o.status == "hang":
            rep.violation(f"hang:{c['mode']}:damaged={c.get('damaged')}", f"parallel extraction did not finish: {o.detail[:500]}", {"case": desc})
        else:
            rep.violation(f"harness-{o.status}:{c['mode']}", f"{o.value} {o.detail[-500:]}", {"case": desc})
    if unenforced:
        rep.note_drift(f"{unenforced} schedules could not be enforced (released after the grace period)")
    ev.cov["schedules_enumerated_by_tlc"] = nsched
    ev.cov["schedules_not_enforced"] = unenforced
    ev.sample({"schedule_case": {k: v for k, v in cases[3].items() if k != "wd"}, "trace": traces[3]})
    validate("C13", traces, rep, ev, spec="TraceParallel", cfg="TraceParallel.cfg", classify_fn=classify, origins=origins)
    ev.cov["exhaustive"] = tier != "quick"
    ev.cov["rule"] = ("thread mode: schedules enumerated by TLC for folder shapes " + ",".join(shapes) + (" (60 sampled per shape)" if tier == "quick" else " (all)") +
                      " forced by write gates; damage at each folder position; two objects on one path; sequential and process mode "
                      "(process mode under OS scheduling, repeated); non-trivial = not sequential")
    ev.assumptions += ["process-mode children cannot be gated from the parent: explored by repetition only",
                       "gating granularity: the first write of every member's product"]
    shutil.rmtree(base, ignore_errors=True)


def replay(path, rep, ev):
    from ..common import unhex

    r = unhex(json.load(open(path))["replay"])
    case = r.get("origin") or r.get("case")
    case["wd"] = scratch("rp")
    o = sandbox.run_one(execute, case, timeout=120)
    print(o.status, json.dumps(o.value, indent=1)[:4000] if o.status == "ok" else (o.value, o.detail))
