"""C05  Any input terminates in bounded time and memory; the interpreter survives.

D  Stream.tla under a hostile environment (streams shorter than declared, decoders that return nothing): the extraction loop
   ends - delivered or raised - for every chunking (liveness, with the pre-repair loop as negative control);
   HeaderRes.tla: the header parser's loops with attacker-controlled counts: allocation stays proportional to bytes consumed.
R  byte strings reachable by (a) truncating, bit-flipping, splicing valid archives of every codec family, (b) structure-aware
   mutation of the decoded header with all CRCs re-sealed (every NUMBER field := 0,1,2,2^k-1,2^k,2^32,2^63,2^64-1; sections
   dropped / duplicated / swapped), (c) wrong or missing password; x call sequences incl. extract twice without reset.
   Each runs in a sandboxed child: wall clock 10 s (archives are a few hundred bytes and declare < 1 MiB of output),
   address space 1 GiB, abnormal exit detected.
"""
import json
import os

from .. import tlc, sandbox, damage
from ..common import import_py7zr, rng, scratch, MachineryError

LEVEL = "model_checking"


def run(tier, rep, ev):
    py7zr = import_py7zr()
    R = rng("c05")
    r = tlc.run("StreamMC", "StreamMC.cfg", workers=16)
    ev.add_tlc(r, "StreamMC (hostile short streams, liveness)")
    if not r.ok:
        rep.note_drift(f"Stream model violates {r.violated}")
    rn = tlc.run("StreamMC", "StreamMC_unguarded.cfg", workers=4)
    ev.cov["negative_control"] = {"cfg": "extraction loop without the stall guard", "violated": rn.violated or "NOTHING"}
    if rn.ok:
        raise MachineryError("negative control failed")
    rh = tlc.run("HeaderRes", "HeaderRes.cfg", workers=8)
    ev.add_tlc(rh, "HeaderRes (parser loops with hostile counts)")
    if not rh.ok:
        rep.note_drift(f"header resource model violates {rh.violated}; replay decides")
    rhn = tlc.run("HeaderRes", "HeaderRes_unvalidated.cfg", workers=4)
    ev.cov["negative_control_header"] = {"cfg": "counts not validated against the data (tree before the repair)", "violated": rhn.violated or "NOTHING"}
    if rhn.ok:
        raise MachineryError("negative control failed: unvalidated counts stay proportional")
    for cfg, what in (("HeaderRes_peritem.cfg", "count vector validated entry by entry instead of as a sum"),
                      ("HeaderRes_chainloop.cfg", "packed headers unpacked in a loop without a bound")):
        rx = tlc.run("HeaderRes", cfg, workers=4)
        ev.cov.setdefault("negative_controls_header", {})[what] = rx.violated or "NOTHING"
        if rx.ok:
            raise MachineryError(f"negative control failed: {what}")
    archives = damage.sample_archives(py7zr, R, "thorough" if tier != "quick" else "quick")
    if tier == "quick":
        # every codec family also in quick: one more small archive per family
        extra = damage.sample_archives(py7zr, R, "thorough")
        have = {a[0].split(":")[1] for a in archives}
        for a in extra:
            fam = a[0].split(":")[1]
            if fam not in have and a[0].startswith("py7zr") and ":encoded:" in a[0]:
                archives.append(a)
                have.add(fam)
    cases, meta = [], []

    def add(label, what, img, pw, seq):
        cases.append((img, pw, seq))
        meta.append({"archive": label, "what": what, "seq": seq})

    for label, raw, pw, regions in archives:
        k = 0
        per = 120 if tier == "quick" else 1500
        dm = list(damage.damages(raw, regions, R, "quick"))
        for kind, what, img, off in (R.sample(dm, min(per, len(dm)))):
            k += 1
            add(label, f"{kind} {what}", img, pw, damage.SEQUENCES[k % len(damage.SEQUENCES)])
        sm = list(damage.structure_mutations(raw, pw, R, tier))
        if tier == "quick" and len(sm) > 150:
            sm = R.sample(sm, 150)
        for what, img in sm:
            k += 1
            add(label, what, img, pw, damage.SEQUENCES[k % 3])
        # splices of two archives
        other = archives[(archives.index((label, raw, pw, regions)) + 1) % len(archives)][1]
        for _ in range(10 if tier == "quick" else 100):
            i, j = R.randrange(32, len(raw)), R.randrange(32, len(other))
            add(label, f"splice at {i}/{j}", raw[:i] + other[j:], pw, damage.SEQUENCES[0])
        if pw:
            for wrong in (None, "PW", "p", "pw "):
                for seq in damage.SEQUENCES[:3]:
                    add(label, f"password {wrong!r}", raw, wrong, seq)
        add(label, "intact", raw, pw, damage.SEQUENCES[1])
    for what, img in damage.compound_attacks(tier):
        add("compound", what, img, None, damage.SEQUENCES[0])
    for junk in (b"", b"7z", b"7z\xbc\xaf\x27\x1c", b"7z\xbc\xaf\x27\x1c" + bytes(26), b"7z\xbc\xaf\x27\x1c\x00\x04" + b"\xff" * 24, bytes(64), b"\xff" * 200):
        add("junk", f"{len(junk)} bytes", junk, None, damage.SEQUENCES[0])
    outs = sandbox.run_cases(damage.run_sequence, cases, timeout=10, nproc=16, slice_size=24, mem=1 << 30, max_hangs=60)
    # 'mem' = the call needed more than 1 GiB of ADDRESS SPACE.  A decoder may reserve a large dictionary it never touches (LZMA/LZMA2
    # dictionary size is a coder property, up to 4 GiB by the format); what the property bounds is memory really used.  Every such case
    # is run again with 8 GiB of address space and judged by the growth of its resident set (bound: 512 MiB) and the time limit.
    # a verdict "did not return" is confirmed before it counts: the case is run again, few at a time (16 sandboxes next to other load can
    # starve one of them for seconds), with 30 s
    hung = [k for k, o in enumerate(outs) if o.status == "hang"]
    if hung:
        outs4 = sandbox.run_cases(damage.run_sequence, [cases[k] for k in hung], timeout=30, nproc=4, slice_size=1, mem=1 << 30)
        for k, o4 in zip(hung, outs4):
            if o4.status != "hang":
                outs[k] = o4
        ev.cov["hangs_not_confirmed_on_rerun"] = sum(1 for k in hung if outs[k].status != "hang")
    again = [k for k, o in enumerate(outs) if o.status == "mem" or (o.status == "crash" and "ppmd" in meta[k]["archive"].lower())]
    if again:
        outs2 = sandbox.run_cases(damage.run_sequence_rss, [cases[k] for k in again], timeout=20, nproc=8, slice_size=1, mem=8 << 30)
        reserved = 0
        for k, o2 in zip(again, outs2):
            if outs[k].status == "crash":
                if o2.status == "ok":
                    # the interpreter only dies when the reservation FAILS: pyppmd does not check the result of its allocation
                    rep.violation("delegated-codec:pyppmd:alloc-unchecked", f"{meta[k]['archive']}: {meta[k]['what']}: interpreter terminated under a 1 GiB address-space "
                                  "limit, clean with 8 GiB", {"archive": meta[k]["archive"], "what": meta[k]["what"], "seq": meta[k]["seq"], "image": cases[k][0]})
                    outs[k] = sandbox.Outcome("ok", o2.value, "pyppmd allocation unchecked (known finding)", o2.wall)
                continue
            if o2.status == "ok" and o2.value.get("rss_growth_kb", 1 << 30) <= 512 * 1024:
                outs[k] = sandbox.Outcome("ok", o2.value, "address space reserved, not used", o2.wall)
                reserved += 1
            elif o2.status == "ok":
                outs[k].detail = f"resident set grew by {o2.value['rss_growth_kb'] // 1024} MiB. " + outs[k].detail
            elif o2.status in ("hang", "crash"):
                outs[k] = o2
        ev.cov["address_space_reserved_but_not_used"] = reserved
    # "proportional to ... the output it legitimately declares": a mutation that DECLARES gigabytes of output (a size field := 2^32-1, 2^63)
    # on a decoder that keeps producing when its input has run out (PPMd decodes zeros for ever) is slow in proportion to that
    # declaration, not without bound: such a case that did not return within 10 s is run again with time for the declared output and
    # judged by its resident growth.
    import re as _re
    slow = []
    for k, o in enumerate(outs):
        mm = _re.search(r"sizes/\d+ := (\d+)", meta[k]["what"]) if o.status == "hang" else None
        if mm and int(mm.group(1)) >= 1 << 30:
            slow.append(k)
    if slow:
        outs3 = sandbox.run_cases(damage.run_sequence_rss, [cases[k] for k in slow], timeout=900, nproc=4, slice_size=1, mem=8 << 30)
        for k, o3 in zip(slow, outs3):
            if o3.status == "ok" and o3.value.get("rss_growth_kb", 1 << 30) <= 512 * 1024:
                outs[k] = sandbox.Outcome("ok", o3.value, "time in proportion to the declared output", o3.wall)
        ev.cov["slow_in_proportion_to_declared_output"] = len(slow)
    stats = {}
    for m, c, o in zip(meta, cases, outs):
        ev.case((m["archive"], m["what"], tuple(m["seq"])))
        fam = m["archive"]
        stats[o.status] = stats.get(o.status, 0) + 1
        if o.status in ("ok", "exc", "skipped"):
            continue
        ppmd = "ppmd" in fam.lower()
        kind = {"hang": "did not return within 10 s", "mem": "needed more than 1 GiB of address space", "crash": "terminated the interpreter"}[o.status]
        where = ""
        if o.status == "hang":
            for line in o.detail.splitlines():
                if "py7zr/" in line:
                    where = line.strip().split("py7zr/")[-1].split(",")[0] + ":" + line.strip().split(" in ")[-1]
                    break
        key = ("delegated-codec:pyppmd:" + o.status) if ppmd else f"{o.status}:{fam.split(':')[0]}:{where or m['what'].split(' ')[0]}"
        if o.status == "crash" and _top_frame_in_pyppmd_call(o.detail):
            # the interpreter died inside a call into the delegated library (faulthandler: the most recent Python frame is the line of
            # PpmdDecompressor / PpmdCompressor that calls pyppmd): py7zr is pure Python, the fault is the extension's
            key = "delegated-codec:pyppmd:crash-inside-the-library"
        if m["what"].startswith("padded packed header: numfiles"):
            key = "compound:numfiles-behind-zero-padding"        # (time or memory, wherever the stack stood: one input class)
        rep.violation(key, f"{fam}: {m['what']} with calls {m['seq']} {kind}. {o.detail[:600]}",
                      {"archive": fam, "what": m["what"], "seq": m["seq"], "image": c[0], "password": c[1]})
    ev.cov["outcomes"] = stats
    ev.cov["traces_validated_against_impl"] = len(cases)
    ev.sample({"case": meta[3], "image_bytes": len(cases[3][0])})
    ev.sample({"case": meta[-20]})
    ev.cov["rule"] = (f"{len(archives)} archives (every codec family) x sampled bit flips/truncations/overwrites/swaps/inserts + structure mutations "
                      "(every NUMBER field x hostile values, sections dropped/duplicated/swapped, re-sealed) + splices + wrong passwords + junk; "
                      "x 6 call sequences; distinct = (archive, mutation, sequence)")
    ev.assumptions += ["'bounded' = 10 s wall clock; memory: 1 GiB of address space, or - when a decoder reserves more without using it - 512 MiB of resident growth under 8 GiB of address space"]


def _top_frame_in_pyppmd_call(detail):
    """faulthandler's dump: is the most recent frame of the crashing thread one of the lines of py7zr/compressor.py that call pyppmd?"""
    import inspect
    import re

    import py7zr.compressor as C
    spans = []
    for cls in (C.PpmdDecompressor, C.PpmdCompressor):
        for name in ("__init__", "decompress", "compress", "flush"):
            fn = getattr(cls, name, None)
            if fn is not None:
                try:
                    src, first = inspect.getsourcelines(fn)
                    spans.append((first, first + len(src) - 1))
                except (OSError, TypeError):
                    pass
    mm = re.search(r"most recent call first\):\s*\n\s*File \"([^\"]+)\", line (\d+) in (\w+)", detail)
    if not mm or not mm.group(1).endswith("py7zr/compressor.py"):
        return False
    line = int(mm.group(2))
    return any(a <= line <= b for a, b in spans)


def replay(path, rep, ev):
    from ..common import unhex

    r = unhex(json.load(open(path))["replay"])
    o = sandbox.run_one(damage.run_sequence, (r["image"], r.get("password"), r["seq"]), timeout=10, mem=1 << 30)
    print(r["archive"], r["what"], r["seq"], "->", o.status, o.value, o.detail[:800])
