"""C16  Member names are kept relative on write.

D  NamesMC: every name over the component alphabet up to MaxComps components; invariant AlgoVerdict = SpecVerdict
   (AlgoVerdict transcribes check_archive_path on POSIX: pathlib normalisation, probe parent, canonical_path, relative_to)
R  the same TLC run emits every name with the specification's verdict; each is given to the real check_archive_path
T  write sessions on fresh archives (writestr, writef, write, writeall, random Unicode names, absolute/relative sources)
   are recorded and validated by TLC against TraceNames (verdict, archive unchanged by a rejected call, listing relative)
"""
import io
import json
import os
import pathlib
import shutil

from .. import tlc
from ..common import import_py7zr, rng, scratch, MachineryError

LEVEL = "model_checking"

TOK = {"a": "a", "b": "b", "..": "..", ".": ".", "": "", "c:": "c:", "p1": "dafj08sajfa", "p2": "a90sufoiasj09"}


def to_str(n):
    return "/" * n["lead"] + "/".join(TOK.get(c, c) for c in n["comps"]) + ("/" if n["trail"] else "")


def abstract(s: str):
    """string -> [lead, comps, trail] with components reduced to the classes the specification distinguishes"""
    s = s.replace("\\", "/")          # the 7z name table knows the backslash as a separator too (py7zr's reader turns it into '/')
    lead = len(s) - len(s.lstrip("/"))
    rest = s[lead:]
    trail = rest.endswith("/")
    if trail:
        rest = rest[:-1]
    comps = rest.split("/") if rest != "" or trail else ([] if rest == "" else [rest])
    out = []
    for c in comps:
        if c in ("..", ".", ""):
            out.append(c)
        elif c == "dafj08sajfa":
            out.append("p1")
        elif c == "a90sufoiasj09":
            out.append("p2")
        else:
            out.append("a")
    return {"lead": min(lead, 2), "comps": out, "trail": trail}


CFG = """SPECIFICATION Spec
CONSTANT MaxComps = %d
CONSTANT Fixed = TRUE
INVARIANT VerdictRight
INVARIANT StoredRelative
INVARIANT SanitizedRelative
CHECK_DEADLOCK FALSE
"""


def _structure(raw):
    """what the archive looks like to an independent reader: folders, packed streams, members"""
    from ..refcodec import read_archive

    p = read_archive(raw, None, strict=False, decode=False)
    return [len(p.folders), sum(len(f.get("packsizes") or []) for f in p.folders), len(p.members)]


def session(py7zr, names, via):
    """one write session; returns the event list.  A control session performs only the accepted calls: a rejected call must
    leave no mark on the archive (same folders / packed streams / members / size)."""
    evs = []
    bio = io.BytesIO()
    z = py7zr.SevenZipFile(bio, "w", filters=[{"id": py7zr.FILTER_COPY}])
    accepted = []
    for s in names:
        before = len(z.files)
        exc = "none"
        try:
            if via == "writestr":
                z.writestr(b"x", s)
            else:
                z.writef(io.BytesIO(b"y"), s)
        except ValueError:
            exc = "ValueError"
        except Exception as e:  # noqa
            exc = type(e).__name__
        after = len(z.files)
        stored = abstract(z.files[after - 1].filename) if after > before else {"lead": 0, "comps": [], "trail": False}
        if after > before:
            accepted.append(s)
        unstorable = "\x00" in s or any(0xD800 <= ord(ch) <= 0xDFFF for ch in s)
        evs.append({"e": via, "name": abstract(s), "str": s[:80].encode("utf-8", "backslashreplace").decode(), "before": before, "after": after, "exc": exc, "stored": stored,
                    "unstorable": unstorable})
    try:
        z.close()
    except UnicodeEncodeError:
        # a name that UTF-16 cannot carry (lone surrogate): the session is refused as a whole - what must never happen is that the
        # name is stored in another form than the one that was checked
        evs.append({"e": "refused"})
        return evs
    cb = io.BytesIO()
    with py7zr.SevenZipFile(cb, "w", filters=[{"id": py7zr.FILTER_COPY}]) as c:
        for s in accepted:
            if via == "writestr":
                c.writestr(b"x", s)
            else:
                c.writef(io.BytesIO(b"y"), s)
    try:
        same = _structure(bio.getvalue()) == _structure(cb.getvalue())
    except Exception:  # noqa
        same = False
    bio.seek(0)
    with py7zr.SevenZipFile(bio, "r") as r:
        got = r.getnames()
    evs.append({"e": "closed", "listed": len(got), "names": [abstract(g) for g in got], "same": same})
    return evs


def run(tier, rep, ev):
    py7zr = import_py7zr()
    from py7zr.helpers import check_archive_path

    R = rng("c16")
    maxc = 4 if tier == "quick" else 5
    d = scratch("c16")
    gen = os.path.join(d, "names.json")
    r = tlc.run("NamesMC", cfg_text=CFG % maxc, env={"OUT_FILE": gen}, workers=16, heap="8g")
    ev.add_tlc(r, f"NamesMC(MaxComps={maxc})")
    if not r.ok:
        rep.note_drift(f"model-level violation of {r.violated} in NamesMC (I-level); replay decides")
    names = json.load(open(gen))
    # ---- R
    nbad = 0
    for n in names:
        s = to_str(n)
        ev.case(s, nontrivial=True)
        try:
            got = bool(check_archive_path(s))
        except Exception as e:  # noqa
            got = f"raised {e!r}"
        if got != n["spec"]:
            nbad += 1
            rep.violation("check_archive_path-verdict:" + ("accepts-climbing" if n["spec"] is False else "rejects-inside"),
                          f"check_archive_path({s!r}) = {got}, independent definition says {n['spec']}", {"op": "check", "name": s})
        elif got != n["algo"]:
            rep.note_drift(f"check_archive_path({s!r}) = {got} but the I-level transcription predicts {n['algo']}")
    ev.sample({"name": to_str(names[len(names) // 3]), "struct": names[len(names) // 3]})
    ev.cov["exhaustive"] = True

    # ---- T: sessions through the public API
    traces = []
    pool = [to_str(n) for n in names]
    nsess = 150 if tier == "quick" else 1500
    for i in range(nsess):
        k = R.randrange(1, 9)
        chosen = [R.choice(pool) for _ in range(k)]
        # avoid duplicate accepted names inside one archive (not part of this property)
        seen, uniq = set(), []
        for s in chosen:
            key = str(pathlib.PurePosixPath(s))
            if key not in seen:
                seen.add(key)
                uniq.append(s)
        traces.append(session(py7zr, uniq, "writestr" if i % 2 == 0 else "writef"))
        ev.case(("sess", i))
    # names UTF-16 cannot carry (lone surrogates, as os.listdir() hands them out for undecodable bytes): the session may be refused, but a
    # name must never reach the archive in another form than the one that was checked ('\udcff/evil' -> '/evil', '.\udcff./x' -> '../x')
    for i, s in enumerate(["\udcff/evil.txt", ".\udcff./x", "a/\ud800", "\udc80\udc81/\udcff/b", "ok/\udcfe..\udcfe/y", ".\udcff", "\udcff.\udcff./z"]):
        for via in ("writestr", "writef"):
            traces.append(session(py7zr, ["plain.txt", s], via))
            ev.case(("surrogate", i, via))
    # the same traversal shapes spelled with backslashes (as the name table of an archive made on Windows would hold them)
    for i, s in enumerate(["\\etc\\passwd", "..\\..\\x", "a\\..\\..\\..\\x", "\\\\server\\share\\x", "a\\b\\c.txt", "a\\..\\b", "ok/..\\..\\y", "d\\"]):
        for via in ("writestr", "writef"):
            traces.append(session(py7zr, ["plain.txt", s, "after.txt"], via))
            ev.case(("backslash", i, via))
    # verdicts must not depend on what the session accepted before: every refused name right behind an accepted sibling that shares
    # its directory part, in particular directory parts that resolve to the archive root ('./x' then './..'; seed C16-7)
    hist = []
    for n in names:
        if n["spec"] is False and len(n["comps"]) >= 2:
            sname = to_str(n)
            sib = sname.rstrip("/").rsplit("/", 1)[0] + "/a"
            if sib != sname and check_archive_path(sib):
                hist.append([sib, sname])
    hist = R.sample(hist, min(len(hist), 250 if tier == "quick" else 5000))
    for dpart in (".", "a/..", "a/b/../..", "./.", "b/./..", "a/../.", "c:/.."):
        hist.append([dpart + "/a", dpart + "/..", dpart + "/../b", dpart + "/b"])
    for i, seq in enumerate(hist):
        traces.append(session(py7zr, seq, "writestr" if i % 2 else "writef"))
        ev.case(("hist", i))
    ev.cov["history_sessions"] = len(hist)
    # random Unicode names with traversal shapes
    # (the last five: a code unit whose low byte is 00 directly behind a character below U+0100 - bytes `xx 00 00 yy` in UTF-16LE
    # without any NUL character; seed C16-8)
    alph = ["..", ".", "", "ä", "日本", "\U0001F600", " x", "c:", ".hidden", "a\tb", "dafj08sajfa", "a90sufoiasj09", "...",
            "e\u0300", "x\u3000y", "é一", "a\u0100", "~\u2000"]
    for i in range(nsess):
        nm = []
        for _ in range(R.randrange(1, 6)):
            k = R.randrange(1, 7)
            s = "/" * R.choice([0, 0, 0, 1, 2, 3]) + "/".join(R.choice(alph) for _ in range(k)) + R.choice(["", "", "/"])
            if s != "":
                nm.append(s)
        seen, uniq = set(), []
        for s in nm:
            key = str(pathlib.PurePosixPath(s))
            if key not in seen:
                seen.add(key)
                uniq.append(s)
        traces.append(session(py7zr, uniq, "writestr" if i % 2 else "writef"))
        ev.case(("usess", i))
    # thorough: all names with MaxComps+1 components judged by TLC as check events
    if tier != "quick":
        import itertools

        alpha = list(TOK)
        cur = []
        for lead in (0, 1):
            for comps in itertools.product(alpha, repeat=6):
                if comps[0] == "":
                    continue
                n = {"lead": lead, "comps": list(comps), "trail": False}
                s = to_str(n)
                cur.append({"e": "check", "name": n, "verdict": bool(check_archive_path(s))})
                if len(cur) >= 20000:
                    traces.append(cur)
                    cur = []
        if cur:
            traces.append(cur)
    # write / writeall with absolute and relative sources
    traces.extend(_write_sessions(py7zr, R, tier, ev))

    acc, results = tlc.validate_traces("TraceNames", "TraceNames.cfg", traces, extra_env={"EXPLAIN": "0"}, workers=8, batch=400)
    for r in results:
        ev.add_tlc(r, "TraceNames")
    ev.traces(len(traces))
    ev.sample({"session_trace": traces[0][:3]})
    bad = [i for i in range(len(traces)) if i not in acc]
    if bad:
        sub = [traces[i] for i in bad[:40]]
        p = os.path.join(d, "bad.json")
        tlc.write_json(p, sub)
        rr = tlc.run("TraceNames", "TraceNames.cfg", workers=1, env={"TRACE_FILE": p, "EXPLAIN": "1"})
        reach = {}
        for v in rr.prints.get("AT", []):
            reach[int(v[0])] = max(reach.get(int(v[0]), 0), int(v[1]))
        for j, tr in enumerate(sub):
            l = reach.get(j + 1, 1)
            e = tr[l - 1] if l - 1 < len(tr) else {}
            key = f"trace-rejected:{e.get('e')}"
            if e.get("e") in ("writestr", "writef"):
                key += ":" + ("accepted-climbing-or-absolute" if e.get("exc") == "none" else "rejected-or-changed")
            rep.violation(key, f"TraceNames rejects event {l}: {json.dumps(e, ensure_ascii=True)[:400]}", {"event": e, "trace": tr[:l]})
    ev.cov["rule"] = (f"all names over 8 component tokens x 1..{maxc} components x lead 0..2 x trailing slash (exhaustive, from TLC); "
                      f"{2 * nsess} write sessions; write/writeall over a scratch tree; distinct = distinct name strings / sessions")
    shutil.rmtree(d, ignore_errors=True)


def _write_sessions(py7zr, R, tier, ev):
    traces = []
    root = scratch("c16tree")
    tree = os.path.join(root, "t")
    os.makedirs(os.path.join(tree, "d1", "d2"))
    # (on POSIX a backslash is an ordinary character of a file name: "\\abs" is a relative source path - and a leading separator once stored)
    for rel in ["f0", "d1/f1", "d1/d2/f2", "d1/c:x", "\\abs", "d1/\\inner", "..\\up"]:
        with open(os.path.join(tree, rel), "w") as f:
            f.write(rel)
    os.makedirs(os.path.join(tree, "c:"), exist_ok=True)
    with open(os.path.join(tree, "c:", "g"), "w") as f:
        f.write("g")
    cwd = os.getcwd()
    srcs_abs = [tree, os.path.join(tree, "f0"), os.path.join(tree, "d1"), os.path.join(tree, "d1", "d2", "f2"), "//" + tree.lstrip("/") + "/f0",
                os.path.join(tree, "c:", "g"), os.path.join(tree, "c:")]
    try:
        os.chdir(tree)
        srcs_rel = ["f0", "d1", "./d1/f1", "d1/d2/../d2/f2", "c:/g", "c:", "d1/c:x", ".", "\\abs", "..\\up"]
        for use_all in (False, True):
            for srcs in (srcs_abs, srcs_rel):
                for s in srcs:
                    evs = []
                    bio = io.BytesIO()
                    z = py7zr.SevenZipFile(bio, "w", filters=[{"id": py7zr.FILTER_COPY}])
                    before = len(z.files)
                    exc = "none"
                    try:
                        if use_all:
                            z.writeall(s)
                        elif os.path.isdir(s) and not use_all:
                            z.write(s)
                        else:
                            z.write(s)
                    except Exception as e:  # noqa
                        exc = type(e).__name__ + ":" + str(e)[:60]
                    after = len(z.files)
                    stored = [abstract(z.files[i].filename) for i in range(before, after)]
                    evs.append({"e": "write", "src": s, "srcabs": s.startswith("/"), "exc": exc, "added": after - before, "after": after, "stored": stored})
                    z.close()
                    bio.seek(0)
                    with py7zr.SevenZipFile(bio, "r") as r:
                        got = r.getnames()
                    evs.append({"e": "closed", "listed": len(got), "names": [abstract(g) for g in got], "same": True})
                    traces.append(evs)
                    ev.case(("write", use_all, s))
    finally:
        os.chdir(cwd)
        shutil.rmtree(root, ignore_errors=True)
    return traces


def replay(path, rep, ev):
    import_py7zr()
    from py7zr.helpers import check_archive_path

    r = json.load(open(path))["replay"]
    if r.get("op") == "check":
        print(repr(r["name"]), "->", check_archive_path(r["name"]))
    else:
        print(json.dumps(r, indent=1)[:3000])
