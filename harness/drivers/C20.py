"""C20  Streaming in bounded memory, however large or compressible a member is.

D  Stream.tla with resident-memory accounting: the input block just read, packed bytes inside the decoders (InHeld), the
   decoders' output of the call, the carry-over and the chunk handed out; MemBound / InputBound / OutBound hold for every
   member size, ratio (pack 1..14 for 12 plain bytes), position of the big member in the solid block, chunk limit, block
   size and overshoot constant (StreamMC_mem.cfg).  Negative controls: decoders that ignore the request (the tree before
   the Deflate/Deflate64/ZStandard/Brotli repairs) violate MemBound; reading a block on every call (the tree before the
   glue repair) violates InputBound.
R  fresh processes (harness/bigmem.py) write, then read, archives with large synthetic members generated on the fly:
   0.5..1 GiB quick / up to 4 GiB thorough; zeros, 61-byte period, text, incompressible; every codec family, also behind
   BCJ / Delta / 7zAES; writef / write(path) / a series of writestr; extractall(path) / extractall(factory) / testzip; the
   big member first, last and between small ones (up to 900 small members in front: one I/O block each);
   the same chains with the chunk limit scaled down to 1 MiB (a decoder that ignores it shows at once); small archives
   whose header declares a 3.5 GiB / 2^40 member.
T  TraceMem: every decompress step (carry-over arithmetic, decoder output <= request + constant, a holding decoder is
   drained and not fed, reads while holding <= one block), the writer's reads (<= block) and retention (0), the peak
   resident set of the process minus its baseline <= 700 MiB, and the outcome (sizes delivered, testzip clean).
"""
import concurrent.futures
import json
import os
import shutil
import subprocess
import sys

from .. import tlc
from ..common import rng, scratch, MachineryError, REPO, VERIF
from ..roundtrip import FID
from .C15 import validate

LEVEL = "model_checking"
MiB = 1 << 20
GiB = 1 << 30


def F(*chain, **kw):
    out = []
    for t in chain:
        f = {"id": FID[t]}
        if t in ("LZMA2", "LZMA"):
            f["preset"] = 0
        elif t == "Delta":
            f["dist"] = 4
        elif t in ("ZStd", "Brotli"):
            f["level"] = 1
        elif t == "PPMd":
            f["order"] = 6
            f["mem"] = 24
        out.append(f)
    return out


def child(case, timeout):
    env = dict(os.environ, VERIF_REPO=REPO, PYTHONHASHSEED="0")
    try:
        r = subprocess.run([sys.executable, "-m", "harness.bigmem", json.dumps(case)], cwd=VERIF, env=env, capture_output=True, text=True,
                           timeout=timeout, stdin=subprocess.DEVNULL)
    except subprocess.TimeoutExpired:
        return {"error": "Timeout", "events": [], "timeout": True}
    line = r.stdout.strip().splitlines()[-1] if r.stdout.strip() else ""
    try:
        return json.loads(line)
    except Exception:  # noqa
        return {"error": f"child died rc={r.returncode}: {r.stderr[-300:]}", "events": [], "died": True}


def run_big(case):
    """one archive: write child, then one child per read mode.  Returns list of (origin, events)."""
    wd = case["wd"]
    os.makedirs(wd, exist_ok=True)
    arc = os.path.join(wd, "a.7z")
    out = []
    tmo = case.get("timeout", 900)
    try:
        members = case["members"]
        if case.get("declared"):
            # a small valid archive whose header is re-sealed with a huge declared size
            from ..common import import_py7zr
            from ..refcodec import mutate
            import copy
            py7zr = import_py7zr()
            with py7zr.SevenZipFile(arc, "w", filters=case["filters"]) as z:
                z.writestr(b"tiny member " * 20, "m0")
            raw = open(arc, "rb").read()
            tree = mutate.parse_to_tree(raw, None)
            hit = 0
            t2 = copy.deepcopy(tree)
            for path in mutate.iter_number_sites(tree):
                if mutate.get_at(tree, path) == 240 and "size" in "/".join(map(str, path)).lower():
                    mutate.set_at(t2, path, case["declared"])
                    hit += 1
            if not hit:
                raise MachineryError("declared-size site not found")
            open(arc, "wb").write(mutate.build_from_tree(t2))
        else:
            wcase = {"phase": "write", "arc": arc, "filters": case["filters"], "members": members, "password": case.get("password"),
                     "how": case.get("how", "writef"), "seed": case.get("seed", 1), "zstd_window": case.get("zstd_window"),
                     "per_session": case.get("per_session"), "linkflag": case.get("linkflag", []), "pad_header": case.get("pad_header")}
            if wcase["how"] == "write":
                from .. import bigmem
                wcase["srcdir"] = os.path.join(wd, "src")
                os.makedirs(wcase["srcdir"])
                for k, (size, texture) in enumerate(members):
                    bigmem.materialise(os.path.join(wcase["srcdir"], f"m{k}"), size, texture, k)
            w = child(wcase, tmo)
            ok = w.get("error") is None
            out.append((dict(case, phase="write"), w.get("events", []) + [{"e": "outcome", "ok": ok, "detail": str(w.get("error"))[:200]}], w))
            if wcase["how"] == "write":
                shutil.rmtree(wcase["srcdir"], ignore_errors=True)
            if not ok:
                return out
        for mode in case["modes"]:
            rcase = {"phase": mode, "arc": arc, "members": members, "password": case.get("password"), "out": os.path.join(wd, "out"),
                     "limit": case.get("limit"), "rlimit_data": case.get("rlimit_data"), "tag": case.get("tag", "")}
            r = child(rcase, tmo)
            if case.get("declared") or case.get("refusal_ok"):
                ok = not r.get("timeout") and not r.get("died")          # any clean verdict; memory is what is judged
            elif mode == "testzip":
                ok = r.get("error") is None and r.get("testzip") is None
            else:
                ok = r.get("error") is None and r.get("sizes") == [m[0] for m in members]
            out.append((dict(case, phase=mode), r.get("events", []) + [{"e": "outcome", "ok": ok, "detail": str(r.get("error"))[:200]}], r))
            shutil.rmtree(os.path.join(wd, "out"), ignore_errors=True)
        return out
    finally:
        shutil.rmtree(wd, ignore_errors=True)


def classify(tr, l):
    e = tr[l - 1] if 0 < l <= len(tr) else {}
    k = e.get("e")
    key = f"mem-trace-rejected:{k}"
    if k == "rss":
        key = f"over-budget:{e.get('phase')}" + (":" + e["tag"] if e.get("tag") else "")
    elif k == "call":
        if e.get("t", 0) > e.get("m", 0) + (64 << 20):
            key = "decoder-output-unbounded"
        elif e.get("h") and e.get("d", 0) > 0:
            key = "input-piles-up-in-decoder"
        else:
            tag = next((x.get("tag") for x in tr if x.get("e") == "rss" and x.get("tag")), "")
            key = "step-rule" + (":" + tag if tag else "")
    elif k == "wret":
        key = "writer-retains-member-content"
    elif k == "wread":
        key = "writer-reads-more-than-a-block"
    elif k == "outcome":
        key = "wrong-outcome:" + str(e.get("detail", "")).split(":")[0]
    return key, e


def plan(tier, R):
    Z, P_, T, X = "zeros", "period", "text", "random"
    big = 1 * GiB
    cases = []

    def add(name, filters, members, modes=("extract-factory",), **kw):
        cases.append(dict(name=name, filters=filters, members=[list(m) for m in members], modes=list(modes), **kw))

    ALL = ("extract-factory", "extract-path", "testzip")
    # --- maximally compressible, every codec family (a small archive, a huge output)
    add("lzma2-zeros", F("LZMA2"), [(big, Z)], ALL)
    add("lzma-zeros", F("LZMA"), [(big, Z)], ("extract-path",))
    add("bzip2-zeros", F("BZip2"), [(big, Z)], ("extract-factory",))
    add("deflate-zeros", F("Deflate"), [(big, Z)], ALL)
    add("deflate64-zeros", F("Deflate64"), [(big, Z)], ("extract-factory", "testzip"))
    add("zstd-zeros", F("ZStd"), [(big, Z)], ALL)
    add("brotli-zeros", F("Brotli"), [(big, Z)], ("extract-factory", "extract-path"))
    add("ppmd-zeros", F("PPMd"), [(512 * MiB if tier == "quick" else big, Z)], ("extract-factory",))
    add("copy-zeros-write", F("Copy"), [(big, Z)], ("extract-path",), how="write")
    # --- short period / text
    add("deflate-period", F("Deflate"), [(big, P_)], ("extract-factory",))
    add("zstd-period", F("ZStd"), [(big, P_)], ("testzip",))
    add("brotli-text", F("Brotli"), [(512 * MiB, T)], ("extract-factory",))
    add("lzma2-period", F("LZMA2"), [(big, P_)], ("extract-factory",))
    # --- behind BCJ / Delta / 7zAES
    add("bcj-lzma2-zeros", F("X86", "LZMA2"), [(big, Z)], ("extract-factory",))
    add("delta-lzma2-period", F("Delta", "LZMA2"), [(big, P_)], ("extract-path",))
    add("arm-zstd-zeros", F("ARM", "ZStd"), [(big, Z)], ("extract-factory",))
    add("bcj-deflate-zeros", F("X86", "Deflate"), [(big, Z)], ("extract-factory",))
    add("lzma2-aes-zeros", F("LZMA2", "AES"), [(big, Z)], ("extract-factory", "testzip"), password="pw-ü")
    add("zstd-aes-zeros", F("ZStd", "AES"), [(big, Z)], ("extract-path",), password="pw")
    add("deflate-aes-period", F("Deflate", "AES"), [(big, P_)], ("extract-factory",), password="pw")
    add("brotli-aes-zeros", F("Brotli", "AES"), [(big, Z)], ("extract-factory",), password="pw")
    # --- incompressible
    add("copy-random", F("Copy"), [(big, X)], ("extract-factory", "extract-path"))
    add("zstd-random", F("ZStd"), [(big, X)], ("extract-factory",))
    add("copy-aes-random", F("Copy", "AES"), [(512 * MiB, X)], ("extract-factory",), password="pw")
    add("deflate-random", F("Deflate"), [(512 * MiB, X)], ("extract-factory",))
    add("brotli-random", F("Brotli"), [(512 * MiB, X)], ("testzip",))
    add("zstd-random-write", F("ZStd"), [(512 * MiB, X)], ("extract-factory",), how="write")
    add("deflate64-random", F("Deflate64"), [(800 * MiB, X)], ("extract-factory",))
    # --- position of the big member in the solid block; many small members in front (one I/O block is read for each)
    small = [(10, X)]
    add("zstd-small-first", F("ZStd"), small * 900 + [(big, X)], ("extract-factory",))
    add("bzip2-small-first-zeros", F("BZip2"), small * 50 + [(big, Z)], ("extract-factory",))
    add("deflate-big-first", F("Deflate"), [(big, Z)] + small * 20, ("extract-factory", "testzip"))
    add("lzma2-between", F("LZMA2"), small * 10 + [(big, Z)] + small * 10, ("extract-path",))
    add("brotli-between", F("Brotli"), small * 30 + [(big, P_)] + small * 3, ("extract-factory",))
    add("copy-small-first", F("Copy"), small * 300 + [(512 * MiB, X)], ("extract-factory",))
    # --- several folders, each with a big member, extracted by one worker per folder at the same time (archive opened by name)
    add("zstd-4-folders", F("ZStd"), [(512 * MiB, Z)] * 4, ("extract-factory", "extract-path", "testzip"), per_session=True)
    add("lzma2-3-folders-period", F("LZMA2"), [(512 * MiB, P_)] * 3, ("extract-factory",), per_session=True)
    # --- a member that claims to be a symbolic link (its content would be the link's target): refusing it is fine
    add("zstd-linkflag", F("ZStd"), [(10, X), (512 * MiB, Z)], ("extract-path",), linkflag=[1], refusal_ok=True)
    # --- an encoded header that unpacks to 512 MiB (zero padding behind its END mark; 80 KB on disk)
    add("lzma2-padded-header", F("LZMA2"), [(10, X)], ("extract-factory",), pad_header=512 * MiB, tag="header-declared-size")
    # --- a ZStandard frame whose header declares a 1 GiB / 256 MiB window (two bytes of the archive size the decoder's history buffer):
    #     refusing it is fine, decoding it within the budget is fine
    add("zstd-window-2^30", F("ZStd"), [(big, Z)], ("extract-factory", "testzip"), zstd_window=30, refusal_ok=True)
    add("zstd-window-2^28", F("ZStd"), small * 2 + [(512 * MiB, Z)], ("extract-path",), zstd_window=28, refusal_ok=True)
    add("zstd-window-2^20-control", F("ZStd"), [(512 * MiB, Z)], ("extract-factory",), zstd_window=20)
    # --- under a finite data-segment limit (ulimit -d 8 GiB / 3 GiB) the extraction chunk stays capped
    add("lzma2-zeros-rlimit8g", F("LZMA2"), small * 2 + [(big, Z)] + small, ("extract-factory", "extract-path"), rlimit_data=8 * GiB)
    add("zstd-period-rlimit3g", F("ZStd"), [(big, P_)], ("extract-factory",), rlimit_data=3 * GiB)
    # --- a series of writestr calls: nothing of an archived member is kept
    add("writestr-series", F("ZStd"), [(100 * MiB, X)] * 9, ("testzip",), how="writestr")
    # --- the chunk limit scaled down to 1 MiB: every chain, a decoder that ignores the request shows at once
    scaled = [("LZMA2",), ("LZMA",), ("BZip2",), ("Deflate",), ("Deflate64",), ("ZStd",), ("Brotli",), ("Copy",), ("X86", "LZMA2"), ("PPC", "Deflate"),
              ("SPARC", "ZStd"), ("ARMT", "Brotli"), ("Delta", "LZMA2"), ("Delta", "LZMA"), ("ZStd", "AES"), ("Deflate64", "AES"), ("X86", "BZip2", "AES"),
              ("ARM", "LZMA"), ("IA64", "LZMA2")]
    for k, ch in enumerate(scaled):
        tex = [Z, P_, T][k % 3]
        add("scaled-" + "-".join(ch), F(*ch), small * (k % 4) + [(200 * MiB, tex)] + small * (k % 3), (ALL[k % 3],), limit=MiB,
            password="pw" if "AES" in ch else None)
    add("scaled-ppmd", F("PPMd"), [(64 * MiB, Z)], ("extract-factory",), limit=MiB)
    # --- a small archive that declares a huge output
    for k, ch in enumerate([("LZMA2",), ("Copy",), ("Deflate",), ("ZStd",), ("BZip2",), ("Brotli",), ("Deflate64",), ("LZMA",)]):
        add("declared-" + ch[0], F(*ch), [(240, X)], ("extract-factory", "testzip") if k % 2 else ("extract-path",), declared=[3758096384, 1 << 40][k % 2], timeout=120)
    if tier != "quick":
        # the upper end of the quantifier: 2..4 GiB members, the slow coders on incompressible data
        add("lzma2-random-1g", F("LZMA2"), [(big, X)], ALL)
        add("lzma2-small-first-random", F("LZMA2"), small * 900 + [(big, X)], ("extract-factory",))
        add("bzip2-random", F("BZip2"), [(512 * MiB, X)], ("extract-factory",))
        add("zstd-zeros-4g", F("ZStd"), [(4 * GiB, Z)], ALL)
        add("lzma2-zeros-4g", F("LZMA2"), [(4 * GiB, Z)], ("extract-factory", "extract-path"))
        add("deflate-zeros-4g", F("Deflate"), [(4 * GiB, Z)], ("extract-factory",))
        add("brotli-zeros-3g", F("Brotli"), [(3 * GiB, Z)], ("extract-factory",))
        add("deflate64-zeros-2g", F("Deflate64"), [(2 * GiB, Z)], ("extract-factory",))
        add("copy-random-3g", F("Copy"), [(3 * GiB, X)], ("extract-factory", "testzip"))
        add("zstd-random-2g-between", F("ZStd"), small * 1500 + [(2 * GiB, X)] + small * 5, ("extract-factory",))
        add("ppmd-text", F("PPMd"), [(512 * MiB, T)], ("extract-factory",))
        add("bcj-ppmd-zeros", F("X86", "PPMd"), [(512 * MiB, Z)], ("extract-factory",))
        add("lzma-aes-period-2g", F("LZMA", "AES"), [(2 * GiB, P_)], ("extract-path",), password="pw")
        add("write-path-lzma2-text", F("LZMA2"), [(512 * MiB, T)], ("extract-path",), how="write")
    return cases


def run(tier, rep, ev):
    R = rng("c20")
    r = tlc.run("StreamMC", "StreamMC_mem.cfg", workers=16)
    ev.add_tlc(r, "StreamMC (resident memory: MemBound, InputBound, OutBound)")
    if not r.ok:
        rep.note_drift(f"Stream memory model violates {r.violated}")
    for cfg, want in (("StreamMC_mem_ignoring.cfg", "MemBound"), ("StreamMC_mem_nodrain.cfg", "InputBound")):
        rn = tlc.run("StreamMC", cfg, workers=4)
        ev.cov.setdefault("negative_controls", {})[cfg] = rn.violated or "NOTHING"
        if rn.ok:
            raise MachineryError(f"negative control {cfg} failed: {want} is not violated")
    base = scratch("c20w")
    cases = plan(tier, R)
    if os.environ.get("VERIF_C20_ONLY"):
        cases = [c for c in cases if any(w in c["name"] for w in os.environ["VERIF_C20_ONLY"].split(","))]      # (debugging aid)
    for k, c in enumerate(cases):
        c["wd"] = os.path.join(base, f"c{k}")
    # the heaviest first; a handful at a time (every child may hold several hundred MiB, outputs go to a RAM disk)
    order = sorted(range(len(cases)), key=lambda i: -sum(m[0] for m in cases[i]["members"]) * len(cases[i]["modes"]))
    results = {}
    with concurrent.futures.ThreadPoolExecutor(max_workers=12 if tier == "quick" else 8) as ex:
        futs = {ex.submit(run_big, cases[i]): i for i in order}
        for f in concurrent.futures.as_completed(futs):
            i = futs[f]
            try:
                results[i] = f.result()
            except MachineryError:
                raise
            except Exception as e:  # noqa
                raise MachineryError(f"case {cases[i]['name']}: {type(e).__name__}: {e}")
    traces, origins, table = [], [], []
    # isolate the delegated Deflate64 library: when a Deflate64 process is over budget, does inflate64 ALONE keep what it is fed?
    budget_kb = 700 * 1024
    suspects = [(i, j) for i, c in enumerate(cases) if any(f["id"] == FID["Deflate64"] for f in c["filters"])
                for j, (origin, events, rawres) in enumerate(results[i]) if rawres.get("peak_kb", 0) - rawres.get("base_kb", 0) > budget_kb]
    if suspects:
        env = dict(os.environ, PYTHONHASHSEED="0")
        r = subprocess.run([sys.executable, "-m", "harness.bigmem", "--inflate64-alone", "300"], cwd=VERIF, env=env, capture_output=True, text=True, timeout=600)
        try:
            alone = json.loads(r.stdout.strip().splitlines()[-1])
        except Exception:  # noqa
            raise MachineryError(f"inflate64 isolation run failed: {r.stderr[-300:]}")
        ev.cov["inflate64_alone"] = alone
        leaks = alone["deflater_left_mib"] >= 150 or alone["inflater_left_mib"] >= 150
        for (i, j) in suspects:
            origin, events, rawres = results[i][j]
            if leaks:
                rep.violation("delegated-codec:inflate64:leak",
                              f"{cases[i]['name']} {origin['phase']}: {(rawres['peak_kb'] - rawres['base_kb']) // 1024} MiB over baseline; inflate64 alone keeps "
                              f"{alone['deflater_left_mib']} MiB (Deflater) / {alone['inflater_left_mib']} MiB (Inflater) of 300 MiB after its objects are gone",
                              {"case": cases[i]["name"], "alone": alone})
                results[i][j] = (origin, [e for e in events if e["e"] != "rss"], rawres)      # the steps are still validated
    # isolate the delegated PPMd library: when a PPMd process fails or dies, does pyppmd ALONE survive the same members, streamed the same way?
    for i, c in enumerate(cases):
        if not any(f["id"] == FID["PPMd"] for f in c["filters"]):
            continue
        failed = [j for j, (origin, events, rawres) in enumerate(results[i]) if rawres.get("error") or rawres.get("died") or rawres.get("timeout")]
        if not failed:
            continue
        env = dict(os.environ, PYTHONHASHSEED="0")
        try:
            r = subprocess.run([sys.executable, "-m", "harness.bigmem", "--pyppmd-alone", json.dumps(c["members"])], cwd=VERIF, env=env, capture_output=True,
                               text=True, timeout=1800)
            line = r.stdout.strip().splitlines()[-1] if r.stdout.strip() else ""
            alone = json.loads(line)["pyppmd_alone"] if line.startswith("{") else f"process died (exit status {r.returncode})"
        except subprocess.TimeoutExpired:
            alone = "did not finish"
        ev.cov.setdefault("pyppmd_alone", {})[c["name"]] = alone
        if alone != "ok":
            for j in failed:
                origin, events, rawres = results[i][j]
                rep.violation("delegated-codec:pyppmd", f"{c['name']} {origin['phase']}: {rawres.get('error')}; pyppmd alone on the same members: {alone}",
                              {"case": c["name"], "alone": alone})
            results[i] = [x for j, x in enumerate(results[i]) if j not in failed]
    for i, c in enumerate(cases):
        for (origin, events, rawres) in results[i]:
            desc = {k: v for k, v in origin.items() if k not in ("wd", "members")}
            desc["members"] = f"{len(c['members'])} members, largest {max(m[0] for m in c['members'])} bytes"
            ev.case(json.dumps(desc, sort_keys=True, default=str))
            traces.append(events)
            origins.append(desc)
            if "peak_kb" in rawres:
                table.append({"case": c["name"], "phase": origin["phase"], "over_baseline_mib": round((rawres["peak_kb"] - rawres["base_kb"]) / 1024, 1),
                              "steps": sum(1 for e in events if e["e"] == "call"), "wall": rawres.get("wall")})
    ev.cov["peak_over_baseline_mib"] = table
    ev.cov["worst_mib"] = max(t["over_baseline_mib"] for t in table) if table else None
    ev.sample({"case": origins[0], "trace": traces[0][:6]})
    validate("C20", traces, rep, ev, spec="TraceMem", cfg="TraceMem.cfg", classify_fn=classify, origins=origins, batch=40)
    ev.cov["exhaustive"] = False
    ev.cov["rule"] = ("design: TLC over all sizes/ratios/positions within the model bounds; code: one large member per codec family and chain class, "
                      "three textures, three read paths, three write paths, solid positions, scaled chunk limit, hostile declared sizes; "
                      "peak RSS of fresh processes against the 700 MiB budget")
    ev.assumptions += ["ru_maxrss of a fresh process, baseline taken after importing py7zr", "members up to 1 GiB in quick, 4 GiB in thorough",
                       "64 MiB allowed as constant overshoot of soft output limits (Brotli, one Deflate64 slice)"]
    shutil.rmtree(base, ignore_errors=True)


def replay(path, rep, ev):
    from ..common import unhex

    r = unhex(json.load(open(path))["replay"])
    case = dict(r.get("origin") or r.get("case"))
    print("replay is a re-run of the named case:", case.get("name"))
    cases = [c for c in plan("thorough", rng("c20")) if c["name"] == case.get("name")]
    if not cases:
        print("unknown case")
        return
    c = cases[0]
    c["wd"] = os.path.join(scratch("c20r"), "c")
    for origin, events, raw in run_big(c):
        print(origin["phase"], {k: raw.get(k) for k in ("error", "base_kb", "peak_kb", "wall")})
