"""C11  Encryption: nothing leaks, nothing is delivered without the right password.

D  Crypto.tla: configuration machine of a write session (password, chain ends in 7zAES, constructor flag, set_encrypted_header,
   set_encoded_header_mode) -> header mode, NamesProtected, ContentProtected; invariant Consistent.
R  configurations and setter sequences (all of length <= 2 from the model's alphabet, sampled) x chains ending in 7zAES
   (AES alone, Copy+AES, compressors, BCJ/Delta in front) x passwords over Unicode incl. empty and non-BMP; archives carry
   marker plaintext (>= 24 bytes) and marker names (>= 6 characters); every archive is written twice (twin).
T  facts derived from the bytes (marker search in raw bytes, keyless decode by the independent reader, IVs and ciphertexts
   of the twins) and the outcomes of open/getnames/extractall with right / absent / wrong passwords (different, prefix,
   case-changed) are validated by TLC against TraceCrypto.
"""
import hashlib
import io
import itertools
import json
import os

from .. import tlc, sandbox, layouts, roundtrip
from ..common import import_py7zr, rng, scratch, MachineryError
from .C15 import validate

LEVEL = "model_checking"

MARK = b"<<MARKER-PLAINTEXT-%02d-0123456789abcdef>>"
NAMEMARK = "NAMEMARKER-%02d-äöü"


def run_case(case):
    py7zr = import_py7zr()
    import random
    R = random.Random(case["seed"])
    pw = case["password"]
    chain = case["chain"]
    filters = roundtrip.make_filters(chain, R, params=False) if chain else None
    members = []
    for i in range(case.get("nmembers", 3)):
        body = (MARK % i) * R.choice([1, 3, 40]) + bytes(R.getrandbits(8) for _ in range(R.choice([0, 7, 100])))
        members.append((f"dir/{NAMEMARK % i}.txt", body))

    def write_cli():
        # the command line: `py7zr c -P [-v SIZE] arc.7z dir` asks for the password (fed through stdin) - with and without volumes
        import glob
        import shutil
        import subprocess
        import sys
        import tempfile
        from ..common import REPO
        wd = tempfile.mkdtemp(prefix="c11-", dir="/dev/shm" if os.path.isdir("/dev/shm") else None)
        try:
            for n, d in members:
                p = os.path.join(wd, n)
                os.makedirs(os.path.dirname(p), exist_ok=True)
                with open(p, "wb") as f:
                    f.write(d)
            args = [sys.executable, "-m", "py7zr", "c", "-P"] + (["-v", case["vol"]] if case.get("vol") else []) + ["arc.7z", "dir"]
            r = subprocess.run(args, cwd=wd, env=dict(os.environ, PYTHONPATH=REPO), input=pw + "\n", capture_output=True, text=True, timeout=120)
            if r.returncode != 0:
                raise RuntimeError(f"cli exit {r.returncode}: {r.stderr[-200:]}")
            parts = sorted(glob.glob(os.path.join(wd, "arc.7z.[0-9]*"))) or [os.path.join(wd, "arc.7z")]
            return b"".join(open(x, "rb").read() for x in parts)
        finally:
            shutil.rmtree(wd, ignore_errors=True)

    def write():
        if case.get("via") == "cli":
            return write_cli()
        bio = io.BytesIO()
        kw = {}
        if case["hdrenc_ctor"]:
            kw["header_encryption"] = True
        how = case.get("open", "w")
        first = 0
        if how == "a-existing":              # an earlier session (same password, same chain) wrote the first member
            z0 = py7zr.SevenZipFile(bio, "w", filters=filters, password=pw, **({} if case.get("base_sets") else kw))
            for which, m in case.get("base_sets", []):       # ... possibly with another header form (raw, encoded, encrypted)
                (z0.set_encrypted_header if which == "encrypted" else z0.set_encoded_header_mode)(m)
            z0.writestr(members[0][1], members[0][0])
            z0.close()
            bio.seek(0)
            first = 1
        z = py7zr.SevenZipFile(bio, "w" if how == "w" else "a", filters=filters, password=pw, **kw)
        for which, m in case["sets"]:
            (z.set_encrypted_header if which == "encrypted" else z.set_encoded_header_mode)(m)
        for n, d in members[first:]:
            z.writestr(d, n)
        z.close()
        return bio.getvalue()

    a, b = write(), write()
    aes = "AES" in (chain or []) or (chain is None and pw is not None)
    trace = [{"e": "cfg", "pw": pw is not None, "aes": aes, "hdrenc": bool(case["hdrenc_ctor"])}]
    trace += [{"e": "set", "which": w, "m": m} for w, m in case["sets"]]
    # ---- facts from the bytes
    raw_content = any((MARK % i) in a for i in range(len(members)))
    raw_names = any((NAMEMARK % i).encode("utf-16-le") in a or (NAMEMARK % i).encode() in a for i in range(len(members)))
    nokey_content = nokey_names = False
    mode = "?"
    ivs = {"a": [], "b": []}
    folders_aes = True
    cipher = {"a": b"", "b": b""}
    try:
        end = 32 + int.from_bytes(a[12:20], "little") + int.from_bytes(a[20:28], "little")
        P = layouts.read_archive(a[:end], None, strict=False, decode=True)
        nokey_names = any(NAMEMARK % i in m["name"] for m in P.members for i in range(len(members)))
        nokey_content = any(m["data"] and (MARK % i) in m["data"] for m in P.members for i in range(len(members)))
    except layouts.NeedPassword:
        pass
    except layouts.RefCodecError:
        pass
    for tag, raw in (("a", a), ("b", b)):
        try:
            end = 32 + int.from_bytes(raw[12:20], "little") + int.from_bytes(raw[20:28], "little")
            P = layouts.read_archive(raw[:end], pw, strict=False, decode=False)
            if tag == "a":
                hc = [c["method"] for c in (P.header_coders or [])]
                mode = "aes" if "06f10701" in hc else ("lzma" if P.header_mode == "encoded" else "raw")
            for fo in P.folders:
                if not any(c["method"] == "06f10701" for c in fo["coders"]):
                    folders_aes = False
                for c in fo["coders"]:
                    if c["method"] == "06f10701":
                        ivs[tag].append(c["props"])
            for c in (P.header_coders or []):
                if c["method"] == "06f10701":
                    ivs[tag].append(c["props"])
                    for x, y in P.regions.get("hdrpack", []):
                        cipher[tag] += raw[x:y]
            for fi, fo in enumerate(P.folders):
                if any(c["method"] == "06f10701" for c in fo["coders"]):
                    for x, y in P.regions.get(f"pack{fi}", []):
                        cipher[tag] += raw[x:y]
        except layouts.RefCodecError:
            mode = mode if mode != "?" else "unparsed"
    iv_fresh = not (set(ivs["a"]) & set(ivs["b"])) and len(set(ivs["a"])) == len(ivs["a"])
    blocks_a = {cipher["a"][i:i + 16] for i in range(0, len(cipher["a"]) - 15, 16)}
    shared = sum(1 for i in range(0, len(cipher["b"]) - 15, 16) if cipher["b"][i:i + 16] in blocks_a)
    cipher_fresh = shared == 0          # no ciphertext block of one archive occurs in its twin
    trace.append({"e": "facts", "raw_content": raw_content, "raw_names": raw_names, "nokey_content": nokey_content, "nokey_names": nokey_names,
                  "mode": mode, "iv_fresh": iv_fresh, "cipher_fresh": cipher_fresh, "ivs": len(ivs["a"]), "folders_aes": folders_aes})
    # ---- readings
    wrongs = []
    if pw is not None:
        wrongs = [pw + "x", pw[:-1] if pw else "a", pw.swapcase() if pw.swapcase() != pw else pw + "́", "\U0001F511"]
        wrongs = [w for w in wrongs if w != pw]
    orig = {n: d for n, d in members}
    for kind, p in [("right", pw)] + ([("absent", None)] if pw is not None else []) + [("wrong", w) for w in wrongs]:
        ev = {"e": "read", "pwkind": kind, "opened": False, "listed": False, "delivered_good": 0, "delivered_bad": 0, "exc": "none"}
        try:
            z = py7zr.SevenZipFile(io.BytesIO(a), "r", password=p)
            ev["opened"] = True
            names = z.getnames()
            ev["listed"] = any(NAMEMARK % 0 in n for n in names)
            fac = py7zr.io.BytesIOFactory(1 << 28)
            try:
                z.extractall(factory=fac)
            finally:
                for n, prod in fac.products.items():
                    d = prod.read()
                    if n in orig and d == orig[n]:
                        ev["delivered_good"] += 1
                    elif len(d) > 0 and kind == "right":
                        ev["delivered_bad"] += 1
                z.close()
        except Exception as e:  # noqa
            ev["exc"] = type(e).__name__
        trace.append(ev)
    return trace


def classify(tr, l):
    e = tr[l - 1] if 0 < l <= len(tr) else {}
    key = "trace-rejected:" + e.get("e", "?")
    if e.get("e") == "facts":
        leaks = [k for k in ("raw_content", "raw_names", "nokey_content", "nokey_names") if e.get(k)]
        key += ":" + ("leak:" + "+".join(leaks) if leaks and (e.get("mode") == "aes" or "content" in "+".join(leaks)) else ("iv-or-ciphertext-reused" if not (e.get("iv_fresh") and e.get("cipher_fresh")) else "header-mode=" + str(e.get("mode"))))
    if e.get("e") == "read":
        key += f":{e.get('pwkind')}:exc={e.get('exc')}:good={e.get('delivered_good')}:bad={e.get('delivered_bad')}"
    return key, e


def run(tier, rep, ev):
    R = rng("c11")
    r = tlc.run("Crypto", "Crypto.cfg", workers=4)
    ev.add_tlc(r, "Crypto (configuration machine)")
    if not r.ok:
        rep.note_drift(f"Crypto model violates {r.violated}")
    chains = [["AES"], ["Copy", "AES"], ["LZMA2", "AES"], ["LZMA", "AES"], ["BZip2", "AES"], ["Deflate", "AES"], ["ZStd", "AES"], ["Brotli", "AES"],
              ["X86", "LZMA2", "AES"], ["Delta", "LZMA2", "AES"], ["ARM", "BZip2", "AES"], None]
    passwords = ["secret", "", "pä ß", "\U0001F511\U0001F600", "a" * 40, "Ключ", "a\u0308 not composed", "\u1100\u1161\u11a8"]      # incl. strings that are not in NFC
    setseqs = [[]] + [[(w, m)] for w in ("encrypted", "encoded") for m in (True, False)] + \
              [[(w1, m1), (w2, m2)] for w1 in ("encrypted", "encoded") for m1 in (True, False) for w2 in ("encrypted", "encoded") for m2 in (True, False)]
    cases = []
    k = 0
    if tier == "quick":
        # every setter sequence with and without the constructor flag, chains and passwords in rotation
        for si, ss in enumerate(setseqs):
            for ctor in (False, True):
                k += 1
                cases.append({"chain": chains[k % len(chains)], "password": passwords[k % len(passwords)], "hdrenc_ctor": ctor, "sets": ss, "seed": k,
                              "nmembers": 1 + k % 3})
    else:
        for ch in chains:
            for ss in setseqs:
                for ctor in (False, True):
                    k += 1
                    cases.append({"chain": ch, "password": passwords[k % len(passwords)], "hdrenc_ctor": ctor, "sets": ss, "seed": k, "nmembers": 1 + k % 3})
    # the default chain (filters=None) with every password, the empty one included, in every way a write session can start
    for pi, p in enumerate(passwords):
        for hi, how in enumerate(("w", "a-fresh", "a-existing")):
            k += 1
            cases.append({"chain": None, "password": p, "hdrenc_ctor": bool((pi + hi) % 2), "sets": [], "seed": k, "nmembers": 2 + k % 2, "open": how})
    # append sessions on a base whose header has another form: the session's own configuration decides what is written
    for bs in ([("encoded", False)], [("encrypted", True)], [("encoded", True)]):
        for ctor in (True, False):
            for ss in ([], [("encrypted", True)], [("encoded", False)]):
                k += 1
                cases.append({"chain": [None, ["LZMA2", "AES"], ["Copy", "AES"]][k % 3], "password": passwords[k % len(passwords)] or "pw", "hdrenc_ctor": ctor,
                              "sets": ss, "seed": k, "nmembers": 2, "open": "a-existing", "base_sets": bs})
    for vol in (None, "1k", "3000", "1m"):
        k += 1
        cases.append({"chain": None, "password": ["secret", "pä ß", "Ключ", "a" * 40][k % 4], "hdrenc_ctor": False, "sets": [], "seed": k, "nmembers": 3, "via": "cli", "vol": vol})
    for how in ("a-fresh", "a-existing"):
        for ch in (chains[:4] if tier == "quick" else chains[:-1]):
            k += 1
            cases.append({"chain": ch, "password": passwords[k % len(passwords)], "hdrenc_ctor": bool(k % 2), "sets": [], "seed": k, "nmembers": 2, "open": how})
    # no password at all: nothing protected, nothing required
    cases.append({"chain": ["LZMA2"], "password": None, "hdrenc_ctor": False, "sets": [], "seed": 1})
    cases.append({"chain": ["Copy"], "password": None, "hdrenc_ctor": False, "sets": [("encoded", False)], "seed": 2})
    outs = sandbox.run_cases(run_case, cases, timeout=120, nproc=16)
    traces, origins = [], []
    for c, o in zip(cases, outs):
        ev.case(json.dumps(c, sort_keys=True))
        if o.status == "ok":
            traces.append(o.value)
            origins.append(c)
        elif o.status != "skipped":
            rep.violation(f"session-{o.status}:" + str(o.value[0] if isinstance(o.value, tuple) else o.value)[:50],
                          f"{o.value} {o.detail[-400:]}", {"case": c})
    ev.sample({"case": cases[3], "trace": traces[3]})
    validate("C11", traces, rep, ev, spec="TraceCrypto", cfg="TraceCrypto.cfg", classify_fn=classify, origins=origins)
    ev.cov["rule"] = ("12 chains ending in 7zAES (and the default chain) x setter sequences of length <= 2 x constructor flag x 6 passwords; each "
                      "archive written twice; read with right / absent / 3-4 wrong passwords")
    ev.assumptions += ["absence of marker plaintext / names in the bytes and in a keyless decode, and IV / ciphertext-block freshness between twins, "
                       "are observations; nothing is claimed about key-derivation strength"]


def replay(path, rep, ev):
    from ..common import unhex

    r = unhex(json.load(open(path))["replay"])
    o = sandbox.run_one(run_case, r.get("origin") or r.get("case"), timeout=120)
    print(json.dumps(o.value, indent=0)[:4000] if o.status == "ok" else (o.status, o.value, o.detail))
