"""C07  Writer conformance: output is well-formed 7z that an independent reader accepts.

D  HeaderGrammar.tla: the 7z header grammar as a state machine with the count agreements between sections (streams / folders /
   coder out-streams / substreams / files / empty-stream and empty-file vectors / property sizes).  Codec.tla's PropSize
   formulas are checked in C17's design run.
T  archives written by py7zr (every chain the constructor accepts, raw / encoded / encrypted header, password, member lists
   with directories, empty files and symlinks, 1..3 append sessions with different chains) are parsed by the independent
   reference reader in STRICT mode (signature header offsets/sizes/CRCs describe the bytes on disk, packed sizes tile the data
   area, declared sizes and CRCs equal the content, property sizes exact) and decoded with its own codec glue and 7zAES key
   derivation; the token stream of each header is validated by TLC against HeaderGrammar, the recovered members against what
   was written.
"""
import hashlib
import io
import json
import os
import random
import shutil

from .. import tlc, sandbox, roundtrip, layouts
from ..common import import_py7zr, rng, scratch, MachineryError
from .C15 import validate

LEVEL = "model_checking"


def norm_tokens(tokens):
    """refcodec's mixed token list -> uniform records for TLC"""
    out = []
    prev = None
    for t in tokens:
        if isinstance(t, str):
            out.append({"t": t})
            prev = t
            continue
        if isinstance(t, dict):
            if "numstreams" in t:
                out.append({"t": "PackHead", "packpos": min(t["packpos"], 2 ** 30), "numstreams": t["numstreams"]})
            elif "numfiles" in t:
                out.append({"t": "FilesHead", "numfiles": t["numfiles"]})
            elif "n" in t and len(t) == 1:
                out.append({"t": "FolderHead", "n": t["n"]})
            elif "external" in t and len(t) == 1:
                out.append({"t": "External", "external": t["external"]})
            elif "coders" in t:
                out.append({"t": "FolderRec", "ncoders": len(t["coders"]), "nout": sum(c["nout"] for c in t["coders"]),
                            "nin": sum(c["nin"] for c in t["coders"]), "nbind": len(t["bindpairs"])})
            elif "defined" in t and "crcs" in t:
                out.append({"t": "Digests", "n": len(t["defined"]), "ndefined": sum(t["defined"]), "ncrcs": len(t["crcs"])})
            elif "prop" in t:
                r = {"t": "Prop", "prop": t["prop"], "size": t.get("size", 0), "nbits": 0, "nset": 0, "external": 0, "count": 0, "bytes": 0,
                     "n": 0, "ndefined": 0, "alldef": False}
                if "bits" in t:
                    r["nbits"], r["nset"] = len(t["bits"]), sum(t["bits"])
                if t["prop"] == "Names":
                    r["external"] = t.get("external", 0)
                    r["count"] = t.get("count", -1)
                    r["bytes"] = t.get("size", 0) - 1
                if "defined" in t:
                    r["n"], r["ndefined"] = len(t["defined"]), sum(t["defined"])
                    r["alldef"] = bool(t.get("alldefined", r["ndefined"] == r["n"] and t.get("size", 0) == 2 + r["ndefined"] * (4 if t["prop"] == "Attributes" else 8)))
                out.append(r)
            else:
                out.append({"t": "Unknown", "keys": sorted(t.keys())})
        elif isinstance(t, list):
            if t and isinstance(t[0], list):
                out.append({"t": "FolderSizes", "counts": [len(x) for x in t], "n": len(t)})
            else:
                out.append({"t": "Nums", "n": len(t), "vals": [min(int(x), 2 ** 30) for x in t]})
    return out


def make_archive(case):
    """write an archive with py7zr; returns (raw, expected members [(name, kind, data)], password)"""
    py7zr = import_py7zr()
    R = random.Random(case["seed"])
    wd = case["wd"]
    os.makedirs(wd, exist_ok=True)
    pw = case.get("password")
    bio = io.BytesIO()
    exp = []
    for s, sess in enumerate(case["sessions"]):
        bio.seek(0)
        filt = roundtrip.make_filters(sess["chain"], R, params=False) if sess.get("chain") else None
        spw = sess["password"] if "password" in sess else pw      # sessions may differ in whether they encrypt
        z = py7zr.SevenZipFile(bio, "w" if s == 0 else "a", filters=filt, password=spw)
        if sess.get("header") == "raw":
            z.set_encoded_header_mode(False)
        elif sess.get("header") == "encrypted" and spw:
            z.set_encrypted_header(True)
        for k, m in enumerate(sess["members"]):
            name = f"s{s}/{['a', 'ü', '日本', 'sp ace', 'e\U0001F600moji', '\U00020BB7x\U00010348'][k % 6]}{k}"
            if m == "dir":
                p = os.path.join(wd, f"d{s}_{k}")
                os.makedirs(p, exist_ok=True)
                z.write(p, name)
                exp.append((name, "dir", None))
            elif m == "symlink":
                p = os.path.join(wd, f"l{s}_{k}")
                with open(os.path.join(wd, f"tgt{s}_{k}"), "wb") as f:
                    f.write(b"x")
                os.symlink(f"tgt{s}_{k}", p)          # py7zr refuses dangling links
                z.write(p, name)
                exp.append((name, "symlink", f"tgt{s}_{k}".encode()))
            elif m == "tree":
                root = os.path.join(wd, f"t{s}_{k}")
                os.makedirs(os.path.join(root, "sub", "emptydir"))
                with open(os.path.join(root, "sub", "f.txt"), "wb") as f:
                    f.write(b"tree file")
                open(os.path.join(root, "zero"), "wb").close()
                z.writeall(root, name)
                exp += [(name, "dir", None), (name + "/sub", "dir", None), (name + "/sub/emptydir", "dir", None), (name + "/sub/f.txt", "file", b"tree file"),
                        (name + "/zero", "file", b"")]
            else:
                data = roundtrip.texture(R, R.choice(["random", "rep", "code"]), m)
                if k % 2:
                    z.writef(io.BytesIO(data), name)
                else:
                    z.writestr(data, name)
                exp.append((name, "file", data))
        z.close()
    shutil.rmtree(wd, ignore_errors=True)
    return bio.getvalue(), exp, pw


def check_case(case):
    raw, exp, pw = make_archive(case)
    rec = {"t": "Recovered", "strict_ok": True, "members_equal": True, "nfiles": len(exp), "why": ""}
    toks = []
    try:
        end = 32 + int.from_bytes(raw[12:20], "little") + int.from_bytes(raw[20:28], "little")
        P = layouts.read_archive(raw[:end] if end <= len(raw) else raw, pw, strict=True)
        toks = norm_tokens(P.tokens)
        if end < len(raw):
            # the signature header describes the bytes on disk: nothing may be left behind the end header it points at
            rec["strict_ok"], rec["why"] = False, f"TrailingBytes:{len(raw) - end} bytes of an earlier session left behind the end header"
        got = [(m["name"], m["kind"], m["data"]) for m in P.members]
        if len(got) != len(exp):
            rec["members_equal"], rec["why"] = False, f"{len(got)} members recovered, {len(exp)} written"
        for g, e in zip(got, exp):
            kind_ok = g[1] == e[1] or (e[1] == "file" and e[2] == b"" and g[1] in ("empty", "file"))
            data_ok = (g[2] or b"") == (e[2] or b"")
            if g[0] != e[0] or not kind_ok or not data_ok:
                rec["members_equal"], rec["why"] = False, f"member {e[0]!r}: name/kind/bytes differ ({g[0]!r}, {g[1]} vs {e[1]})"
                break
    except layouts.RefCodecError as e:
        rec["strict_ok"], rec["why"] = False, type(e).__name__ + ":" + str(e)[:200]
        try:
            P = layouts.read_archive(raw, pw, strict=False, decode=False)
            toks = norm_tokens(P.tokens)
        except Exception:  # noqa
            toks = []
    if not toks:
        toks = [{"t": "EmptyArchive"}] if len(exp) == 0 and rec["strict_ok"] else toks
    return toks + [rec]


def classify(tr, l):
    e = tr[l - 1] if 0 < l <= len(tr) else {}
    if e.get("t") == "Recovered":
        if not e.get("strict_ok"):
            return "independent-reader-rejects:" + e.get("why", "").split(":")[1][:60] if ":" in e.get("why", "") else "independent-reader-rejects", e
        if not e.get("members_equal"):
            return "independent-reader-recovers-other-members", e
        return "count-mismatch:nfiles", e
    return f"not-a-sentence-of-the-grammar:at-{e.get('t')}:{e.get('prop', '')}", {"token": e, "before": tr[max(0, l - 4):l - 1]}


def run(tier, rep, ev):
    py7zr = import_py7zr()
    R = rng("c07")
    d = scratch("c07")
    out = os.path.join(d, "cfg.json")
    rc = tlc.run("Config", "Config.cfg", workers=4, env={"OUT_FILE": out})
    ev.add_tlc(rc, "Config (chains)")
    chains = [c["chain"] for c in json.load(open(out))["chains"] if c["valid"] and "Deflate64" not in c["chain"]]
    base = scratch("c07w")
    cases = []
    # sizes incl. the exact powers of 128 (the NUMBER encoding changes length there) and their neighbours
    mlists = [[], [5], [0], ["dir"], [40, "dir", 0, 300], ["dir", "dir"], [33, 17, 16], ["symlink", 20], ["tree"], [0, 0], [2000, "dir", "symlink", 0, 1],
              [16384], [128, 16384, 127], [16383, 16385, "dir"], [2097152], [2097151, 129, 2097153]]

    def add(sessions, pw):
        cases.append({"sessions": sessions, "password": pw, "seed": R.getrandbits(30), "wd": os.path.join(base, f"c{len(cases)}")})

    for k, ch in enumerate(chains):
        # pass phrases incl. strings that are not in Unicode normal form C (the key is derived from the UTF-16 code units as given)
        pw = ["pä\U0001F511", "a\u0308o\u0308 decomposed", "\u1100\u1161\u11a8 jamo"][k % 3] if ("AES" in ch or k % 7 == 0) else None
        # (PPMd: small members only - pyppmd 1.1.1 crashes on MiB-sized incompressible input also inside the reference reader)
        add([{"chain": ch, "header": ["encoded", "raw", "encrypted"][k % 3], "members": mlists[k % (11 if "PPMd" in ch else len(mlists))]}], pw)
    for k in range(150 if tier == "quick" else 1500):
        ns = R.choice([2, 2, 3])
        pw = "pw" if k % 5 == 0 else None
        pool = [c for c in chains if ("AES" in c) == bool(pw) and "PPMd" not in c]
        add([{"chain": R.choice(pool) if R.random() < 0.8 else None, "header": R.choice(["encoded", "raw"] + (["encrypted"] if pw else [])),
              "members": R.choice(mlists)} for _ in range(ns)], pw)
    # sessions that differ in encryption (plain then password, password then plain, alternating): the packed-stream digest vector and
    # the stream count must keep agreeing across sessions (seed C07-7)
    for k in range(24 if tier == "quick" else 240):
        pat = [[None, "pw"], ["pw", None], [None, "pw", None], ["pw", None, "pw"], [None, None, "pw"], ["pw", "pw", None]][k % 6]
        add([{"chain": None if (k // 6) % 2 == 0 else R.choice([c for c in chains if ("AES" in c) == bool(p) and "PPMd" not in c]),
              "password": p, "header": R.choice(["encoded", "raw"]), "members": R.choice(mlists[:11])} for p in pat], "pw")
    outs = sandbox.run_cases(check_case, cases, timeout=120, nproc=16)
    traces, origins = [], []
    for c, o in zip(cases, outs):
        desc = {k: v for k, v in c.items() if k != "wd"}
        ev.case(json.dumps(desc, sort_keys=True), nontrivial=True)
        if o.status == "ok":
            traces.append(o.value)
            origins.append(desc)
        elif o.status != "skipped":
            rep.violation(f"writer-{o.status}:" + str(o.value[0] if isinstance(o.value, tuple) else o.value)[:50],
                          f"writing or parsing failed: {o.value} {o.detail[-400:]}", {"case": desc})
    ev.sample({"case": origins[0], "tokens": traces[0][:12]})
    validate("C07", traces, rep, ev, spec="HeaderGrammar", cfg="HeaderGrammar.cfg", classify_fn=classify, origins=origins, batch=2000)
    ev.cov["rule"] = ("py7zr-written archives: constructor-accepted chains (all) x header mode x member lists incl. directories, zero-length "
                      "files, symlinks, trees; 2-3 append sessions with different chains; each parsed strictly and decoded by the reference reader")
    ev.assumptions += ["harness/refcodec is an independent implementation of docs/archive_format.rst incl. its own 7zAES key derivation"]
    shutil.rmtree(base, ignore_errors=True)


def replay(path, rep, ev):
    from ..common import unhex

    r = unhex(json.load(open(path))["replay"])
    case = r.get("origin") or r.get("case")
    case["wd"] = scratch("rp")
    o = sandbox.run_one(check_case, case, timeout=120)
    print(json.dumps(o.value, indent=0)[:4000] if o.status == "ok" else (o.status, o.value, o.detail))
