"""C08  Append preserves history.

D  WriteSession.tla with up to 3 sessions (create + 2 appends): AppendOnly (action property), Committed.
R  every fault-free history TLC enumerates (GenWriteSession: sessions <= 3, calls incl. directory members) is executed
   with a different filter chain / header mode per session, by path and by stream.
   Bases written by the independent reference writer (every layout option of C06) and the third-party fixtures are
   appended to with random sessions.
T  after every session the archive is read back by py7zr AND by the strict reference reader; TraceWriteSession checks
   members = all successful calls in order and that name/bytes/kind/mtime/attributes of earlier members never change.
"""
import json
import os
import shutil

from .. import tlc, sandbox, wsession, layouts, lifecycle
from ..common import import_py7zr, rng, scratch, MachineryError
from .C15 import validate

LEVEL = "model_checking"

D_CFG = """SPECIFICATION Spec
CONSTANT MaxCalls = 2
CONSTANT MaxSessions = 3
CONSTANT MaxFaults = 0
CONSTANT Rollback = TRUE
INVARIANT InStep
INVARIANT Committed
PROPERTY AppendOnly
CHECK_DEADLOCK FALSE
"""
GEN_CFG = """SPECIFICATION GSpec
CONSTANT MaxCalls = %d
CONSTANT MaxSessions = %d
CONSTANT MaxFaults = 0
CONSTANT Rollback = TRUE
CONSTRAINT Emit
INVARIANT Committed
CHECK_DEADLOCK FALSE
"""
CHAINS = [None, [{"id": 0x33}], [{"id": 0x21, "preset": 1}], [{"id": 0x32}], [{"id": 0x31}], [{"id": 3, "dist": 2}, {"id": 0x21, "preset": 1}],
          [{"id": 4}, {"id": 0x4000000000000001, "preset": 1}], [{"id": 0x35, "level": 1}], [{"id": 0x36, "order": 4, "mem": 16}],
          [{"id": 0x38}]]          # Deflate64


def execute(case):
    py7zr = import_py7zr()
    hist, opts, wd = case
    try:
        return wsession.run_history(py7zr, hist, wd, ref_reader=wsession.ref_reader, **{k: v for k, v in opts.items() if k != "base_id"})
    finally:
        shutil.rmtree(wd, ignore_errors=True)


def classify(tr, l):
    e = tr[l - 1] if 0 < l <= len(tr) else {}
    key = "trace-rejected:" + e.get("e", "?")
    if e.get("e") == "reopen":
        nsess = sum(1 for x in tr[:l] if x.get("e") in ("open", "base"))
        based = any(x.get("e") == "base" for x in tr)
        if not e.get("ok"):
            why = "py7zr-cannot-read:" + e.get("err", "").split(":")[0]
        elif e.get("ref", {}).get("present") and not e["ref"].get("ok"):
            why = "reference-reader-rejects:" + e["ref"].get("err", "")[:60]
        elif e.get("ref", {}).get("present") and e["ref"].get("members") != e.get("members"):
            why = "reference-reader-sees-other-members"
        else:
            why = "members-or-metadata-changed"
        key += f":session{nsess}:{'foreign-base' if based else 'py7zr-base'}:{why}"
    return key, e


def run(tier, rep, ev):
    py7zr = import_py7zr()
    R = rng("c08")
    r = tlc.run("WriteSession", cfg_text=D_CFG, workers=16, timeout=900)
    ev.add_tlc(r, "WriteSession(sessions<=3, calls<=2, no faults)")
    if not r.ok:
        rep.note_drift(f"I-level model violates {r.violated}")
    cases = []
    base = scratch("c08w")
    # ---- R1: TLC histories
    for (calls, sess) in ([(1, 3), (2, 2)] if tier == "quick" else [(2, 3), (3, 2)]):
        g = tlc.run("GenWriteSession", cfg_text=GEN_CFG % (calls, sess), workers=1, timeout=900)
        ev.add_tlc(g, f"GenWriteSession(calls<={calls},sessions<={sess})")
        hs = [json.loads(b) if isinstance(b, str) else b for b in g.prints.get("BEH", [])]
        if tier == "quick" and len(hs) > 500:
            hs = R.sample(hs, 500)
        elif len(hs) > 12000:
            hs = R.sample(hs, 12000)        # thorough: a bounded sample of the larger enumeration (every history executes real sessions)
        ev.cov.setdefault("histories_enumerated", {})[f"calls<={calls},sessions<={sess}"] = len(g.prints.get("BEH", []))
        for i, h in enumerate(hs):
            # (a caller's stream is used rewound, as the previous session left it, or standing at its end)
            opts = {"target": ["path", "stream", "path", "stream-asleft", "path", "stream-end"][i % 6],
                    "filters_by_session": {s: R.choice(CHAINS) for s in (1, 2, 3)},
                    "header_modes": {s: R.choice([None, None, "raw"]) for s in (1, 2, 3)}}
            cases.append((h, opts, os.path.join(base, f"g{calls}{sess}_{i}")))
    ev.sample({"tlc_history": cases[len(cases) // 2][0]})
    # with a password (constant over the history)
    for i in range(10 if tier == "quick" else 80):
        h = []
        for s in range(R.choice([2, 3])):
            h.append({"op": "open"})
            for _ in range(R.randrange(0, 3)):
                h.append({"op": "call", "k": R.choice(["writestr", "writef", "write", "writedir"]), "n": R.randrange(1, 6), "fault": "none"})
            h.append({"op": "close"})
        opts = {"target": R.choice(["path", "stream", "stream-asleft", "stream-end"]), "password": R.choice(["pw", "pä\U0001F511"]),
                "header_modes": {s: R.choice([None, "encrypted"]) for s in (1, 2, 3)}}
        cases.append((h, opts, os.path.join(base, f"p{i}")))
    # ---- R2: foreign bases: reference-writer layouts and fixtures
    nlay = 120 if tier == "quick" else 1500
    skipped = {"py7zr-cannot-read-base": 0, "unsupported": 0}
    bases = []
    for i in range(nlay):
        lay = layouts.gen_layout(R)
        for f in lay.get("files", []):
            # values other writers store and py7zr's own writer never does: attribute word 0, FILETIME 0 - DEFINED, and to be kept
            if f.get("kind") in ("file", "empty") and R.random() < 0.15:
                f["attrib"] = 0
            if R.random() < 0.1:
                f["mtime"] = 0
        if lay.get("password") is not None or lay.get("header") == "aes":
            lay["password"] = "secret"
        try:
            raw, _ = layouts.write_archive(lay)
            members = layouts.ref_members(raw, lay.get("password"))
        except layouts.RefCodecError:
            continue
        bases.append((f"layout:{layouts.describe(lay)[:300]}", raw, lay.get("password"), members))
    for name, raw, pw in layouts.fixture_archives():
        try:
            members = layouts.ref_members(raw, pw)
        except layouts.RefCodecError:
            skipped["unsupported"] += 1
            continue
        if sum(len(m["data"] or b"") for m in members) > 3_000_000:
            continue
        bases.append((f"fixture:{name}", raw, pw, members))
    nbase = 0
    for b in bases:
        nbase += 1
        h = []
        for s in range(R.choice([1, 1, 2])):
            h.append({"op": "open"})
            for _ in range(R.randrange(0, 4)):
                h.append({"op": "call", "k": R.choice(["writestr", "writef", "write", "writedir"]), "n": R.randrange(1, 6), "fault": "none"})
            h.append({"op": "close"})
        opts = {"target": R.choice(["path", "path", "stream", "stream-asleft", "stream-end"]), "password": b[2], "base": layouts.base_from_members(b[1], b[3]),
                "filters_by_session": {s: (R.choice(CHAINS) if b[2] is None else None) for s in (2, 3)}}
        opts["base_id"] = b[0][:600]
        cases.append((h, opts, os.path.join(base, f"b{nbase}")))
        ev.sample({"foreign_base": b[0][:200]}, cap=10)
    outs = sandbox.run_cases(execute, cases, timeout=90, nproc=16)
    traces, origins = [], []
    for (h, opts, _), o in zip(cases, outs):
        desc = json.dumps([h, {k: v for k, v in opts.items() if k != "base"}], default=str)
        ev.case(desc, nontrivial=sum(1 for x in h if x["op"] == "open") + (1 if "base" in opts else 0) >= 2)
        if o.status == "ok" and o.value and o.value[0].get("e") == "skip":
            skipped["py7zr-cannot-read-base"] += 1
            if os.environ.get("VERIF_DEBUG_SKIPS"):
                print("SKIP", o.value[0].get("why"), opts.get("base_id"))
        elif o.status == "ok":
            # creation / last-access times of the base's members, in the reference reader's view, after every session
            b0 = next((x for x in o.value if x.get("e") == "base"), None)
            if b0 and b0.get("times2"):
                for x in o.value:
                    t2 = (x.get("ref") or {}).get("times2")
                    if x.get("e") == "reopen" and x.get("ok") and t2 is not None and t2[:len(b0["times2"])] != b0["times2"]:
                        rep.violation("foreign-base:ctime-atime-dropped", "creation / last-access times of the base's members changed: "
                                      f"{b0['times2'][:3]} -> {t2[:3]}", {"hist": h, "base": opts.get("base_id")})
                        break
            for x in o.value:                          # (not part of what TLC judges)
                x.pop("times2", None)
                (x.get("ref") or {}).pop("times2", None)
            traces.append(o.value)
            oo = dict(opts)
            if "base" in oo:
                b = oo["base"]
                oo["base"] = [b[0], b[1], {str(k): v for k, v in b[2].items()}, {str(k): v for k, v in b[3].items()}]
            origins.append({"hist": h, "opts": oo})
        elif o.status == "hang":
            rep.violation("hang-in-append-session", f"history did not finish: {o.detail[-300:]}", {"hist": h})
        else:
            kind = str(o.value[0] if isinstance(o.value, tuple) else o.value)
            rep.violation("session-raised:" + kind, f"a fault-free append history raised {o.value} {o.detail[-500:]}",
                          {"hist": h, "opts": {k: v for k, v in opts.items() if k != "base"}, "base": "base" in opts})
    ev.cov["bases_skipped"] = skipped
    if traces:
        ev.sample({"trace": [{k: v for k, v in e.items() if k != "metas"} for e in traces[len(traces) // 2]][:12]})
    validate("C08", traces, rep, ev, classify_fn=classify, origins=origins)
    # ---- the appending object around its write calls: read-side calls in between, calls after close(), several closes, the caller's
    # stream standing anywhere (Lifecycle.tla; negative control: probing at the stream's position loses the base)
    rl = tlc.run("Lifecycle", "Lifecycle.cfg", workers=4)
    ev.add_tlc(rl, "Lifecycle(calls<=5)")
    if not rl.ok:
        rep.note_drift(f"Lifecycle model violates {rl.violated}")
    rln = tlc.run("Lifecycle", "Lifecycle_norewind.cfg", workers=4)
    ev.cov["negative_control_lifecycle"] = {"cfg": "Lifecycle_norewind.cfg", "violated": rln.violated or "NOTHING"}
    if rln.ok:
        raise MachineryError("negative control failed: an appender that probes at the stream's position satisfies AppendKeeps")
    lifecycle.run("C08", ("a",), tier, R, rep, ev, validate)
    ev.cov["exhaustive"] = False
    ev.cov["rule"] = ("TLC-enumerated fault-free histories (<=3 sessions) x random filter chain/header mode per session x path/stream; "
                      f"{nlay} reference-writer layouts + third-party fixtures as foreign bases with random append sessions; "
                      "non-trivial = at least two sessions (or a foreign base + one session)")
    ev.assumptions += ["foreign bases that py7zr cannot read correctly to begin with are skipped here (that is C06)",
                       "reference reader (harness/refcodec) is the independent oracle for metadata preservation"]
    shutil.rmtree(base, ignore_errors=True)


def _base_readable(case):
    """does py7zr read the foreign base correctly before any append?"""
    import io

    py7zr = import_py7zr()
    raw, pw, names, datas = case
    with py7zr.SevenZipFile(io.BytesIO(raw), password=pw) as z:
        if z.getnames() != names:
            return False
        fac = py7zr.io.BytesIOFactory(1 << 30)
        z.extractall(factory=fac)
        for n, d in zip(names, datas):
            if d is None:
                continue
            p = fac.products.get(n)
            if p is None or p.read() != d:
                return False
    return True


def replay(path, rep, ev):
    from .C15 import replay as rp

    rp(path, rep, ev)
