"""C19  The command line mirrors the library and its exit status tells the truth.

D  Cli.tla: every subcommand as a composition of library session actions followed by Exit(code); Succeeds(cmd, condition,
   option) in the library's terms; invariant Truthful (exit = 0 <=> succeeded) over all meaningful combinations.
R  every combination TLC enumerates is run as `python -m py7zr ...` in a subprocess: c / a / l / x / t / i x archive condition
   (intact, header damaged, data damaged, needs a password not given, unsupported method, absent, already existing) x options
   (-v SIZE with and without unit b/k/m/g and invalid sizes, --verbose, output directory given or not, archive name with
   or without .7z); trees of C02 go through c + x (TraceTree).
T  TraceCli: exit status 0 exactly when the operation succeeded, and then the effect equals the library's (extracted tree,
   listing = list(), earlier members undisturbed by a, volumes readable).
"""
import glob
import io
import json
import os
import shutil
import subprocess
import sys

from .. import tlc, sandbox, trees
from ..common import import_py7zr, rng, scratch, MachineryError, REPO
from .C15 import validate
from .C02 import tlc_trees

LEVEL = "model_checking"


def cli(args, cwd, timeout=120):
    env = dict(os.environ, PYTHONPATH=REPO, COLUMNS="200")
    r = subprocess.run([sys.executable, "-m", "py7zr"] + args, cwd=cwd, env=env, capture_output=True, text=True, timeout=timeout, stdin=subprocess.DEVNULL)
    return r.returncode, r.stdout, r.stderr


def make_src(wd):
    src = os.path.join(wd, "src")
    os.makedirs(os.path.join(src, "d1", "d2"))
    for rel, data in (("f0.txt", b"hello\n" * 50), ("d1/f1.bin", os.urandom(3000)), ("d1/d2/ü2.txt", b"unicode"), ("d1/empty", b"")):
        with open(os.path.join(src, rel), "wb") as f:
            f.write(data)
    os.makedirs(os.path.join(src, "d1", "emptydir"))
    return src


def lib_members(py7zr, path, password=None):
    with py7zr.SevenZipFile(path, password=password) as z:
        names = z.getnames()
        fac = py7zr.io.BytesIOFactory(1 << 28)
        z.extractall(factory=fac)
        return names, {n: p.read() for n, p in fac.products.items()}


def run_one(case):
    py7zr = import_py7zr()
    cmd, cond, opt, wd = case["cmd"], case["cond"], case["opt"], case["wd"]
    os.makedirs(wd, exist_ok=True)
    ev = {"e": "run", "cmd": cmd, "cond": cond, "opt": opt, "exit": -1, "effect_ok": True, "detail": ""}
    try:
        src = make_src(wd)
        arc = os.path.join(wd, "arc.7z")
        good = os.path.join(wd, "good.7z")
        with py7zr.SevenZipFile(good, "w") as z:
            z.writeall(src, "src")
        with py7zr.SevenZipFile(good, "a", filters=[{"id": py7zr.FILTER_DEFLATE}]) as z:
            z.writestr(b"second folder " * 40, "extra/second.txt")
        raw = bytearray(open(good, "rb").read())
        if cond == "intact":
            shutil.copy(good, arc)
        elif cond == "header-damaged":
            end = 32 + int.from_bytes(raw[12:20], "little")
            raw[end + 3] ^= 0x40
            open(arc, "wb").write(raw)
        elif cond == "data-damaged":
            raw[32 + 40] ^= 0xFF
            raw[32 + 41] ^= 0xFF
            open(arc, "wb").write(raw)
        elif cond == "needs-password":
            with py7zr.SevenZipFile(arc, "w", password="secret") as z:
                z.writeall(src, "src")
        elif cond == "unsupported-method":
            shutil.copy(os.path.join(REPO, "tests", "data", "lz4.7z" if case.get("variant", 0) % 2 == 0 else "lzma2bcj2.7z"), arc)
        elif cond == "exists":
            shutil.copy(good, arc)
        elif cond == "intact-empty":
            with py7zr.SevenZipFile(arc, "w"):
                pass
        elif cond == "intact-dirs":
            os.makedirs(os.path.join(wd, "only", "a", "b"))
            os.makedirs(os.path.join(wd, "only", "c"))
            with py7zr.SevenZipFile(arc, "w") as z:
                z.writeall(os.path.join(wd, "only"), "only")
        elif cond == "stored-damaged":
            with py7zr.SevenZipFile(arc, "w", filters=[{"id": py7zr.FILTER_COPY}]) as z:
                z.writeall(src, "src")
            raw2 = bytearray(open(arc, "rb").read())
            raw2[32 + [3, 40, 150][case.get("variant", 0) % 3]] ^= 0x01       # inside the stored data: only a member CRC can notice
            open(arc, "wb").write(raw2)
        elif cond == "noname-damaged":
            # a foreign archive whose damaged member carries the empty string as its name: the library's verdict is a falsy bad name
            from ..refcodec import write_archive
            blob, regions = write_archive({"files": [{"name": "", "data": b"nameless member " * 30}, {"name": "b.txt", "data": b"named member " * 30}],
                                           "folders": [{"nfiles": 2, "coders": [{"id": "copy"}], "crc": "substream"}]})
            raw2 = bytearray(blob)
            raw2[32 + 5] ^= 0x01
            open(arc, "wb").write(raw2)
        out = os.path.join(wd, "out")
        if cmd == "i":
            ev["exit"], so, se = cli(["i"], wd)
            ev["effect_ok"] = "7z" in so and "LZMA2" in so
        elif cmd == "c":
            target = arc if opt != "no-suffix" else arc[:-3]
            if opt == "dotted-name":
                # "arc.v1" must become "arc.v1.7z" (the suffix is appended, not substituted)
                target = os.path.join(wd, "arc.v1")
                arc = target + ".7z"
                if cond == "exists":
                    shutil.copy(good, arc)
            args = ["c", target, "src"]
            vol = {"vol-digits": "4096", "vol-b": "4096b", "vol-k": "4k", "vol-m": "1m", "vol-g": "1g", "vol-upper": "4K", "vol-tiny": "200b", "vol-bad-unit": "10x", "vol-empty": ""}.get(opt)
            if opt == "vol-tiny":
                import random as _r
                with open(os.path.join(wd, "src", "big.bin"), "wb") as f:      # enough data for about 2000 volumes of 200 bytes
                    f.write(_r.Random(5).randbytes(400000))
            if vol is not None:
                args = ["c", "-v", vol, target, "src"]
            ev["exit"], so, se = cli(args, wd)
            ev["detail"] = se[-200:]
            if ev["exit"] != 0 and opt == "vol-tiny" and "RecursionError" in se:
                # the delegated library alone: one write() that spans many volumes recurses once per volume boundary
                import multivolumefile
                import random as _r
                try:
                    with multivolumefile.MultiVolume(os.path.join(wd, "alone.bin"), mode="wb", volume=200, ext_digits=4) as mv:
                        mv.write(_r.Random(6).randbytes(400000))
                    ev["lib_alone"] = "ok"
                except RecursionError:
                    ev["lib_alone"] = "RecursionError"
                for fn in glob.glob(os.path.join(wd, "alone.bin.*")):
                    os.unlink(fn)
            if ev["exit"] == 0 and vol is None and not os.path.exists(arc):
                ev["effect_ok"] = False
                ev["detail"] = f"exit 0 but {os.path.basename(arc)} was not written; directory holds {sorted(os.listdir(wd))[:6]}"
            elif ev["exit"] == 0:
                if vol is None:
                    names, data = lib_members(py7zr, arc)
                else:
                    import multivolumefile
                    want_vol = {"vol-digits": 4096, "vol-b": 4096, "vol-k": 4096, "vol-m": 1 << 20, "vol-g": 1 << 30, "vol-upper": 4096, "vol-tiny": 200}[opt]
                    vols = sorted(glob.glob(arc + ".[0-9][0-9][0-9][0-9]"))
                    sizes = [os.path.getsize(v) for v in vols]
                    vol_ok = bool(vols) and all(x == want_vol for x in sizes[:-1]) and 0 < sizes[-1] <= want_vol
                    with multivolumefile.MultiVolume(arc, mode="rb", ext_digits=4) as mv:
                        with py7zr.SevenZipFile(mv) as z:
                            names = z.getnames()
                            fac = py7zr.io.BytesIOFactory(1 << 28)
                            z.extractall(factory=fac)
                            data = {n: p.read() for n, p in fac.products.items()}
                ev["effect_ok"] = "src/d1/d2/ü2.txt" in names and data.get("src/f0.txt") == b"hello\n" * 50 and "src/d1/emptydir" in names
                if vol is not None and not vol_ok:
                    ev["effect_ok"] = False
                    ev["detail"] = f"volume sizes {sizes[:4]} for -v {vol}"
        elif cmd == "a":
            before = lib_members(py7zr, arc) if cond == "intact" else None
            with open(os.path.join(wd, "new.txt"), "wb") as f:
                f.write(b"appended")
            raw_before = open(arc, "rb").read() if os.path.exists(arc) else None
            ev["exit"], so, se = cli(["a", arc, "new.txt"], wd)
            if raw_before is not None:
                ev["untouched"] = open(arc, "rb").read() == raw_before
            if ev["exit"] == 0:
                names, data = lib_members(py7zr, arc)
                ev["effect_ok"] = before is not None and names[:len(before[0])] == before[0] and all(data.get(k) == v for k, v in before[1].items()) \
                    and names[-1] == "new.txt" and data.get("new.txt") == b"appended"
        elif cmd == "l":
            ev["exit"], so, se = cli(["l", arc] + (["--verbose"] if opt == "verbose" else []), wd)
            if ev["exit"] == 0:
                with py7zr.SevenZipFile(arc, password="secret" if cond == "needs-password" else None) as z:
                    want = z.getnames()
                rows = [ln for ln in so.splitlines() if len(ln) > 53 and ln[:4].isdigit() and ln[4] == "-" and ln[7] == "-"]
                got = [ln[53:] for ln in rows]
                ev["effect_ok"] = got == want
                if not ev["effect_ok"]:
                    ev["detail"] = json.dumps({"got": got[:4], "want": want[:4]})
                if opt == "verbose":
                    ev["effect_ok"] = ev["effect_ok"] and "Method = " in so and "Blocks = " in so
        elif cmd == "x":
            args = ["x", arc] + ([] if opt == "cwd" else [out]) + (["--verbose"] if opt == "verbose" else [])
            xcwd = wd
            if opt == "cwd":
                xcwd = os.path.join(wd, "here")
                os.makedirs(xcwd)
                out = xcwd
            ev["exit"], so, se = cli(args, xcwd)
            ev["detail"] = (so + se)[-200:]
            if ev["exit"] == 0 and cond == "intact-empty":
                ev["effect_ok"] = True
            elif ev["exit"] == 0 and cond == "intact-dirs":
                ev["effect_ok"] = os.path.isdir(os.path.join(out, "only", "a", "b")) and os.path.isdir(os.path.join(out, "only", "c"))
            elif ev["exit"] == 0:
                ok = True
                for rel in ("f0.txt", "d1/f1.bin", "d1/d2/ü2.txt", "d1/empty"):
                    p = os.path.join(out, "src", rel)
                    ok = ok and os.path.isfile(p) and open(p, "rb").read() == open(os.path.join(src, rel), "rb").read()
                ok = ok and os.path.isdir(os.path.join(out, "src", "d1", "emptydir")) and os.path.isfile(os.path.join(out, "extra", "second.txt"))
                ev["effect_ok"] = ok
        elif cmd == "t":
            ev["exit"], so, se = cli(["t", arc], wd)
            ev["detail"] = (so + se)[-200:]
            if ev["exit"] == 0:
                ev["effect_ok"] = "Everything is Ok" in so
    except subprocess.TimeoutExpired:
        ev["exit"] = -9
        ev["detail"] = "timeout"
    finally:
        shutil.rmtree(wd, ignore_errors=True)
    return [ev]


def classify(tr, l):
    e = tr[0]
    if e.get("lib_alone") == "RecursionError":
        return "delegated-library:multivolumefile:recursion", e
    return f"cli:{e['cmd']}:{e['cond']}:{e['opt']}:exit={e['exit']}:effect={'ok' if e['effect_ok'] else 'WRONG'}", e


def run(tier, rep, ev):
    R = rng("c19")
    r = tlc.run("Cli", "Cli.cfg", workers=4)
    ev.add_tlc(r, "Cli (all meaningful combinations)")
    if not r.ok:
        rep.note_drift(f"Cli model violates {r.violated}")
    # enumerate the same combinations the model does
    combos = []
    for cmd, conds, opts in (("i", ["absent"], ["none"]),
                             ("c", ["absent", "exists"], ["none", "no-suffix", "dotted-name", "vol-digits", "vol-b", "vol-k", "vol-m", "vol-g", "vol-upper", "vol-tiny", "vol-bad-unit", "vol-empty"]),
                             ("a", ["intact", "absent", "header-damaged"], ["none"]),
                             ("l", ["intact", "intact-empty", "intact-dirs", "header-damaged", "data-damaged", "stored-damaged", "needs-password"], ["none", "verbose"]),
                             ("x", ["intact", "intact-empty", "intact-dirs", "header-damaged", "data-damaged", "stored-damaged", "noname-damaged", "needs-password", "unsupported-method"],
                              ["none", "verbose", "cwd"]),
                             ("t", ["intact", "intact-empty", "intact-dirs", "header-damaged", "data-damaged", "stored-damaged", "noname-damaged", "needs-password", "unsupported-method"], ["none"])):
        for c in conds:
            for o in opts:
                combos.append((cmd, c, o))
    base = scratch("c19w")
    cases = [{"cmd": a, "cond": b, "opt": c, "variant": k, "wd": os.path.join(base, f"c{k}")} for k, (a, b, c) in enumerate(combos)]
    outs = sandbox.run_cases(run_one, cases, timeout=200, nproc=16, slice_size=1)
    traces, origins = [], []
    for c, o in zip(cases, outs):
        desc = {k: v for k, v in c.items() if k != "wd"}
        ev.case(json.dumps(desc, sort_keys=True))
        if o.status == "ok":
            traces.append(o.value)
            origins.append(desc)
        elif o.status != "skipped":
            rep.violation(f"cli-harness-{o.status}:{c['cmd']}:{c['cond']}:{c['opt']}", f"{o.value} {o.detail[-300:]}", {"case": desc})
    ev.sample({"run": traces[5][0]})
    validate("C19", traces, rep, ev, spec="TraceCli", cfg="TraceCli.cfg", classify_fn=classify, origins=origins)
    # ---- c followed by x reproduces the tree (TraceTree)
    ts = tlc_trees(3 if tier == "quick" else 4, ev)
    ts = R.sample(ts, min(len(ts), 24 if tier == "quick" else 300))
    tcases = [{"nodes": t, "deref": False, "seed": i, "via": "cli", "wd": os.path.join(base, f"t{i}")} for i, t in enumerate(ts)]
    touts = sandbox.run_cases(trees.run_case, tcases, timeout=300, nproc=16, slice_size=1)
    ttr, tor = [], []
    for c, o in zip(tcases, touts):
        ev.case(("tree", json.dumps(c["nodes"])))
        if o.status == "ok":
            ttr.append(o.value)
            tor.append({k: v for k, v in c.items() if k != "wd"})
    from .C02 import classify as tclass
    validate("C19", ttr, rep, ev, spec="TraceTree", cfg="TraceTree.cfg", classify_fn=tclass, origins=tor)
    ev.cov["exhaustive"] = True
    ev.cov["rule"] = f"all {len(combos)} meaningful (subcommand, archive condition, option) combinations of Cli.tla + {len(tcases)} trees through c + x"
    shutil.rmtree(base, ignore_errors=True)


def replay(path, rep, ev):
    from ..common import unhex

    r = unhex(json.load(open(path))["replay"])
    case = r.get("origin") or r.get("case")
    case["wd"] = os.path.join(scratch("rp"), "c")
    o = sandbox.run_one(run_one if "cmd" in case else trees.run_case, case, timeout=300)
    print(json.dumps(o.value, indent=0)[:3000] if o.status == "ok" else (o.status, o.value, o.detail))
