"""C18  Progress callbacks give a complete, well-ordered account.

D  Parallel.tla with WithCallback = TRUE: Reporter takes events from the queue and runs the (arbitrarily slow) callback;
   invariants Ordered, Complete, NoneAfterClose, CloseNeverFails under every interleaving of workers, reporter and close();
   negative control: close() joining the reporter with a time limit (the tree before the repair) violates CloseNeverFails.
R  multi-folder and single-folder archives, extractall and extract(T) with skipped members, instantaneous and briefly blocking
   callbacks, worker interleavings forced by the write gates (schedules from TLC), sequential path as well.
T  every completed callback invocation, the return of extract and the return of close() are recorded in order; TraceParallel
   checks: preparation first, post-processing last, one start before one end per processed member, end carries the member's
   size, updates add up to the delivered bytes, everything delivered before close() returns and nothing after.
"""
import json
import os
import shutil

from .. import tlc, sandbox
from ..common import rng, scratch, MachineryError
from .C13 import MC, SHAPES, execute, schedules, classify
from .C15 import validate

LEVEL = "model_checking"


def run(tier, rep, ev):
    R = rng("c18")
    r = tlc.run("ParallelMC", cfg_text=MC % (2, "S22", "{}", "thread", "TRUE", "TRUE"), workers=8, timeout=900)
    ev.add_tlc(r, "ParallelMC(S22, thread, callback)")
    if not r.ok:
        rep.note_drift(f"Parallel model violates {r.violated}")
    r2 = tlc.run("ParallelMC", cfg_text=MC % (2, "S22", "{}", "seq", "TRUE", "TRUE"), workers=8, timeout=900)
    ev.add_tlc(r2, "ParallelMC(S22, seq, callback)")
    rn = tlc.run("ParallelMC", cfg_text=(MC % (2, "S22", "{}", "thread", "TRUE", "TRUE")).replace("JoinWaits = TRUE", "JoinWaits = FALSE"), workers=8)
    ev.cov["negative_control"] = {"cfg": "close() joins the reporter with a time limit", "violated": rn.violated or "NOTHING"}
    if rn.ok:
        raise MachineryError("negative control failed: join with timeout never fails")
    base = scratch("c18w")
    cases = []

    def add(**kw):
        kw["wd"] = os.path.join(base, f"c{len(cases)}")
        cases.append(kw)

    shapes = ["S22", "S212"] if tier == "quick" else ["S22", "S212", "S222", "S33"]
    for name in shapes:
        sch = schedules(name, ev)
        if len(sch) > (12 if tier == "quick" else 200):
            sch = R.sample(sch, 12 if tier == "quick" else 200)
        sizes = SHAPES[name]
        for k, s in enumerate(sch):
            add(sizes=sizes, mode="thread", schedule=s, sink="factory", callback="fast" if k % 2 else "slow", seed=k)
        add(sizes=sizes, mode="seq", sink="factory", callback="slow", seed=1)
        add(sizes=sizes, mode="thread", schedule=sch[0], sink="path", callback="slow", seed=2)
        # selective extraction: members of skipped folders / skipped predecessors
        last = len(sizes)
        add(sizes=sizes, mode="thread", schedule=[last] * len(sizes[-1]), sink="factory", callback="fast",
            targets=[f"f{last}/m{i}-ü.bin" for i in range(1, len(sizes[-1]) + 1)])
        add(sizes=sizes, mode="seq", sink="factory", callback="slow", targets=[f"f1/m{len(sizes[0])}-ü.bin"])
        # ... and skipped SUCCESSORS: members with streams behind the last selected one of their folder are passed over too,
        # and whatever is started must be ended (seed C18-7)
        add(sizes=sizes, mode="seq", sink="factory", callback="fast", targets=["f1/m1-ü.bin"])
        add(sizes=sizes, mode="thread", schedule=sch[len(sch) // 2], sink="factory", callback="slow",
            targets=[f"f{j}/m1-ü.bin" for j in range(1, last + 1)])
        add(sizes=sizes, mode="thread", schedule=sch[-1], sink="path", callback="fast", targets=[f"f{last}/m1-ü.bin"])
    # a reporter that has caught up with the workers and is held up inside its LAST handlers only: close() must still wait for
    # it (an empty queue means fetched, not delivered; seed C18-8)
    for k, name in enumerate(shapes):
        for cbm in ("slowpost", "slowlast"):
            add(sizes=SHAPES[name], mode="seq", sink="factory", callback=cbm, seed=k)
            add(sizes=SHAPES[name], mode="thread", sink="path" if k % 2 else "factory", callback=cbm, seed=k + 1)
            add(sizes=SHAPES[name], mode="seq", sink="factory", callback=cbm, seed=k, targets=["f1/m1-ü.bin"])
    # two extractions with a callback in one session (reset in between)
    for k, name in enumerate(shapes):
        add(sizes=SHAPES[name], mode="thread" if k % 2 else "seq", sink="factory", callback="slow", repeat=2, seed=k)
        add(sizes=SHAPES[name], mode="seq" if k % 2 else "thread", sink="factory", callback="fast", repeat=3, seed=k)
    # extractions without a callback between / before / after those with one: nothing of theirs may reach a callback
    for k, name in enumerate(shapes):
        for nocb in ([1], [2], [1, 3], [2, 3]):
            add(sizes=SHAPES[name], mode=["thread", "seq"][(k + len(nocb) + nocb[0]) % 2], sink="factory", callback="fast" if nocb[0] == 1 else "slow",
                repeat=3 if 3 in nocb else 2, nocb=nocb, seed=k)
    # the process-parallel option with a callback (to a directory)
    for k, name in enumerate(shapes):
        add(sizes=SHAPES[name], mode="process", sink="path", callback="fast" if k % 2 else "slow", seed=k, schedule=[])
    # members larger than the decode chunk: several 'u' events per member must add up
    for k, name in enumerate(shapes):
        add(sizes=SHAPES[name], mode="thread" if k % 2 else "seq", sink="factory", callback="fast", limit=[300, 1000, 777][k % 3], seed=k)
        add(sizes=SHAPES[name], mode="thread", sink="path", callback="fast", limit=500, seed=k,
            targets=[f"f1/m{len(SHAPES[name][0])}-ü.bin"])
    # single folder archives
    for k in range(4 if tier == "quick" else 30):
        add(sizes=[[1, 2, 1][: 1 + k % 3]], mode="thread", sink="factory" if k % 2 else "path", callback="slow" if k % 2 else "fast", seed=k)
    outs = sandbox.run_cases(execute, cases, timeout=40, nproc=16)
    traces, origins = [], []
    for c, o in zip(cases, outs):
        desc = {k: v for k, v in c.items() if k != "wd"}
        ev.case(json.dumps(desc, sort_keys=True))
        if o.status == "ok":
            tr = o.value["trace"]
            if c.get("targets"):
                # with a selection, every member the extraction PROCESSES is reported (also skipped ones get start/end events);
                # the byte accounting is about the delivered ones
                pass
            traces.append(tr)
            origins.append(desc)
        elif o.status == "skipped":
            continue
        elif o.status == "hang":
            rep.violation(f"hang:{c['mode']}:{c.get('callback')}", f"extraction with callback did not finish: {o.detail[:500]}", {"case": desc})
        else:
            rep.violation(f"harness-{o.status}", f"{o.value} {o.detail[-500:]}", {"case": desc})
    ev.sample({"case": {k: v for k, v in cases[1].items() if k != "wd"}, "trace": traces[1]})
    validate("C18", traces, rep, ev, spec="TraceParallel", cfg="TraceParallel.cfg", classify_fn=classify, origins=origins)
    ev.cov["rule"] = ("shapes " + ",".join(shapes) + " x TLC schedules (sampled) x fast/slow callback; sequential; directory sink; extract(T) with skipped "
                      "folders and skipped predecessors; single-folder archives")
    shutil.rmtree(base, ignore_errors=True)


def replay(path, rep, ev):
    from .C13 import replay as rp

    rp(path, rep, ev)
