"""C02  Directory tree round trip with metadata (writeall -> extractall).

D  Tree.tla: Walk(T, deref) (the member list writeall produces, depth first in listing order, links stored or followed),
   Materialise, Expected; invariants RoundTrip and ParentsFirst for EVERY tree of <= 4 (quick) / 5 (thorough) nodes with
   directories, files, empty files and links to files and directories (sideways and upward-but-inside).
R  every tree TLC emits (sampled in quick) is created on disk with names over Unicode classes, permission bits from
   0o400..0o777 (files) / 0o500..0o777 (directories) and mtimes from 1970 to 2100 with sub-second parts, archived with
   writeall (arcname None / given, dereference off / on, default filters, with and without password) or
   pack_7zarchive+unpack_7zarchive, and extracted into an empty directory.
T  TraceTree: the extracted tree equals Expected(T, deref): same entries, kinds, bytes, link targets, permission bits,
   |mtime difference| <= 5 microseconds.
"""
import json
import os
import shutil

from .. import tlc, sandbox, trees
from ..common import rng, scratch, MachineryError
from .C15 import validate

LEVEL = "model_checking"
CFG = """SPECIFICATION Spec
CONSTANT MaxNodes = %d
INVARIANT RT
INVARIANT PF
CONSTRAINT Emit
CHECK_DEADLOCK FALSE
"""


def classify(tr, l):
    o = tr[1]
    if not o.get("ok"):
        return "roundtrip-raised:" + o.get("exc", "").split(":")[0] + (":deref" if tr[0]["deref"] else "") + ":" + tr[0]["via"], o
    bad = []
    for e in o.get("entries", []):
        if not e["data_ok"]:
            bad.append("bytes-or-target")
        if not e["mode_ok"]:
            bad.append("mode:" + e["what"])
        if e["ticks"] > 50:
            bad.append("mtime:" + e["what"])
    return "tree-differs:" + (",".join(sorted(set(bad))) or "entries") + (":deref" if tr[0]["deref"] else "") + ":" + tr[0]["via"], {"tree": tr[0], "obs": o}


def tlc_trees(n, ev):
    g = tlc.run("TreeMC", cfg_text=CFG % n, workers=1, timeout=1800, heap="8g")
    ev.add_tlc(g, f"TreeMC(<= {n} nodes)")
    if not g.ok:
        raise MachineryError(f"TreeMC: {g.violated}")
    return [json.loads(b) if isinstance(b, str) else b for b in g.prints.get("BEH", [])]


def run(tier, rep, ev):
    R = rng("c02")
    ts = tlc_trees(4 if tier == "quick" else 5, ev)
    ev.cov["trees_from_tlc"] = len(ts)
    if tier == "quick":
        ts = [t for t in ts if len(t) <= 2] + R.sample([t for t in ts if len(t) > 2], 450)
    elif len(ts) > 20000:
        ts = [t for t in ts if len(t) <= 3] + R.sample([t for t in ts if len(t) > 3], 20000)
    # a few deeper hand-made trees (depth 5, links to directories upward-but-inside)
    ts += [
        [{"k": "dir", "p": 0, "t": 0}, {"k": "dir", "p": 1, "t": 0}, {"k": "dir", "p": 2, "t": 0}, {"k": "dir", "p": 3, "t": 0}, {"k": "file", "p": 4, "t": 0},
         {"k": "link", "p": 4, "t": 2}, {"k": "empty", "p": 1, "t": 0}, {"k": "dir", "p": 0, "t": 0}],
        [{"k": "file", "p": 0, "t": 0}, {"k": "dir", "p": 0, "t": 0}, {"k": "link", "p": 2, "t": 1}, {"k": "dir", "p": 2, "t": 0}, {"k": "link", "p": 4, "t": 1},
         {"k": "empty", "p": 4, "t": 0}],
    ]
    # (index 11 mod 12: names by sibling position + the tree's entries at the archive root: a link to a sibling whose text equals a top-level name)
    pad = (11 - len(ts)) % 12
    ts += [[{"k": "file", "p": 0, "t": 0}]] * pad + [[{"k": "file", "p": 0, "t": 0}, {"k": "dir", "p": 0, "t": 0}, {"k": "file", "p": 2, "t": 0}, {"k": "link", "p": 2, "t": 3}]]
    base = scratch("c02w")
    cases = []
    for i, t in enumerate(ts):
        has_link = any(n["k"] == "link" for n in t)
        # dereference only where following links ends (Tree.tla's Acyclic): two directories linking to each other unfold without end
        for deref in ((False, True) if has_link and i % 2 == 0 and not trees.has_cycle(t) else (False,)):
            via = "shutil" if (i % 7 == 0 and not deref) else "api"
            cases.append({"nodes": t, "deref": deref, "seed": i, "via": via, "arcname": "given/name" if (i % 5 == 0 and via == "api") else None,
                          "arcroot": (i % 4 == 3 and via == "api"),
                          "spelling": ["plain", "dot", "abs", "slash", "climb", "inner"][(i // 4) % 6],
                          "password": "pw" if i % 11 == 0 and via == "api" else None, "wd": os.path.join(base, f"t{len(cases)}")})
    outs = sandbox.run_cases(trees.run_case, cases, timeout=60, nproc=16)
    traces, origins = [], []
    for c, o in zip(cases, outs):
        desc = {k: v for k, v in c.items() if k != "wd"}
        ev.case(json.dumps(desc, sort_keys=True), nontrivial=len(c["nodes"]) > 1)
        if o.status == "ok":
            traces.append(o.value)
            origins.append(desc)
        elif o.status != "skipped":
            rep.violation(f"harness-{o.status}", f"{o.value} {o.detail[-300:]}", {"case": desc})
    ev.sample({"case": origins[len(origins) // 2], "observed": traces[len(traces) // 2][1]})
    validate("C02", traces, rep, ev, spec="TraceTree", cfg="TraceTree.cfg", classify_fn=classify, origins=origins, batch=3000)
    ev.cov["exhaustive"] = tier != "quick"
    ev.cov["rule"] = ("trees of <= %d nodes from TLC (%s) + two deeper hand-made trees; x dereference off/on (trees with links) x writeall / "
                      "pack_7zarchive x arcname x password; modes and mtimes by seed") % (4 if tier == "quick" else 5, "all <= 2 nodes, 450 sampled" if tier == "quick" else "all or 20000 sampled")
    ev.assumptions += ["run as root on Linux: read-only files and directories are still readable/writable by the harness",
                       "listing order equals node order (names are prefixed with the node index)"]
    shutil.rmtree(base, ignore_errors=True)


def replay(path, rep, ev):
    from ..common import unhex

    r = unhex(json.load(open(path))["replay"])
    case = r.get("origin") or r.get("case")
    case["wd"] = os.path.join(scratch("rp"), "t")
    o = sandbox.run_one(trees.run_case, case, timeout=120)
    print(json.dumps(o.value, indent=0)[:4000] if o.status == "ok" else (o.status, o.value, o.detail))
