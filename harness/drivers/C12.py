"""C12  Read sessions are repeatable and never modify the archive.

D  ReadSession.tla: per-folder decoder cache, worker target map; invariant Repeatable (every result equals the result on a
   fresh open), action property Untouched.  Negative control: without the reset inside testzip() (tree before the fix)
   Repeatable is violated by testzip;testzip.
R  every call sequence of length <= 3 that the quantifier allows (GenReadSession; thorough: <= 4) over single- and
   multi-folder archives is executed, plain and encrypted, opened by path and from a stream, ended by close(), context
   manager exit, or an exception inside the with-block.
T  TraceReadSession: each call's result vs the specification, SHA-256 of the archive before/after.
"""
import json
import os

from .. import tlc, lifecycle
from ..common import rng, scratch, MachineryError
from . import _read
from .C15 import validate

LEVEL = "model_checking"
WRONG = ["writestr", "writef", "write", "writeall", "setters"]       # write-side calls made on a read-mode object

GEN = """SPECIFICATION GSpec
CONSTANT Archives <- MCArchives
CONSTANT MaxCalls = %d
CONSTANT TestZipResets = TRUE
CONSTANT WriteGuarded = TRUE
CONSTRAINT Emit
INVARIANT Repeatable
CHECK_DEADLOCK FALSE
"""


def run(tier, rep, ev):
    R = rng("c12")
    r = tlc.run("ReadSessionMC", "ReadSessionMC.cfg", workers=16)
    ev.add_tlc(r, "ReadSessionMC(calls<=3)")
    if not r.ok:
        rep.note_drift(f"I-level model violates {r.violated}")
    ru = tlc.run("ReadSessionMC", "ReadSessionMC_unguarded.cfg", workers=4)
    ev.cov["negative_control_wrongmode"] = {"cfg": "ReadSessionMC_unguarded.cfg", "violated": ru.violated or "NOTHING"}
    if ru.ok:
        raise MachineryError("negative control failed: write calls that reach the caller's stream satisfy Untouched")
    rx = tlc.run("ReadSessionMC", "ReadSessionMC_noextractreset.cfg", workers=4)
    ev.cov["negative_control_extract"] = {"cfg": "ReadSessionMC_noextractreset.cfg", "violated": rx.violated or "NOTHING"}
    if rx.ok:
        raise MachineryError("negative control failed: extract() continuing with spent decoders satisfies Repeatable")
    rn = tlc.run("ReadSessionMC", "ReadSessionMC_noreset.cfg", workers=4)
    ev.cov["negative_control"] = {"cfg": "ReadSessionMC_noreset.cfg", "violated": rn.violated or "NOTHING"}
    if rn.ok:
        raise MachineryError("negative control failed: testzip without reset satisfies Repeatable")
    g = tlc.run("GenReadSession", cfg_text=GEN % (3 if tier == "quick" else 4), workers=1, timeout=1200, heap="8g")
    ev.add_tlc(g, "GenReadSession")
    if not g.ok:
        raise MachineryError(f"GenReadSession: {g.violated}")
    behs = [json.loads(b) if isinstance(b, str) else b for b in g.prints.get("BEH", [])]
    if tier != "quick" and len(behs) > 40000:
        behs = R.sample(behs, 40000)
    base = scratch("c12w")
    cases = []
    for i, b in enumerate(behs):
        shape = _read.norm_shape(b["arch"])
        calls = []
        for j, c in enumerate(b["calls"]):
            calls.append({"name": c["name"], "T": list(c["T"]), "rec": c["rec"], "sink": "path" if (i + j) % 3 == 0 else "factory",
                          "k": WRONG[(i // 4 + j) % len(WRONG)],
                          "asset": "set" if (i + j) % 2 else "list", "slash": ["none", "dirs", "all"][(i + j) % 3]})
        variants = [(i % 2 == 0, "path" if (i // 2) % 2 == 0 else "stream")] if tier == "quick" else [(e, t) for e in (False, True) for t in ("path", "stream")]
        for enc, tgt in variants:
            cases.append({"shape": shape, "calls": calls, "password": "pw" if enc else None, "target": tgt, "damaged": sorted(b["arch"].get("damaged", [])),
                          "ending": ["close", "with", "exception"][i % 3], "seed": i % 7, "coder": ["lzma2", "copy", "bzip2", "bcj+lzma2", "delta+lzma2", "deflate", "arm+lzma"][i % 7],
                          "packcrc": [True, False, "partial"][(i // 3) % 3], "partialcrc": (i // 5) % 2 == 0 and not b["arch"].get("damaged"),      # (damage is told by a checksum: every damaged folder keeps one)
                          "wd": os.path.join(base, f"s{len(cases)}")})
    # random longer sequences on random shapes
    names = ["getnames", "list", "getinfo", "archiveinfo", "test", "testzip", "extractall", "extract", "reset", "needs_password", "wrongmode"]
    for i in range(150 if tier == "quick" else 3000):
        shape = _read.random_shape(R)
        n = len(shape["members"])
        calls, dirty = [], False
        for _ in range(5):
            nm = R.choice(names)
            if nm in ("extract", "extractall") and dirty and i % 2:
                calls.append({"name": "reset"})           # (half of the sessions: since extract() starts afresh by itself nothing depends on it)
                dirty = False
            if nm in ("extract", "extractall", "testzip"):
                dirty = True
            if nm == "reset":
                dirty = False
            calls.append({"name": nm, "T": [R.randrange(0, n + 1) for _ in range(R.randrange(0, 3))], "rec": R.random() < 0.5, "k": R.choice(WRONG),
                          "sink": R.choice(["factory", "path"]), "asset": R.choice(["list", "set"]), "slash": R.choice(["none", "dirs", "all"])})
        calls = calls[:6]
        dmg = [R.randrange(1, shape["nfolders"] + 1)] if shape["nfolders"] and R.random() < 0.3 else []
        cases.append({"shape": shape, "calls": calls, "password": R.choice([None, None, "pw"]), "target": R.choice(["path", "stream"]), "damaged": dmg,
                      "ending": R.choice(["close", "with", "exception"]), "seed": i, "coder": R.choice(["lzma2", "copy", "deflate", "bzip2", "bcj+lzma2", "delta+lzma2", "bcj+bzip2", "ppc+lzma2"]),
                      "packcrc": R.choice([True, False, "partial"]), "partialcrc": i % 3 == 0 and not dmg,
                      "wd": os.path.join(base, f"r{i}")})
    ev.sample({"tlc_sequence": behs[len(behs) // 2]["calls"]})
    _read.run_and_validate("C12", cases, rep, ev, validate)
    # ---- the object around the calls: write-side calls, calls after close(), several closes (Lifecycle.tla)
    rl = tlc.run("Lifecycle", "Lifecycle.cfg", workers=4)
    ev.add_tlc(rl, "Lifecycle(calls<=5)")
    if not rl.ok:
        rep.note_drift(f"Lifecycle model violates {rl.violated}")
    rlu = tlc.run("Lifecycle", "Lifecycle_unguarded.cfg", workers=4)
    ev.cov["negative_control_lifecycle"] = {"cfg": "Lifecycle_unguarded.cfg", "violated": rlu.violated or "NOTHING"}
    if rlu.ok:
        raise MachineryError("negative control failed: unguarded write calls on a reader satisfy ReadNeverWrites")
    lifecycle.run("C12", ("r",), tier, R, rep, ev, validate)
    ev.cov["exhaustive"] = True
    ev.cov["rule"] = ("all call sequences of length <= %d allowed by the quantifier over 2 model archives (TLC), variants plain/encrypted x "
                      "path/stream x ending by seed (quick) or all (thorough); random 5-6 call sequences on random shapes; "
                      "distinct = distinct (shape, calls, variant)") % (3 if tier == "quick" else 4)
    ev.assumptions += ["archives are written by the independent reference writer (per-file CRCs, LZMA2/Copy/BZip2/Deflate, optional 7zAES)"]


def replay(path, rep, ev):
    _read.replay_case(path)
