"""C09  Selective extraction equals the restriction of full extraction.

D  ReadSession.tla: Selected(T, recursive), decode-and-discard of unselected predecessors in a solid block, per-folder skip;
   invariants Restriction / Repeatable over every subset T of every model archive.
R  archive shapes (solid single folder with directories and empty files, 2-3 folders, random interleavings written by the
   reference writer, py7zr-style one-folder-per-session) x ALL subsets T of the member names plus absent names x
   recursive x list/set x trailing slash x sink (directory / WriterFactory): one extract call per fresh session.
T  TraceReadSession: delivered members = Selected, bytes identical, nothing else created except needed parent directories.
"""
import itertools
import json
import os

from .. import tlc
from ..common import rng, scratch
from . import _read
from .C15 import validate

LEVEL = "model_checking"


def run(tier, rep, ev):
    R = rng("c09")
    r = tlc.run("ReadSessionMC", "ReadSessionMC.cfg", workers=16)
    ev.add_tlc(r, "ReadSessionMC (all subsets T)")
    if not r.ok:
        rep.note_drift(f"I-level model violates {r.violated}")
    shapes = [_read.A1, _read.A2]
    nrand = 4 if tier == "quick" else 40
    while len(shapes) < 2 + nrand:
        s = _read.random_shape(R, 6 if tier == "quick" else 8)
        if s["nfolders"] >= 1:
            shapes.append(s)
    base = scratch("c09w")
    cases = []
    for si, shape in enumerate(shapes):
        n = len(shape["members"])
        universe = list(range(1, n + 1)) + [0]          # 0 = a name that is not in the archive
        subsets = [list(c) for k in range(0, len(universe) + 1) for c in itertools.combinations(universe, k)]
        if tier == "quick" and len(subsets) > 128:
            subsets = R.sample(subsets, 128)
        for T in subsets:
            combos = [(rec, asset, slash, sink) for rec in (False, True) for asset in ("list", "set") for slash in ("none", "dirs", "all")
                      for sink in ("factory", "path")]
            if tier == "quick":
                combos = R.sample(combos, 6)
            for rec, asset, slash, sink in combos:
                cases.append({"shape": shape, "calls": [{"name": "extract", "T": T, "rec": rec, "asset": asset, "slash": slash, "sink": sink, "absent": len(cases) % 5, "recform": (len(cases) // 5) % 6}],
                              "target": "path" if len(cases) % 2 else "stream", "password": "pw" if len(cases) % 7 == 0 else None,
                              "coder": ["lzma2", "copy", "bzip2", "deflate", "copy", "bcj+lzma2", "delta+lzma2"][len(cases) % 7], "seed": si, "ending": "close",
                              # folders without any digest (legal, never written by py7zr): members passed over in front of a selected one
                              # must be decoded whether or not there is a CRC to compare (seed C09-7)
                              "partialcrc": (len(cases) // 3) % 2 == 0,
                              "wd": os.path.join(base, f"c{len(cases)}")})
    # archives written by py7zr itself: a zero-length file is a zero-length stream of its folder - first, between and last in a solid folder
    E = {"kind": "empty", "folder": 0, "pos": 0, "parent": 0}
    Fm = lambda f, p: {"kind": "file", "folder": f, "pos": p, "parent": 0}          # noqa: E731
    pyshapes = [{"members": [E, Fm(1, 1), Fm(1, 2)], "nfolders": 1}, {"members": [Fm(1, 1), E, Fm(1, 2), E], "nfolders": 1},
                {"members": [E, E, Fm(1, 1), Fm(2, 1), E, Fm(2, 2)], "nfolders": 2}]
    for si, shape in enumerate(pyshapes):
        n = len(shape["members"])
        universe = list(range(1, n + 1)) + [0]
        subsets = [list(c) for k in range(0, len(universe) + 1) for c in itertools.combinations(universe, k)]
        if tier == "quick" and len(subsets) > 40:
            subsets = R.sample(subsets, 40)
        for T in subsets:
            cases.append({"shape": shape, "calls": [{"name": "extract", "T": T, "rec": bool(len(cases) % 2), "asset": "list", "slash": "none",
                                                      "sink": ["factory", "path"][len(cases) % 2]}],
                          "target": "path" if len(cases) % 3 else "stream", "password": None, "writer": "py7zr",
                          "filters": [[{"id": 0x21, "preset": 1}], [{"id": 0x33}], [{"id": 0x32}]][len(cases) % 3], "seed": si, "ending": "close",
                          "wd": os.path.join(base, f"c{len(cases)}")})
    ev.sample({"shape": shapes[-1], "case": {k: v for k, v in cases[len(cases) // 2].items() if k not in ("shape", "wd")}})
    _read.run_and_validate("C09", cases, rep, ev, validate)
    ev.cov["exhaustive"] = tier != "quick"
    ev.cov["rule"] = (f"{len(shapes)} archive shapes x " + ("all" if tier != "quick" else "<=128 sampled") + " subsets of names+absent x recursive x "
                      "list/set x trailing slash x sink" + (" (6 sampled combinations per subset)" if tier == "quick" else "") + "; distinct = distinct cases")


def replay(path, rep, ev):
    _read.replay_case(path)
