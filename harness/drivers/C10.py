"""C10  Listings tell the truth about the archive.

D  ReadSession.tla (listing calls are pure: they never disturb decoder state or results; Repeatable).
R/T archives of many shapes and coders (reference-written: every coder family, encrypted or not, raw/encoded header;
   py7zr-written through create + append sessions) are opened by path and by stream; getnames/namelist/list/files, getinfo,
   needs_password and archiveinfo are recorded and TLC (TraceReadSession) compares them with the member map obtained by
   extraction: stored order, size = length of extracted bytes, CRC32 of those bytes, directory flag, KeyError for unknown
   names, total size / block count / solid flag, method names = coders present, needs_password = AES coder or password given.
"""
import io
import json
import os
import shutil

from .. import tlc, rsession, sandbox
from ..common import import_py7zr, rng, scratch
from . import _read
from .C15 import validate

LEVEL = "model_checking"

CALLS = [{"name": n} for n in ("getnames", "list", "getinfo", "needs_password", "archiveinfo", "extractall", "reset", "list", "getnames", "archiveinfo")]
# display names py7zr itself assigns to the coders (SupportedMethods.methods[...]["name"])
METHOD_NAME = {"lzma2": "LZMA2", "lzma": "LZMA", "bzip2": "BZip2", "deflate": "DEFLATE", "copy": "COPY", "delta": "DELTA", "bcj": "BCJ",
               "ppmd": "PPMd", "zstd": "ZStandard", "brotli": "Brotli", "aes": "7zAES", "arm": "ARM", "ppc": "PPC", "sparc": "SPARC", "armt": "ARMT"}


def execute_py7zr_written(case):
    """archive produced by py7zr itself: one session (= one folder) per folder of the shape"""
    py7zr = import_py7zr()
    import random

    wd = case["wd"]
    os.makedirs(wd, exist_ok=True)
    try:
        shape = case["shape"]
        R = random.Random(case["seed"])
        names = rsession.shape_names(shape)
        info = []
        bio = io.BytesIO()
        cur = None
        z = None
        import zlib

        nsess = 0
        aes_used = False
        for i, m in enumerate(shape["members"]):
            sess = m["folder"] if m["folder"] else cur or 1
            lonely = case.get("dirsessions") and m["kind"] == "dir" and R.random() < 0.6     # a session that adds only this directory
            if sess != cur or lonely or cur == "lonely":
                if z is not None:
                    z.close()
                bio.seek(0)
                nsess += 1
                filt, pw = case["filters"], case.get("password")
                if case.get("mixed") == "plain-first":     # ... plain first, AES later: chains that END in the same coder (seed C10-8)
                    filt = [{"id": 0x21, "preset": 1}] if nsess == 1 else [{"id": 0x21, "preset": 1}, {"id": 0x06F10701}]
                    pw = None if nsess == 1 else "pw"
                    aes_used = aes_used or nsess > 1
                elif case.get("mixed"):                    # sessions differ in encryption: AES first, plain later
                    filt = [{"id": 0x21, "preset": 1}, {"id": 0x06F10701}] if nsess == 1 else [{"id": 0x21, "preset": 1}]
                    pw = "pw" if nsess == 1 else None
                    aes_used = True
                z = py7zr.SevenZipFile(bio, "w" if cur is None else "a", filters=filt, password=pw)
                cur = "lonely" if lonely else sess
            if m["kind"] == "file":
                d = rsession.content(i, R)
                z.writestr(d, names[i])
            elif m["kind"] == "dir":
                d = None
                dp = os.path.join(wd, f"d{i}")
                os.makedirs(dp, exist_ok=True)
                z.write(dp, names[i])
            else:
                d = b""
                z.writestr(b"", names[i])
            info.append({"name": names[i], "data": d, "size": 0 if d is None else len(d), "crc": zlib.crc32(d) if d else 0, "kind": m["kind"]})
        if z is None:
            z = py7zr.SevenZipFile(bio, "w")
        z.close()
        # what was really laid out, as the independent reader sees it: folder and position of every member with a stream
        # (py7zr stores a zero-length file as a zero-length stream), and the folders that hold no stream at all
        from ..refcodec import read_archive

        raw = bio.getvalue()
        end = 32 + int.from_bytes(raw[12:20], "little") + int.from_bytes(raw[20:28], "little")
        P = read_archive(raw[:end], "pw" if (case.get("password") or case.get("mixed")) else None, strict=False, decode=False)
        shape2 = json.loads(json.dumps(shape))
        used = sorted({m["folder"] for m in P.members if m["folder"] is not None})
        renum = {f: k + 1 for k, f in enumerate(used)}
        pos = {}
        for m2, pm in zip(shape2["members"], P.members):
            if pm["folder"] is None:
                m2["folder"], m2["pos"] = 0, 0
            else:
                f = renum[pm["folder"]]
                pos[f] = pos.get(f, 0) + 1
                m2["folder"], m2["pos"] = f, pos[f]
        shape2["nfolders"] = len(used)
        extra = len(P.folders) - len(used)
        calls = case["calls"] if not case.get("mixed") else [c for c in case["calls"] if c["name"] not in ("extractall", "reset")]
        tr = rsession.run_calls(py7zr, raw, shape2, info, calls, target=case.get("target", "stream"),
                                password=("pw" if aes_used else None) if case.get("mixed") == "plain-first" else (None if case.get("mixed") else case.get("password")),
                                ending="close", workdir=wd,
                                has_aes=aes_used or (case.get("mixed") != "plain-first" and any(f.get("id") == 0x06F10701 for f in case["filters"])),
                                extra_folders=extra)
        if extra and not any(m["kind"] in ("file", "empty") for m in shape["members"]):
            case["methods"] = sorted(set(case["methods"]) | set(case.get("methods_if_any_folder", [])))
        if case.get("mixed") == "plain-first" and case["methods"]:
            case["methods"] = ["7zAES", "LZMA2"] if aes_used else ["LZMA2"]
        tr[0]["methods"] = case["methods"]
        return tr
    finally:
        shutil.rmtree(wd, ignore_errors=True)


def execute_ref(case):
    tr = _read.execute(case)
    tr[0]["methods"] = case["methods"]
    return tr


def classify(tr, l):
    key, e = _read.classify(tr, l)
    if e.get("name") == "archiveinfo" and e.get("ok"):
        key += ":summary"
    return key, e


def run(tier, rep, ev):
    R = rng("c10")
    r = tlc.run("ReadSessionMC", "ReadSessionMC.cfg", workers=16)
    ev.add_tlc(r, "ReadSessionMC")
    base = scratch("c10w")
    ref_cases, py_cases = [], []
    coders = ["lzma2", "lzma", "copy", "bzip2", "deflate", "bcj+lzma2", "delta+lzma2", "arm+lzma", "ppc+bzip2", "sparc+deflate", "armt+copy"]
    n = 60 if tier == "quick" else 600
    for i in range(n):
        shape = [_read.A1, _read.A2][i] if i < 2 else _read.random_shape(R, 8)
        # every dimension drawn independently (indices tied to one counter hide combinations: password x raw header, ...)
        pw = "pw" if R.random() < 0.3 else None
        coder = coders[i % len(coders)]
        methods = sorted({METHOD_NAME[c] for c in coder.split("+")} | ({"7zAES"} if pw else set())) if shape["nfolders"] else []
        ref_cases.append({"shape": shape, "calls": CALLS, "password": pw, "coder": coder, "header": R.choice(["lzma", "raw"]), "seed": i,
                          "target": R.choice(["path", "path", "stream"]), "methods": methods, "partialcrc": i % 2 == 1, "mixedtimes": i % 3 != 0,
                          "wd": os.path.join(base, f"r{i}")})
    chains = [([{"id": 0x21, "preset": 1}], ["LZMA2"]), ([{"id": 4}, {"id": 0x21, "preset": 1}], ["BCJ", "LZMA2"]),
              ([{"id": 3, "dist": 4}, {"id": 0x21, "preset": 1}], ["DELTA", "LZMA2"]), ([{"id": 0x31}], ["BZip2"]), ([{"id": 0x32}], ["DEFLATE"]),
              ([{"id": 0x33}], ["COPY"]), ([{"id": 0x35, "level": 1}], ["ZStandard"]), ([{"id": 0x37, "level": 1}], ["Brotli"]),
              ([{"id": 0x36, "order": 6, "mem": 24}], ["PPMd"]), ([{"id": 7}, {"id": 0x32}], ["ARM", "DEFLATE"]),
              ([{"id": 0x21, "preset": 1}, {"id": 0x06F10701}], ["LZMA2", "7zAES"]), ([{"id": 0x33}, {"id": 0x06F10701}], ["COPY", "7zAES"])]
    for i in range(n):
        shape = [_read.A1, _read.A2][i] if i < 2 else _read.random_shape(R, 8)
        # py7zr sessions: folder numbers must be non-decreasing in member order (one session per folder) - random_shape guarantees it
        filt, names = chains[i % len(chains)]
        if i % 10 == 4 and shape["nfolders"] < 2:
            shape = _read.A2        # (sessions of different kinds need two sessions)
        pw = "pw" if "7zAES" in names else (None if i % 5 else "pw")
        has_data = any(m["kind"] in ("file", "empty") for m in shape["members"])
        mixed = True if i % 10 == 9 else ("plain-first" if i % 10 == 4 else False)
        py_cases.append({"shape": shape, "calls": CALLS, "password": pw, "filters": filt, "seed": i, "target": "path" if (i // len(chains)) % 2 == 0 else "stream",
                         "methods": (sorted(set(names)) if not mixed else ["7zAES", "LZMA2"]) if has_data else [],
                         "methods_if_any_folder": sorted(set(names)) if not mixed else ["7zAES", "LZMA2"],      # (a stream-less folder carries its session's chain too)
                         "dirsessions": i % 3 == 0, "mixed": mixed, "wd": os.path.join(base, f"p{i}")})
    traces, origins = [], []
    for fn, cases in ((execute_ref, ref_cases), (execute_py7zr_written, py_cases)):
        outs = sandbox.run_cases(fn, cases, timeout=90, nproc=16)
        for c, o in zip(cases, outs):
            desc = {k: v for k, v in c.items() if k != "wd"}
            ev.case(json.dumps(desc, default=str, sort_keys=True))
            if o.status == "ok":
                traces.append(o.value)
                origins.append(dict(desc, writer=fn.__name__))
            else:
                rep.violation(f"session-{o.status}:" + str(o.value[0] if isinstance(o.value, tuple) else o.value)[:60],
                              f"listing session {o.status}: {o.value} {o.detail[-400:]}", {"case": desc, "writer": fn.__name__})
    ev.sample({"listing_events": [{k: v for k, v in e.items() if v not in ([], "", 0, False)} for e in traces[1][:4]]})
    validate("C10", traces, rep, ev, spec="TraceReadSession", cfg="TraceReadSession.cfg", classify_fn=classify, origins=origins)
    ev.cov["rule"] = f"{n} reference-written + {n} py7zr-written archives (random shapes, 5+12 coder chains, encrypted or not, path/stream) x 10 listing calls"
    shutil.rmtree(base, ignore_errors=True)


def replay(path, rep, ev):
    print(json.dumps(json.load(open(path))["replay"].get("origin"), indent=1)[:3000])
