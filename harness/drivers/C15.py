"""C15  A failed write call does not poison the archive.

D  WriteSession.tla: one action per step of a write call (check, register, archive at the worker's cursor), one fault per
   history at each step; invariants InStep / NoRetry / Committed, action properties FaultRaised / AppendOnly.
   Negative control: the same spec with Rollback = FALSE (the pinned tree before the fix) must violate InStep.
R  every history TLC enumerates (GenWriteSession) is executed on the real SevenZipFile with faults injected through the
   public API, recording call/ret/close/reopen events
T  those traces plus random longer ones (5 calls, two sessions, context-manager exit) are validated by TLC (TraceWriteSession)
"""
import json
import os
import shutil

from .. import tlc, sandbox, wsession
from ..common import import_py7zr, rng, scratch, MachineryError

LEVEL = "model_checking"

GEN_CFG = """SPECIFICATION GSpec
CONSTANT MaxCalls = %d
CONSTANT MaxSessions = %d
CONSTANT MaxFaults = 1
CONSTANT Rollback = TRUE
CONSTRAINT Emit
INVARIANT InStep
INVARIANT NoRetry
INVARIANT Committed
CHECK_DEADLOCK FALSE
"""


def gen_histories(calls, sessions, ev):
    r = tlc.run("GenWriteSession", cfg_text=GEN_CFG % (calls, sessions), workers=1, timeout=900)
    ev.add_tlc(r, f"GenWriteSession(calls<={calls},sessions<={sessions})")
    if not r.ok:
        raise MachineryError(f"GenWriteSession violates {r.violated}: the I-level of the repaired tree should satisfy C15\n{r.trace_text[:1500]}")
    return [json.loads(b) if isinstance(b, str) else b for b in r.prints.get("BEH", [])]


def execute(case):
    py7zr = import_py7zr()
    hist, opts, wd = case
    try:
        return wsession.run_history(py7zr, hist, wd, **opts)
    finally:
        shutil.rmtree(wd, ignore_errors=True)


def classify(tr, l):
    """a stable key for the rejected event"""
    e = tr[l - 1] if 0 < l <= len(tr) else {}
    key = "trace-rejected:" + e.get("e", "?")
    if e.get("e") == "ret":
        call = tr[l - 2] if l >= 2 else {}
        key += f":{call.get('k')}:{call.get('fault')}"
    if e.get("e") == "reopen":
        faults = sorted({x.get("fault") for x in tr if x.get("e") == "call" and x.get("fault") != "none"})
        key += ":" + ("after-" + "+".join(faults) if faults else "no-fault") + (":unreadable" if not e.get("ok") else ":wrong-members")
    return key, e


def validate(prop, traces, rep, ev, spec="TraceWriteSession", cfg="TraceWriteSession.cfg", classify_fn=classify, batch=3000, origins=None):
    acc, results = tlc.validate_traces(spec, cfg, traces, extra_env={"EXPLAIN": "0"}, workers=8, batch=batch)
    ndrift = 0
    drifted = []
    for bi, r in enumerate(results):
        ev.add_tlc(r, spec)
        ndrift += len(r.prints.get("DRIFT", []))
        drifted += [bi * batch + int(x) - 1 for x in r.prints.get("DRIFT", [])]
    if drifted and os.environ.get("VERIF_DEBUG"):
        with open(os.path.join(os.path.dirname(os.path.dirname(os.path.dirname(__file__))), ".scratch", f"drift_{prop}.json"), "w") as f:
            json.dump([traces[k] for k in drifted[:200]], f)
        if not r.ok:
            raise MachineryError(f"{spec} run failed: {r.violated}\n{r.trace_text[:1500]}")
    ev.traces(len(traces))
    if ndrift:
        rep.note_drift(f"{ndrift} of {len(traces)} traces differ from the I-level prediction of {spec} without contradicting the property")
        rep.drift.extend(["drift"] * (ndrift - 1))
    bad = [i for i in range(len(traces)) if i not in acc]
    if not bad:
        return
    d = scratch("bad")
    # every rejected trace is explained and classified, 60 at a time (traces that fall under a known finding must not use up the
    # room of others); after 60 NEW violations the rest is only counted
    done = 0
    while done < len(bad) and len(rep.violations) < 60:
        chunk = bad[done:done + 60]
        done += len(chunk)
        sub = [traces[i] for i in chunk]
        suborig = [origins[i] if origins else None for i in chunk]
        p = os.path.join(d, "bad.json")
        tlc.write_json(p, sub)
        rr = tlc.run(spec, cfg, workers=1, env={"TRACE_FILE": p, "EXPLAIN": "1"})
        reach = {}
        for v in rr.prints.get("AT", []):
            reach[int(v[0])] = max(reach.get(int(v[0]), 0), int(v[1]))
        for j, tr in enumerate(sub):
            l = reach.get(j + 1, 1)
            key, e = classify_fn(tr, l)
            rep.violation(key, f"{spec} rejects event {l} ({e.get('e')}) of a recorded trace: {json.dumps(e)[:300]}",
                          {"trace": tr, "rejected_at": l, "origin": suborig[j]})
    if done < len(bad):
        print(f"  ... {len(bad) - done} more rejected traces not explained")
    shutil.rmtree(d, ignore_errors=True)


def after_failure_case(case):
    """WriteSession.tla: a failed call is inert - the session after it is in the state it had before.  Executed as a comparison with a
    control session that never made the failed call: members written AFTER the failure (plain files, and symbolic links whose absolute
    targets are the failed source / a source that was stored) must come out the same - stored link targets included."""
    import io
    py7zr = import_py7zr()
    wd, fault, target_kind, filt = case["wd"], case["fault"], case["target"], case["filters"]
    os.makedirs(wd, exist_ok=True)
    try:
        p_bad, p_ok = os.path.join(wd, "data.bin"), os.path.join(wd, "kept.bin")
        open(p_bad, "wb").write(b"source that fails " * 40)
        open(p_ok, "wb").write(b"source that is stored " * 30)
        os.makedirs(os.path.join(wd, "links"), exist_ok=True)
        l_bad, l_ok = os.path.join(wd, "links", "to_failed"), os.path.join(wd, "links", "to_kept")
        os.symlink(p_bad, l_bad)
        os.symlink(p_ok, l_ok)

        def session(with_failure):
            bio = io.BytesIO()
            arc = os.path.join(wd, f"s{int(with_failure)}.7z")
            z = py7zr.SevenZipFile(bio if target_kind == "stream" else arc, "w", filters=filt)
            z.writestr(b"first", "first.txt")
            exc = "none"
            if with_failure:
                fp = wsession.FaultyPath(p_bad)
                wsession.FaultyPath._faults[p_bad] = {"fault": fault, "counter": wsession.Counter(), "cid": 1, "after": 0 if case["zero"] else 300}
                try:
                    z.write(fp, "data.bin")
                except Exception as e:  # noqa
                    exc = type(e).__name__
                wsession.FaultyPath._faults.pop(p_bad, None)
            z.write(p_ok, "kept.bin")
            z.write(l_bad, "links/to_failed")
            z.write(l_ok, "links/to_kept")
            z.writestr(b"last", "last.txt")
            z.close()
            raw = bio.getvalue() if target_kind == "stream" else open(arc, "rb").read()
            try:
                with py7zr.SevenZipFile(io.BytesIO(raw)) as r:
                    fac = py7zr.io.BytesIOFactory(1 << 24)
                    names = r.getnames()
                    r.extractall(factory=fac)
                    return exc, [(n, fac.products[n].read().hex() if n in fac.products else None) for n in names]
            except Exception as e:  # noqa
                return exc, "refused:" + type(e).__name__

        exc, got = session(True)
        _none, want = session(False)
        return {"exc": exc, "got": got, "want": want}
    finally:
        shutil.rmtree(wd, ignore_errors=True)


def run(tier, rep, ev):
    import_py7zr()
    R = rng("c15")
    # ---- D
    r = tlc.run("WriteSession", "WriteSession.cfg", workers=16)
    ev.add_tlc(r, "WriteSession(Rollback=TRUE, calls<=3, sessions<=2)")
    if not r.ok:
        rep.note_drift(f"I-level model violates {r.violated}; replay decides")
    rn = tlc.run("WriteSession", "WriteSession_norollback.cfg", workers=4)
    ev.cov["negative_control"] = {"cfg": "WriteSession_norollback.cfg", "violated": rn.violated or "NOTHING (vacuous!)"}
    if rn.ok:
        raise MachineryError("negative control failed: WriteSession without rollback satisfies every invariant, the properties are vacuous")
    # ---- R
    hists = gen_histories(3, 1, ev) if tier == "quick" else gen_histories(4, 1, ev)
    hists += gen_histories(1, 2, ev) if tier == "quick" else gen_histories(2, 2, ev)
    base = scratch("c15w")
    cases = []
    for i, h in enumerate(hists):
        opts = {"target": "stream" if i % 2 else "path", "read_kmode": "zero" if i % 3 == 0 else "half",
                "filters_by_session": {1: [{"id": 0x33}] if i % 4 else None}}  # COPY mostly (fast), default chain otherwise
        cases.append((h, opts, os.path.join(base, f"h{i}")))
    # ---- random longer histories
    nrand = 200 if tier == "quick" else 3000
    for i in range(nrand):
        h = []
        nsess = R.choice([1, 1, 2, 3])
        faults_left = R.choice([0, 1, 1, 2])
        for s in range(nsess):
            h.append({"op": "open"})
            for _ in range(R.randrange(0, 6)):
                k = R.choice(["writestr", "writef", "write"])
                f = "none"
                if faults_left and R.random() < 0.3:
                    f = R.choice({"writestr": ["badname"], "writef": ["badname", "read"], "write": ["missing", "lstat", "open", "read"]}[k])
                    faults_left -= 1
                h.append({"op": "call", "k": k, "n": R.randrange(1, 6), "fault": f})
            h.append({"op": "close"})
        opts = {"target": R.choice(["path", "stream"]), "read_kmode": R.choice(["zero", "half"]),
                "filters_by_session": {s: R.choice([None, [{"id": 0x33}], [{"id": 0x21, "preset": 1}], [{"id": 0x32}]]) for s in range(1, 4)}}
        cases.append((h, opts, os.path.join(base, f"r{i}")))
    # ---- writeall(): one call that archives a directory tree entry by entry; a fault at a nested entry, earlier entries already archived
    for i in range(60 if tier == "quick" else 1000):
        h = [{"op": "open"}]
        for _ in range(R.randrange(0, 3)):
            h.append({"op": "call", "k": R.choice(["writestr", "writef", "write"]), "n": R.randrange(1, 4), "fault": "none"})
        nent = R.randrange(2, 5)          # (at most 9 calls per session: contents are numbered session * 10 + call)
        ents = [{"k": "writedir", "n": 4, "fault": "none"}] + [{"k": R.choice(["write", "write", "writedir"]), "n": 5 + j, "fault": "none"} for j in range(nent)]
        if i % 4:
            j = R.randrange(1, len(ents))
            ents[j]["fault"] = R.choice(["open", "read", "lstat"] if ents[j]["k"] == "write" else ["lstat"])
        h.append({"op": "writeall", "entries": ents})
        for _ in range(R.randrange(0, 3)):
            h.append({"op": "call", "k": R.choice(["writestr", "writef", "write"]), "n": R.randrange(1, 4), "fault": "none"})
        h.append({"op": "close"})
        if i % 3 == 0:
            h += [{"op": "open"}, {"op": "call", "k": "writestr", "n": 3, "fault": "none"}, {"op": "close"}]
        opts = {"target": R.choice(["path", "stream"]), "read_kmode": R.choice(["zero", "half"]),
                "filters_by_session": {s: R.choice([None, [{"id": 0x33}], [{"id": 0x32}]]) for s in range(1, 3)}}
        cases.append((h, opts, os.path.join(base, f"w{i}")))
    outs = sandbox.run_cases(execute, cases, timeout=60, nproc=16)
    traces, origins = [], []
    for (h, opts, _), o in zip(cases, outs):
        ev.case(json.dumps(h), nontrivial=any(x.get("fault", "none") != "none" for x in h))
        if o.status == "ok":
            traces.append(o.value)
            origins.append({"hist": h, "opts": opts})
        elif o.status == "hang":
            rep.violation("hang-in-write-session", f"history did not finish in 60 s: {o.detail[-300:]}", {"hist": h, "opts": opts})
        else:
            rep.violation("harness-exception:" + str(o.value)[:60], f"executing a history raised outside any public call: {o.value} {o.detail[-400:]}",
                          {"hist": h, "opts": opts})
    ev.sample({"history": hists[len(hists) // 2]})
    if traces:
        ev.sample({"trace": traces[len(traces) // 2]})
    validate("C15", traces, rep, ev, origins=origins)
    # ---- members written after a failed call, against a control session without it (symbolic links to the failed source: seed C15-8)
    abase = scratch("c15a")
    acases = [{"wd": os.path.join(abase, f"a{k}"), "fault": fault, "zero": zero, "target": tk, "filters": fl}
              for k, (fault, zero, tk, fl) in enumerate((f, zr, tk, fl) for f in ("open", "read") for zr in (False, True)
                                                        for tk in ("stream", "path") for fl in (None, [{"id": 0x33}]))]
    for c, o in zip(acases, sandbox.run_cases(after_failure_case, acases, timeout=60, nproc=16)):
        desc = {k: v for k, v in c.items() if k != "wd"}
        ev.case(("after-failure", json.dumps(desc, sort_keys=True)), nontrivial=True)
        if o.status != "ok":
            if o.status != "skipped":
                rep.violation(f"after-failure-{o.status}", f"{o.value} {o.detail[-300:]}", {"case": desc})
            continue
        v = o.value
        if v["exc"] == "none":
            raise MachineryError(f"the injected {c['fault']} fault did not make write() fail")
        if isinstance(v["got"], str) and c["fault"] == "read" and not c["zero"]:
            continue        # a source that failed midway: the statement only asks that the result never opens with wrong contents
        if v["got"] != v["want"]:
            diff = [(a, b) for a, b in zip(v["got"], v["want"]) if a != b][:2]
            rep.violation("after-failure:members-differ-from-the-session-without-the-failed-call",
                          f"write() failed ({c['fault']}) and the members written afterwards are not what they are without that call: {str(diff)[:300]}",
                          {"case": desc, "got": v["got"], "want": v["want"]})
    ev.cov["after_failure_control_sessions"] = len(acases)
    shutil.rmtree(abase, ignore_errors=True)
    ev.cov["exhaustive"] = True
    ev.cov["rule"] = ("all histories of <=3 (quick) / <=4 (thorough) calls x {writestr,writef,write} x 1 fault at each step from TLC, "
                      f"2-session histories of <=2 calls, {nrand} random histories of <=3 sessions x <=5 calls x <=2 faults; "
                      "non-trivial = contains a fault")
    ev.assumptions += ["faults are injected through pathlib/stream subclasses passed to the public API", "Linux, root: permission faults are simulated"]
    shutil.rmtree(base, ignore_errors=True)


def replay(path, rep, ev):
    py7zr = import_py7zr()
    from ..common import unhex

    r = unhex(json.load(open(path))["replay"])
    if "origin" in r and r["origin"]:
        r = r["origin"]
        if "base" in r.get("opts", {}):
            b = r["opts"]["base"]
            r["opts"]["base"] = (b[0], [tuple(x) for x in b[1]], {int(k): v for k, v in b[2].items()},
                                 {tuple(int(t) for t in k.strip("()").split(",")): v for k, v in b[3].items()})
    if "hist" in r:
        print(json.dumps(wsession.run_history(py7zr, r["hist"], scratch("rp"), **r.get("opts", {})), indent=1))
    else:
        print(json.dumps(r, indent=1)[:4000])
