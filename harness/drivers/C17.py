"""C17  Header values survive storage across their whole legal range.

D  design check: CodecMC (store/load machine; WriteAlgo/ReadAlgo transcriptions vs the document's definition)
R  spec -> code: every class vector TLC enumerates, with ALL conforming encodings, is pushed through the real
   write_uint64/read_uint64/write_boolean/read_boolean; results compared with the specification's values
T  code -> spec: events recorded from the real primitives (2^k-1,2^k,2^k+1, all values < 2^16 / 2^20, random 64-bit,
   boolean vectors, UTF-16 names, timestamps/attributes/CRCs through Header.write -> Header.retrieve raw and encoded)
   are validated by TLC against TraceCodec.
"""
import io
import json
import os
import random

from .. import tlc
from ..common import import_py7zr, rng, scratch, MachineryError

LEVEL = "model_checking"


def le8(v):
    try:
        return list(int(v).to_bytes(8, "little"))
    except (OverflowError, ValueError, TypeError):
        return [256] * 8  # not a 64-bit value: can never equal a stored value


def _w_num(ai, v):
    b = io.BytesIO()
    ai.write_uint64(b, v)
    return list(b.getvalue())


def _r_num(ai, enc):
    b = io.BytesIO(bytes(enc) + b"\xAA" * 2)  # trailing bytes must not be consumed
    v = ai.read_uint64(b)
    used = b.tell()
    return v, used


def run(tier, rep, ev):
    py7zr = import_py7zr()
    import py7zr.archiveinfo as ai

    # ---------------- D + generation
    d = scratch("c17")
    gen = os.path.join(d, "gen.json")
    r = tlc.run("GenCodec", env={"OUT_FILE": gen}, workers=8, allow_violation=True)
    ev.add_tlc(r, "GenCodec(CodecMC invariants)")
    if not r.ok:
        # the I-level transcription itself breaks a C17 invariant: replay decides whether the code does
        rep.note_drift(f"model-level violation {r.violated} in CodecMC; deciding by replay")
    try:
        cases = json.load(open(gen))
    except Exception as e:
        raise MachineryError(f"GenCodec produced no cases: {e}")

    # ---------------- R: replay TLC's vectors into the real primitives
    for c in cases["nums"]:
        v = int.from_bytes(bytes(c["v"]), "little")
        ev.case(("num", v))
        try:
            enc = _w_num(ai, v)
        except Exception as e:
            rep.violation(f"write_uint64-raises", f"write_uint64({v:#x}) raised {e!r}", {"op": "wnum", "v": v})
            continue
        if enc not in c["encs"] or len(enc) > 9:
            rep.violation("write_uint64-nonconforming", f"write_uint64({v:#x}) -> {bytes(enc).hex()} not a conforming NUMBER",
                          {"op": "wnum", "v": v, "enc": enc, "allowed": c["encs"]})
        elif enc != c["w"]:
            rep.note_drift(f"write_uint64({v:#x}) = {bytes(enc).hex()} differs from I-level {bytes(c['w']).hex()} (still conforming)")
        for e in c["encs"]:
            ev.case(("numenc", bytes(e).hex()))
            try:
                got, used = _r_num(ai, e)
            except Exception as ex:
                rep.violation("read_uint64-raises", f"read_uint64({bytes(e).hex()}) raised {ex!r}", {"op": "rnum", "enc": e})
                continue
            if got != v or used != len(e):
                rep.violation("read_uint64-misreads", f"read_uint64({bytes(e).hex()}) = {got:#x} (used {used}), spec says {v:#x}",
                              {"op": "rnum", "enc": e, "expected": v, "got": got})
    ev.sample({"num": cases["nums"][len(cases["nums"]) // 2]})
    for c in cases["bools"]:
        bits = [bool(x) for x in c["bits"]]
        ev.case(("bool", tuple(c["bits"]), c["alldef"]), nontrivial=len(bits) > 0)
        b = io.BytesIO()
        ai.write_boolean(b, bits, all_defined=c["alldef"])
        enc = list(b.getvalue())
        if enc not in c["encs"]:
            rep.violation("write_boolean-nonconforming", f"write_boolean(n={len(bits)}, alldef={c['alldef']}) -> {bytes(enc).hex()}",
                          {"op": "wbool", "bits": c["bits"], "alldef": c["alldef"], "enc": enc})
        for e in c["encs"]:
            buf = io.BytesIO(bytes(e) + b"\xA5\x5A")  # sentinel: the vector must not swallow what follows it
            try:
                got = ai.read_boolean(buf, len(bits), checkall=c["alldef"])
            except Exception as ex:
                rep.violation("read_boolean-raises", f"read_boolean({bytes(e).hex()}, {len(bits)}) raised {ex!r}", {"op": "rbool", "enc": e})
                continue
            if list(got) != bits or buf.tell() != len(e):
                rep.violation("read_boolean-misreads", f"read_boolean({bytes(e).hex()}, n={len(bits)}, checkall={c['alldef']}) wrong",
                              {"op": "rbool", "enc": e, "expected": c["bits"], "got": [int(x) for x in got]})
    ev.sample({"bool": cases["bools"][7]})

    # ---------------- T: record events from the real code, let TLC judge them
    R = rng("c17")
    traces = []
    vals = set()
    for k in range(0, 65):
        for dlt in (-1, 0, 1):
            x = (1 << k) + dlt
            if 0 <= x < (1 << 64):
                vals.add(x)
    for k in range(7, 64, 7):  # class boundaries 2^(7k)
        for dlt in range(-3, 4):
            vals.add(max(0, (1 << k) + dlt))
    nrand = 3000 if tier == "quick" else 40000
    for _ in range(nrand):
        bits = R.randrange(1, 65)
        vals.add(R.getrandbits(bits))
    limit = 1 << 16 if tier == "quick" else 1 << 20
    step_all = range(0, limit)
    vals.update(step_all)
    vals = sorted(vals)
    cur = []
    for v in vals:
        try:
            enc = _w_num(ai, v)
            dec, used = _r_num(ai, enc)
            cur.append({"e": "wnum", "v": le8(v), "enc": enc})
            cur.append({"e": "rnum", "enc": enc[:used], "dec": le8(dec) if 0 <= dec < (1 << 64) else [256] * 8})
        except Exception as ex:
            cur.append({"e": "raised", "v": le8(v), "what": repr(ex)})
        ev.case(("t", v), nontrivial=True)
        if len(cur) >= 2000:
            traces.append(cur)
            cur = []
    if cur:
        traces.append(cur)
    # boolean vectors, every length 0..130 (thorough: ..300) with random contents
    cur = []
    for n in range(0, 131 if tier == "quick" else 301):
        for rep_i in range(3):
            bits = [R.random() < (0.5 if rep_i else 0.9) for _ in range(n)]
            for alldef in (False, True):
                b = io.BytesIO()
                ai.write_boolean(b, bits, all_defined=alldef)
                enc = list(b.getvalue())
                rb = io.BytesIO(bytes(enc) + b"\xA5\x5A")
                got = ai.read_boolean(rb, n, checkall=alldef)
                cur.append({"e": "wbool", "bits": [int(x) for x in bits], "alldef": alldef, "enc": enc})
                cur.append({"e": "rbool", "enc": enc, "count": n, "checkall": alldef, "dec": [int(x) for x in got], "used": rb.tell()})
                ev.case(("tb", n, rep_i, alldef), nontrivial=n > 0)
    traces.append(cur)
    # names
    cur = []
    pools = [
        (0x20, 0x7E), (0x1, 0x1F), (0xA0, 0x7FF), (0x800, 0xD7FF), (0xE000, 0xFFFD), (0x10000, 0x10FFFF), (0x1F600, 0x1F64F),
    ]
    lens = [1, 2, 3, 7, 8, 9, 31, 64, 255, 256, 1000, 4096] if tier == "quick" else [1, 2, 3, 5, 8, 16, 33, 64, 127, 255, 256, 257, 1000, 2048, 4095, 4096]
    for ln in lens:
        for pi, pool in enumerate(pools + [None]):
            if pool is None:
                cps = [R.randrange(*R.choice(pools)) for _ in range(ln)]
            else:
                cps = [R.randrange(pool[0], pool[1] + 1) for _ in range(ln)]
            cps = [c for c in cps if c != 0x5C] or [0x41]  # '\\' is rewritten to '/' by the reader on purpose
            s = "".join(map(chr, cps))
            b = io.BytesIO()
            ai.write_utf16(b, s)
            enc = b.getvalue()
            cur.append({"e": "wname", "cps": cps, "enc": list(enc)})
            try:
                back = ai.read_utf16(io.BytesIO(enc))
                cur.append({"e": "rname", "enc": list(enc), "cps": [ord(c) for c in back]})
            except Exception as ex:
                cur.append({"e": "raised", "what": repr(ex), "cps_len": ln})
            ev.case(("name", ln, pi))
        if len(cur) > 40:
            traces.append(cur)
            cur = []
    if cur:
        traces.append(cur)
    # whole-header round trips
    traces.extend(_header_roundtrips(py7zr, ai, R, tier, ev))

    acc, results = tlc.validate_traces("TraceCodec", "TraceCodec.cfg", traces, extra_env={"EXPLAIN": "0"}, workers=8)
    for r in results:
        ev.add_tlc(r, "TraceCodec")
    ev.traces(len(traces))
    ev.sample({"trace_events": traces[0][:4]})
    ev.sample({"header_roundtrip_events": traces[-1][:6]})
    bad = [i for i in range(len(traces)) if i not in acc]
    if bad:
        _explain(bad, traces, rep, ev)
    ev.cov["rule"] = ("R: every class vector TLC enumerates x every conforming encoding; T: 2^k-1,2^k,2^k+1, 2^(7k)+-3, all values below "
                      f"{limit}, {nrand} random 1..64-bit values, boolean vectors of every length, names over 7 code point pools, "
                      "header round trips; distinct = distinct values/vectors/names")
    ev.cov["exhaustive"] = False
    ev.assumptions += ["TLC 1.8.0 and the Json community module are correct", "values travel as byte lists (TLC integers are 32-bit)"]


def _explain(bad, traces, rep, ev):
    """Re-run only the rejected traces with per-state progress printing; report the first rejected event of each."""
    sub = [traces[i] for i in bad[:50]]
    d = scratch("c17x")
    p = os.path.join(d, "bad.json")
    tlc.write_json(p, sub)
    r = tlc.run("TraceCodec", "TraceCodec.cfg", workers=1, env={"TRACE_FILE": p, "EXPLAIN": "1"})
    reach = {}
    for v in r.prints.get("AT", []):
        t, l = int(v[0]), int(v[1])
        reach[t] = max(reach.get(t, 0), l)
    for j, tr in enumerate(sub):
        l = reach.get(j + 1, 1)
        evt = tr[l - 1] if l - 1 < len(tr) else None
        key = "trace-rejected:" + (evt.get("e", "?") if evt else "?")
        if evt and evt.get("e") == "field":
            key += ":" + evt.get("kind", "")
        if evt and evt.get("e") == "raised":
            key = "primitive-raised"
        rep.violation(key, f"TraceCodec rejects event {l} of a recorded trace: {json.dumps(evt)[:400]}",
                      {"event": evt, "prev": tr[max(0, l - 3):l - 1]})


def _header_roundtrips(py7zr, ai, R, tier, ev):
    """Header.write -> Header.retrieve with boundary values in every field, raw and encoded."""
    from py7zr.helpers import ArchiveTimestamp

    traces = []
    big = [0, 1, 0x7F, 0x80, 0xFF, 0x3FFF, 0x4000, 0xFFFF, 0x1FFFFF, 0x200000, 0xFFFFFFFF, 0x100000000, (1 << 35) - 1, 1 << 42, (1 << 49) + 5,
           (1 << 56) - 1, 1 << 56, (1 << 63), (1 << 64) - 1]
    times = [0, 1, 116444736000000000, 0x7FFFFFFFFFFFFFFF, 0x8000000000000000, (1 << 64) - 1, 133000000000000000 + 1234567]
    attrs = [0, 0x20, 0x10, 0x8000 | (0o100644 << 16), 0xFFFFFFFF, 0x80000000, 0x20 | 0x400 | 0x8000 | (0o120777 << 16)]
    ncase = 60 if tier == "quick" else 600
    for ci in range(ncase):
        nfiles = R.choice([1, 2, 3, 7, 8, 9, 16, 17, 24, 64, 65])
        nstream = R.randrange(1, nfiles + 1)
        h = ai.Header.build_header([{"id": py7zr.FILTER_COPY}], None)
        h.initialize()
        ms = h.main_streams
        sizes = [R.choice(big) for _ in range(nstream)]
        crcs = [R.choice([0, 1, 0xFFFFFFFF, 0x80000000, R.getrandbits(32)]) for _ in range(nstream)]
        ms.substreamsinfo.unpacksizes = list(sizes)
        ms.substreamsinfo.digests = list(crcs)
        ms.substreamsinfo.digestsdefined = [True] * nstream
        if ci % 5 in (2, 4) and nstream >= 2:
            # partially defined digest vector, an undefined entry in FRONT of a defined one among the patterns (seed C17-7): the defined
            # digests are stored compactly and must come back at their streams
            dd = [R.random() < 0.5 for _ in range(nstream)]
            dd[R.randrange(0, nstream - 1)] = False
            dd[-1] = True
            ms.substreamsinfo.digestsdefined = dd
        ddef = list(ms.substreamsinfo.digestsdefined)
        ms.substreamsinfo.num_unpackstreams_folders = [nstream]
        total = sum(sizes)
        if total >= 1 << 64:
            sizes = [s >> 8 for s in sizes]
            ms.substreamsinfo.unpacksizes = list(sizes)
            total = sum(sizes)
        packsize = R.choice(big)
        ms.packinfo.numstreams = 1
        ms.packinfo.packsizes = [packsize]
        ms.packinfo.packpos = 0
        ms.packinfo.crcs = [R.getrandbits(32)]
        ms.packinfo.digestdefined = [True]
        ms.packinfo.enable_digests = True
        ms.unpackinfo.folders[0].unpacksizes = [total]
        counts = [nstream]
        if ci % 2 == 1:
            # several folders, folders WITHOUT streams among them (first, between, last): counts, sizes and digests must come back unshifted
            import copy
            nf = R.choice([2, 3, 4])
            cuts = sorted(R.randrange(0, nstream + 1) for _ in range(nf - 1))
            counts = [b - a for a, b in zip([0] + cuts, cuts + [nstream])]
            if ci % 4 == 1 and nstream >= 2:
                counts = [0] + [nstream - sum(counts[2:]) if len(counts) > 2 else nstream] + counts[2:]      # a stream-less folder first, a solid one next
                counts = counts if sum(counts) == nstream else [0, nstream]
            f0 = ms.unpackinfo.folders[0]
            folders, at = [], 0
            for cnt in counts:
                fo = copy.deepcopy(f0)
                fo.unpacksizes = [sum(sizes[at:at + cnt])]
                at += cnt
                folders.append(fo)
            ms.unpackinfo.folders = folders
            ms.unpackinfo.numfolders = len(folders)
            ms.substreamsinfo.num_unpackstreams_folders = list(counts)
            ms.packinfo.numstreams = len(folders)
            ms.packinfo.packsizes = [R.choice(big) >> 4 for _ in folders]
            ms.packinfo.crcs = [R.getrandbits(32) for _ in folders]
            ms.packinfo.digestdefined = [True] * len(folders)
        files = []
        si = 0
        for i in range(nfiles):
            es = not (si < nstream and (nfiles - i) <= (nstream - si) or (si < nstream and R.random() < 0.6))
            name = "".join(chr(R.choice([R.randrange(0x21, 0x7F), R.randrange(0xA1, 0x2FFF), R.randrange(0x10000, 0x10FFFF), R.randrange(1, 0x20)]))
                           for _ in range(R.choice([1, 2, 5, 40]))).replace("\\", "_")
            f = {"filename": name + str(i), "emptystream": es, "lastwritetime": ArchiveTimestamp(R.choice(times)),
                 "attributes": R.choice(attrs)}
            if ci % 3 == 1 and R.random() < 0.4:
                f["lastwritetime"] = None      # undefined entries must stay undefined
            if ci % 3 == 2 and R.random() < 0.4:
                f["attributes"] = None
            if not es:
                si += 1
            files.append(f)
            h.files_info.emptyfiles.append(es)
        # make sure exactly nstream non-empty entries
        ne = [f for f in files if not f["emptystream"]]
        while len(ne) > nstream:
            ne.pop()["emptystream"] = True
        while len(ne) < nstream:
            f = next(f for f in files if f["emptystream"])
            f["emptystream"] = False
            ne.append(f)
        h.files_info.files = files
        h.files_info.emptyfiles = [False] * sum(1 for f in files if f["emptystream"])
        for encoded in (False, True):
            buf = io.BytesIO()
            buf.write(b"\0" * 32)
            try:
                (pos, ln, crc) = h.write(buf, 32, encoded=encoded, encrypted=False)
                raw = buf.getvalue()
                hb = io.BytesIO(raw[pos:pos + ln])
                fp = io.BytesIO(raw)
                h2 = ai.Header.retrieve(fp, hb, 32, None)
            except Exception as ex:
                traces.append([{"e": "raised", "what": f"header roundtrip encoded={encoded}: {ex!r}"}])
                continue
            try:
                evs = []
                ms2 = h2.main_streams

                def fld(kind, a, b):
                    evs.append({"e": "field", "kind": kind, "stored": a, "loaded": b})

                fld("packsizes", [le8(x) for x in ms.packinfo.packsizes], [le8(x) for x in ms2.packinfo.packsizes])
                fld("packcrc", [le8(x) for x in ms.packinfo.crcs], [le8(x) for x in ms2.packinfo.crcs])
                fld("unpacksizes", [le8(x) for x in sizes], [le8(x) for x in (ms2.substreamsinfo.unpacksizes or [f.get_unpack_size() for f in ms2.unpackinfo.folders])])
                fld("folderunpack", [le8(fo.unpacksizes[-1]) for fo in ms.unpackinfo.folders], [le8(fo.unpacksizes[-1]) for fo in ms2.unpackinfo.folders])
                fld("counts", list(counts), list(ms2.substreamsinfo.num_unpackstreams_folders))
                fld("digests", [le8(x) if d else ["U"] for x, d in zip(crcs, ddef)],
                    [le8(x) if d else ["U"] for x, d in zip(ms2.substreamsinfo.digests, ms2.substreamsinfo.digestsdefined)])
                fld("digestsdefined", [int(d) for d in ddef], [int(d) for d in ms2.substreamsinfo.digestsdefined])
                fld("numfiles", [len(files)], [len(h2.files_info.files)])
                for a, b in zip(files, h2.files_info.files):
                    fld("name", [ord(c) for c in a["filename"]], [ord(c) for c in b.get("filename", "")])
                    fld("mtime", le8(int(a["lastwritetime"])) if a["lastwritetime"] is not None else ["U"],
                        le8(int(b["lastwritetime"])) if b.get("lastwritetime") is not None else ["U"])
                    fld("attr", le8(a["attributes"]) if a["attributes"] is not None else ["U"],
                        le8(b["attributes"]) if b.get("attributes") is not None else ["U"])
                    fld("emptystream", [int(a["emptystream"])], [int(b["emptystream"])])
            except Exception as ex:  # noqa  (a header that does not even have the sections back)
                traces.append([{"e": "raised", "what": f"header roundtrip compare encoded={encoded}: {ex!r}"}])
                continue
            traces.append(evs)
            ev.case(("hdr", ci, encoded))
    return traces


def replay(path, rep, ev):
    py7zr = import_py7zr()
    import py7zr.archiveinfo as ai

    r = json.load(open(path))["replay"]
    print("replaying", r)
    if r.get("op") == "wnum":
        print("write_uint64 ->", bytes(_w_num(ai, r["v"])).hex())
    elif r.get("op") == "rnum":
        print("read_uint64 ->", _r_num(ai, r["enc"]))
