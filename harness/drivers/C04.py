"""C04  Damage is detected: no success with different content.

D  Integrity.tla: the coverage map of the integrity mechanisms (which checksum covers which region on which read path) over
   all layouts x regions x paths; invariants NoWrongSuccess, HeaderCovered (since the repair py7zr stores the CRC of the
   decoded header of an encoded header, as the reference writer can; layouts without it come from foreign writers).
R  sample archives (py7zr-written and reference-written; every codec family in thorough; with and without AES; raw and
   encoded header; 1..4 folders; per-file CRCs): EVERY single-bit flip, truncations, byte overwrites, bursts, block swaps,
   insertions/removals, extensions; each image is read in a sandbox through extractall, extract(T), test() and testzip().
T  TraceIntegrity: never success with different content; intact archive reads and tests clean; test()/testzip() never
   certify an image whose members would not extract to their original bytes.  Hangs are counted here and judged by C05.
"""
import json
import os

from .. import tlc, sandbox, damage
from ..common import import_py7zr, rng, scratch, MachineryError
from .C15 import validate

LEVEL = "fault_enumeration"


def classify(tr, l):
    e = tr[l - 1] if 0 < l <= len(tr) else {}
    img = tr[0]
    key = f"{img.get('archive')}:{img.get('region')}:{e.get('path')}:"
    if e.get("outcome") == "different":
        key += "success-with-different-content"
    elif img.get("intact"):
        key += "intact-archive-reported-damaged-or-failed:" + str(e.get("exc"))
    else:
        key += "certified-although-unextractable"
    return key, {"image": img, "event": e}


def run(tier, rep, ev):
    py7zr = import_py7zr()
    R = rng("c04")
    r = tlc.run("IntegrityMC", "IntegrityMC.cfg", workers=8)
    ev.add_tlc(r, "IntegrityMC(2 folders, all layouts x regions x paths)")
    if not r.ok:
        rep.note_drift(f"coverage model violates {r.violated}")
    archives = damage.sample_archives(py7zr, R, tier)
    cases, meta = [], []
    for label, raw, pw, regions in archives:
        names0, data0 = damage.pristine_map(py7zr, raw, pw)
        targets = [[names0[-1]], [names0[0]]] if names0 else [[]]
        multi = "1folders" not in label
        todir = ":todir:" in label
        cases.append((raw, pw, names0, data0, targets, False, False, todir))
        meta.append({"e": "img", "archive": label, "region": "none", "damage": "intact", "what": "", "intact": True})
        if multi:
            cases.append((raw, pw, names0, data0, targets, True))
            meta.append({"e": "img", "archive": label, "region": "none", "damage": "intact", "what": "by name", "intact": True})
        dmg = list(damage.damages(raw, regions, R, tier))
        if "enchdr" in label and tier == "quick":
            # every open derives the AES key (2^19 rounds): in quick only the packed header, every 5th damage
            dmg = [x for x in dmg if (damage.region_at(regions, x[3]) or "").startswith("hdrpack")][::5] + dmg[:6]
        for kind, what, img, off in dmg:
            region = damage.region_at(regions, off) if kind != "extend" else "trailing"
            # multi-folder archives: opened by file name as well (worker threads, one per folder); every other image in quick
            modes = [False]
            if multi:
                modes = [True, False] if tier != "quick" else [len(cases) % 2 == 1]
            for bypath in modes:
                cases.append((img, pw, names0, data0, targets, bypath, bypath and len(cases) % 8 == 1, todir))      # every 8th by-name image: worker processes too
                meta.append({"e": "img", "archive": label, "region": region, "damage": kind, "what": what + (" (by name)" if bypath else ""), "intact": False})
    outs = sandbox.run_cases(damage.probe, cases, timeout=30, nproc=16, slice_size=40, mem=2 << 30, max_hangs=40)
    traces, origins = [], []
    cov = {}
    hangs = 0
    for m, c, o in zip(meta, cases, outs):
        ev.case((m["archive"], m["damage"], m["what"]), nontrivial=not m["intact"])
        k = (m["archive"].split(":")[0], m["region"].rstrip("0123456789"), m["damage"])
        if o.status == "ok":
            traces.append([m] + o.value["outs"])
            origins.append({"archive": m["archive"], "damage": m["damage"], "what": m["what"], "image": c[0], "password": c[1]})
            res = "/".join(sorted({e["outcome"] for e in o.value["outs"]}))
            cov.setdefault("|".join(k), {}).setdefault(res, 0)
            cov["|".join(k)][res] += 1
        elif o.status in ("hang", "skipped"):
            hangs += 1          # termination is C05's property; counted here
        elif o.status == "mem":
            hangs += 1
        else:
            rep.violation(f"probe-{o.status}:{m['archive']}:{m['region']}", f"{m['archive']} {m['damage']} {m['what']}: {o.status} {o.value} {o.detail[-300:]}",
                          {"archive": m["archive"], "damage": m["damage"], "what": m["what"], "image": c[0]})
    ev.cov["hangs_or_memory_seen_(judged_by_C05)"] = hangs
    ev.cov["outcomes_by_writer_region_damage"] = cov
    ev.sample({"archive": archives[0][0], "size": len(archives[0][1]), "regions": archives[0][3]})
    ev.sample({"trace": traces[5]})
    validate("C04", traces, rep, ev, spec="TraceIntegrity", cfg="TraceIntegrity.cfg", classify_fn=classify, origins=origins, batch=6000)
    ev.cov["exhaustive"] = True
    ev.cov["rule"] = (f"{len(archives)} sample archives x every single-bit flip (every byte, all 8 bits for archives <= 700 bytes in quick, all in thorough) + "
                      "truncation lengths + overwrites/bursts + block swaps + insert/remove + extension; each image through extractall, 2x extract(T), "
                      "test, testzip; distinct = (archive, damage)")
    ev.assumptions += ["CRC32 detects every burst <= 32 bits; longer damage with probability 1 - 2^-32"]


def replay(path, rep, ev):
    from ..common import unhex

    py7zr = import_py7zr()
    r = unhex(json.load(open(path))["replay"])
    o = r.get("origin") or r
    print(o.get("archive"), o.get("damage"), o.get("what"))
    img = o.get("image")
    if img:
        import io
        try:
            with py7zr.SevenZipFile(io.BytesIO(img), password=o.get("password")) as z:
                print(z.getnames())
                f = py7zr.io.BytesIOFactory(1 << 28)
                z.extractall(factory=f)
                print({k: len(v.read()) for k, v in f.products.items()})
        except Exception as e:  # noqa
            print("raised", repr(e))
