"""C01  Content round trip for every codec chain.

D  Stream.tla (chunked decode glue: every chunking, block size, chunk limit, honouring/ignoring decoders, short streams;
   safety + liveness; negative control without the stall guard), Config.tla (the configuration space; ValidChain transcribes
   SevenZipCompressor.__init__), WriteSession.tla (members listed = members written).
R  every valid chain TLC emits is executed with real codecs: quick = each chain once, the other dimensions (header mode,
   password, target kind, block size, chunk limit, sizes around the AES block / I/O block / chunk limit, textures, Unicode
   names) drawn from the seed; thorough = chain x header mode x target.
T  the session trace is validated against TraceWriteSession (names in order, bytes identical), every decoder and AES
   object's step trace against TraceStream (carry-over arithmetic, 16-byte residue arithmetic, exact member sizes).
"""
import json
import os
import shutil

from .. import tlc, sandbox, roundtrip, lifecycle
from ..common import import_py7zr, rng, scratch, MachineryError
from .C15 import validate

LEVEL = "model_checking"


def stream_classify(tr, l):
    e = tr[l - 1] if 0 < l <= len(tr) else {}
    kind = tr[0].get("kind", "?") if tr else "?"
    return f"stream-trace-rejected:{kind}:{e.get('e', '?')}", e


def session_classify(tr, l):
    e = tr[l - 1] if 0 < l <= len(tr) else {}
    key = "session-trace-rejected:" + e.get("e", "?")
    if e.get("e") == "reopen":
        key += ":unreadable:" + e.get("err", "").split(":")[0] if not e.get("ok") else ":wrong-members"
    if e.get("e") == "ret":
        key += ":" + e.get("exc", "").split(":")[0]
    return key, e


def run(tier, rep, ev):
    py7zr = import_py7zr()
    R = rng("c01")
    # ---- D
    r = tlc.run("StreamMC", "StreamMC.cfg", workers=16)
    ev.add_tlc(r, "StreamMC (safety + liveness)")
    if not r.ok:
        rep.note_drift(f"Stream model violates {r.violated}")
    rn = tlc.run("StreamMC", "StreamMC_unguarded.cfg", workers=4)
    ev.cov["negative_control"] = {"cfg": "StreamMC_unguarded.cfg", "violated": rn.violated or "NOTHING"}
    if rn.ok:
        raise MachineryError("negative control failed: the unguarded loop satisfies Terminates")
    d = scratch("c01")
    out = os.path.join(d, "cfg.json")
    rc = tlc.run("Config", "Config.cfg", workers=4, env={"OUT_FILE": out})
    ev.add_tlc(rc, "Config")
    if not rc.ok:
        raise MachineryError(f"Config.tla: {rc.violated} {rc.out[-800:]}")
    cfg = json.load(open(out))
    # constructor verdict vs the transcription (drift) and vs the documentation (alarm)
    from py7zr.compressor import SevenZipCompressor
    from py7zr.exceptions import UnsupportedCompressionMethodError

    valid_chains = []
    for c in cfg["chains"]:
        filters = roundtrip.make_filters(c["chain"], R, params=False)
        try:
            SevenZipCompressor(filters=filters, password="x" if "AES" in c["chain"] else None)
            real = True
        except Exception as e:  # noqa
            real = False
            err = repr(e)
        if real != c["valid"]:
            rep.note_drift(f"constructor {'accepts' if real else 'rejects'} {c['chain']} but Config.ValidChain says {c['valid']}")
        if c["doc"] and not real:
            rep.violation("documented-chain-rejected", f"chain {c['chain']} is listed as possible in docs/api.rst but raises {err}", {"chain": c["chain"]})
        if real:
            valid_chains.append(c["chain"])
    # ---- R/T
    base = scratch("c01w")
    cases = []
    blocks = [None, 1000, 4096, 17, 65536]
    limits = [None, 7, 100, 1000, 5000]

    def mk(chain, header, target, i, pw=None):
        needs = "AES" in chain or header == "encrypted"
        block = R.choice(blocks[1:]) if i % 5 else None
        # (with the default 1 MiB block the members are MiB-sized: a chunk limit of a few bytes would mean 10^5 decode steps per member)
        limit = (R.choice(limits[1:]) if i % 3 else None) if block else R.choice([None, 300000, 1000003])
        return {"chain": chain, "password": needs or (pw if pw is not None else R.random() < 0.3), "header": header, "target": target,
                "block": block, "limit": limit,
                "seed": R.getrandbits(32), "extract": ["path", "factory", "hash", "factory"][i % 4], "wd": os.path.join(base, f"c{i}"),
                "params": i % 2 == 0}

    i = 0
    if tier == "quick":
        for ch in valid_chains:
            i += 1
            cases.append(mk(ch, R.choice(["raw", "encoded", "encoded", "encrypted"]), R.choice(["path", "bytesio", "buffered", "multivolume"]), i))
    else:
        for ch in valid_chains:
            for h in ("raw", "encoded", "encrypted"):
                for t in ("path", "bytesio", "buffered", "multivolume"):
                    i += 1
                    cases.append(mk(ch, h, t, i))
    # default (large) block with sizes around 1 MiB for a few chains
    for ch in ([["LZMA2"], ["Copy", "AES"], ["X86", "Deflate"]] if tier == "quick" else valid_chains[::4]):
        i += 1
        c = mk(ch, "encoded", "path", i)
        c.update(block=None, limit=None if tier != "quick" else 300000, sizes=[(1 << 20) - 1, (1 << 20) + 1, 17, 0, 2 * (1 << 20) + 1])
        cases.append(c)
    # the empty archive and single-member archives of every alignment 0..33 under AES
    for n in range(0, 34):
        i += 1
        c = mk(["Copy", "AES"] if n % 2 else ["AES"], "encoded", "bytesio", i)
        c.update(sizes=[n], block=R.choice([16, 17, 1000]), limit=R.choice([5, 16, 1000]))
        cases.append(c)
    i += 1
    c = mk(["LZMA2"], "encoded", "path", i)
    c.update(sizes=[])
    cases.append(c)
    # multi-volume targets whose volume size is not a multiple of the AES block: short reads leave a residue in the decryptor
    for ch in (["Copy", "AES"], ["LZMA2", "AES"], ["ZStd", "AES"], ["X86", "BZip2", "AES"], ["Deflate"]):
        for blk, vol in ((4096, 10007), (1000, 10007), (None, 70001), (4096, 70001)):
            i += 1
            c = mk(ch, "encoded", "multivolume", i)
            c.update(block=blk, volume=vol, limit=None, sizes=[30011, 16, 5000] if blk else [300000, 17])
            cases.append(c)

    # volumes much smaller than one block of the codec, incompressible content: every read of packed data is short (it ends at a
    # volume boundary) and block codecs return nothing for many calls in a row before a block is complete
    for ch in (["BZip2"], ["LZMA2"], ["Deflate"], ["ZStd"], ["BZip2", "AES"], ["X86", "BZip2"]) if tier == "quick" else [c for c in valid_chains if "PPMd" not in c][::2]:
        for vol in ((1024,) if tier == "quick" else (1024, 3001)):
            i += 1
            c = mk(ch, "encoded", "multivolume", i)
            c.update(block=None, volume=vol, limit=None, sizes=[400000, 33], texture="random")
            cases.append(c)

    def tmo(c):
        return 180 if not c.get("block") else 90

    outs = sandbox.run_cases(roundtrip.run_case, cases, timeout=120, nproc=16, timeout_fn=tmo)
    # a child serves several cases: when the interpreter dies, the case it was at is run again in a child of its own (a C extension
    # that corrupted the heap during an EARLIER case of the same child makes a later, innocent one crash anywhere - e.g. inside an
    # import); only a case that kills a fresh interpreter as well is judged further
    crashed = [k for k, o in enumerate(outs) if o.status == "crash"]
    if crashed:
        again = sandbox.run_cases(roundtrip.run_case, [cases[k] for k in crashed], timeout=300, nproc=4, slice_size=1)
        for k, o2 in zip(crashed, again):
            if o2.status != "crash":
                outs[k] = o2
        ev.cov["crashes_not_reproduced_in_a_fresh_child"] = sum(1 for k in crashed if outs[k].status != "crash")
    sess, sorig, streams, strorig = [], [], [], []
    failed = [k for k, (c, o) in enumerate(zip(cases, outs)) if o.status != "ok" or not o.value["session"][-1].get("ok", True)]
    # isolate the delegated BCJ library (filters next to anything the lzma module does not chain itself): the pieces py7zr handed to
    # it, pushed through the library alone, against the same bytes pushed through at once
    bsus = [k for k in failed if set(cases[k]["chain"]) & set(roundtrip.BCJ_NAMES) and outs[k].status == "ok"]
    biso = sandbox.run_cases(roundtrip.bcj_log_check, [dict(cases[k], wd=cases[k]["wd"] + "-b") for k in bsus], timeout=300, nproc=8)
    bcj_bad = {k: r.value for k, r in zip(bsus, biso) if r.status == "ok" and r.value != "ok"}
    for k in sorted(bcj_bad):
        rep.violation("delegated-codec:bcj", f"configuration {cases[k]['chain']}: {bcj_bad[k]}", {"case": {a: b for a, b in cases[k].items() if a != "wd"}})
    # isolate the delegated PPMd library: when a PPMd configuration fails, does pyppmd alone round-trip the same data?
    suspects = [k for k in failed if "PPMd" in cases[k]["chain"] and k not in bcj_bad]
    iso = sandbox.run_cases(roundtrip.ppmd_selfcheck, [cases[k] for k in suspects], timeout=120, nproc=8)
    ppmd_bad = {k for k, r in zip(suspects, iso) if not (r.status == "ok" and r.value == "ok")}
    # second isolation: the exact calls py7zr made on pyppmd's decoder, logged and replayed against pyppmd alone (a crash counts)
    rest = [k for k in suspects if k not in ppmd_bad]
    if rest:
        logs = {k: os.path.join(base, f"ppmd-{k}.log") for k in rest}
        sandbox.run_cases(roundtrip.ppmd_log_calls, [dict(cases[k], ppmd_log=logs[k], wd=cases[k]["wd"] + "-l") for k in rest], timeout=300, nproc=8)
        rep2 = sandbox.run_cases(roundtrip.ppmd_replay_calls, [logs[k] for k in rest], timeout=300, nproc=8)
        for k, r in zip(rest, rep2):
            if not (r.status == "ok" and r.value == "ok"):
                ppmd_bad.add(k)
                suspects_idx = suspects.index(k)
                iso[suspects_idx] = r if r.status != "ok" else sandbox.Outcome("ok", r.value)
    for k in sorted(ppmd_bad):
        r = iso[suspects.index(k)]
        rep.violation("delegated-codec:pyppmd", f"pyppmd alone fails on the data of configuration {cases[k]['chain']}: {r.status} {r.value}",
                      {"case": {a: b for a, b in cases[k].items() if a != "wd"}})
    for k, (c, o) in enumerate(zip(cases, outs)):
        desc = {k2: v for k2, v in c.items() if k2 != "wd"}
        ev.case(json.dumps(desc, default=str))
        if k in ppmd_bad or k in bcj_bad:
            continue
        if o.status == "ok":
            sess.append(o.value["session"])
            sorig.append({"case": desc, "sizes": o.value["sizes"], "filters": o.value["filters"]})
            for t in o.value["stream"]:
                streams.append(t)
                strorig.append({"case": desc, "sizes": o.value["sizes"]})
        elif o.status == "hang":
            rep.violation("hang:" + "+".join(c["chain"]), f"round trip did not finish: {o.detail[:600]}", {"case": desc})
        elif o.status == "crash":
            rep.violation("interpreter-crash:" + "+".join(c["chain"]), f"round trip killed the interpreter: {o.detail[:400]}", {"case": desc})
        else:
            rep.violation("roundtrip-raised:" + str(o.value[0] if isinstance(o.value, tuple) else o.value),
                          f"valid configuration raised {o.value}: {o.detail[-600:]}", {"case": desc})
    ev.sample({"configuration": sorig[0] if sorig else None})
    if sess:
        ev.sample({"session_trace": sess[0][:6]})
    if streams:
        ev.sample({"stream_trace": streams[len(streams) // 2][:6]})
    validate("C01", sess, rep, ev, classify_fn=session_classify, origins=sorig)
    validate("C01", streams, rep, ev, spec="TraceStream", cfg="TraceStream.cfg", classify_fn=stream_classify, origins=strorig, batch=1500)
    # ---- the creating object around its write calls (Lifecycle.tla, mode w): read-side calls in between, calls after close()
    rl = tlc.run("Lifecycle", "Lifecycle.cfg", workers=4)
    ev.add_tlc(rl, "Lifecycle(calls<=5)")
    if not rl.ok:
        rep.note_drift(f"Lifecycle model violates {rl.violated}")
    lifecycle.run("C01", ("w",), tier, R, rep, ev, validate)
    ev.cov["valid_chains"] = len(valid_chains)
    ev.cov["exhaustive"] = False
    ev.cov["rule"] = ("every chain accepted by the constructor among [pre] main [AES] + AES alone (TLC-enumerated), " +
                      ("each once with other dimensions by seed" if tier == "quick" else "x header mode x target kind") +
                      "; sizes around 16 / I/O block / chunk limit; AES alignments 0..33; distinct = distinct configurations")
    ev.assumptions += ["I/O block size and chunk limit are varied by replacing get_default_blocksize/get_memory_limit (no public knob)",
                       "delegated codecs are lossless (observed by hash equality, not modelled)"]
    shutil.rmtree(base, ignore_errors=True)
    shutil.rmtree(d, ignore_errors=True)


def replay(path, rep, ev):
    from ..common import unhex

    r = unhex(json.load(open(path))["replay"])
    case = (r.get("origin") or r).get("case")
    if case:
        case["wd"] = scratch("rp")
        if "sizes" in (r.get("origin") or {}):
            case.setdefault("sizes", r["origin"]["sizes"])
        o = sandbox.run_one(roundtrip.run_case, case, timeout=300)
        print(o.status, json.dumps(o.value, default=str)[:3000] if o.status == "ok" else (o.value, o.detail))
    else:
        print(json.dumps(r, indent=1)[:3000])
