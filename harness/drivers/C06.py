"""C06  Reader conformance: any valid 7z layout is read as the format defines it.

D  Header.tla: Sem(L) (the format's assignment of substreams, CRCs and kinds to members) against ReaderAlgo(L) (py7zr's
   cursor over folders/streams, SubstreamsInfo defaults, kind from attributes or empty-stream/empty-file flags) for EVERY
   layout within the bounds (<= 3 files quick / 4 thorough, <= 2/3 folders incl. folders without streams, CRC placement
   substream / folder / none, NumUnpackStream and SubStreamsInfo omitted, attributes undefined).  Negative control: the reader
   that derives directories from attributes only.
R  every layout TLC emits (sampled in quick) is written by the independent reference writer with real coders and further
   physical choices drawn from the seed (coder chain per folder, packed CRCs, packpos > 0, kDummy padding, EmptyFile vector,
   partially defined time/attribute vectors, non-minimal NUMBERs, raw / LZMA / AES header) and read by py7zr.
G  Folder.tla: the coder graph of a folder (record order, bind pairs in any order) against the reader's walk; every well-formed
   graph of <= 4 simple coders from GenFolder x coder chains that do not commute x CRC placement is written by the reference
   writer and read by py7zr; the parsed pairs and the pipeline the reader built are validated by TraceFolder.  Negative
   control: the reader that decodes in record order.
T  TraceHeader: listing, extractall(factory) and extractall(directory) compared with Sem(L): names, kinds, folder, CRC known, sizes, bytes,
   timestamps and attributes.  The third-party fixtures are compared member by member with the reference reader.
"""
import hashlib
import io
import json
import os
import random

from .. import tlc, sandbox, layouts
from ..common import import_py7zr, rng, scratch, MachineryError
from .C15 import validate

LEVEL = "model_checking"

CFG = """SPECIFICATION Spec
CONSTANT MaxFiles = %d
CONSTANT MaxFolders = %d
CONSTANT DirFallback = %s
INVARIANT Conforms
CHECK_DEADLOCK FALSE
"""
CODERS = [["lzma2"], ["lzma"], ["copy"], ["bzip2"], ["deflate"], ["bcj", "lzma"], ["delta", "lzma2"], ["lzma2", "aes"], ["copy", "aes"], ["arm", "lzma2"]]


def to_layout(L, seed):
    """TLA+ layout record -> reference-writer layout + expected member data"""
    R = random.Random(seed)
    files, datas = [], []
    for i, f in enumerate(L["files"]):
        # names: a code unit whose low byte is 00 right after a Latin-1 character (一, combining accent, U+3000, U+0100), astral planes
        name = f"{['d', 'x一', 'sub/e\u0300', 'ü', 'a\u3000b', 'f', 'n\U0001F600', '\u0100z', 'sub/k\U00020BB7', 'g'][(i + seed) % 10]}{i}"
        e = {"name": name, "kind": {"file": "file", "dir": "dir", "empty": "empty"}[f["k"]]}
        if f["k"] == "file":
            n = R.choice([1, 5, 40, 300, 2000])
            e["data"] = bytes(R.getrandbits(8) for _ in range(n))
            if f["attr"] and i > 0 and R.random() < 0.2:
                # physically a symbolic link (a file member whose content is the target, unix mode S_IFLNK): to an earlier member's name
                e["kind"] = "symlink"
                e["data"] = os.path.relpath(files[R.randrange(len(files))]["name"], os.path.dirname(name) or ".").encode()
        if not f["attr"]:
            e["attrib"] = None
        elif f["k"] != "dir" and e["kind"] != "symlink" and R.random() < 0.1:
            e["attrib"] = 0                       # a defined attribute word with no bit set (other writers store it)
        tm = R.random()
        if tm < 0.6:
            e["mtime"] = 132223104000000000 + R.randrange(10 ** 15)
        elif tm < 0.8:
            e["mtime"] = None
        elif tm < 0.85:
            e["mtime"] = 0                        # FILETIME 0: defined
        if R.random() < 0.3:
            e["ctime"] = 116444736000000000 + R.randrange(10 ** 17)
        if R.random() < 0.3:
            e["atime"] = 116444736000000000 + R.randrange(10 ** 17)
        files.append(e)
        datas.append(e.get("data"))
    need_pw = False
    folders = []
    all_aes = len(L["folders"]) >= 2 and R.random() < 0.15
    for fo in L["folders"]:
        ch = R.choice(CODERS) if not all_aes else R.choice([["lzma2", "aes"], ["copy", "aes"]])
        need_pw |= "aes" in ch
        # 7zAES coders with a salt of their own (other writers salt; two folders of one archive then need two different keys)
        folders.append({"nfiles": fo["n"], "coders": [dict({"id": c}, **({"dist": R.randint(1, 8)} if c == "delta" else
                                                                        {"salt": R.randbytes(R.choice([0, 0, 4, 8, 16]))} if c == "aes" else {})) for c in ch],
                        "crc": {"sub": "substream", "folder": "folder", "none": "none"}[fo["crc"]]})
    hdr = R.choice(["raw", "lzma", "lzma", "aes"])
    lay = {"files": files, "omit_numunpack_if_all_one": bool(L["omitnum"]), "emptyfile_vector": L["efvec"],
           "packpos": R.choice([0, 0, 3, 17]), "packcrc": R.choice([False, False, True, True, "partial"]), "dummy": R.choice([None, None, 0, 3, 130]),
           "attrib_vector": R.choice(["auto", "explicit"]), "time_vector": R.choice(["auto", "explicit"]), "number_pad": R.choice([0, 0, 1, 2, 8]),
           "header": hdr, "header_folder_crc": R.random() < 0.7}
    if folders:
        lay["folders"] = folders
    if need_pw or hdr == "aes":
        lay["password"] = "secret"
    return lay, datas


def big_layout(R, n):
    """a well-formed layout record (Header.tla's WellFormedLayout) with n files"""
    files = [{"k": R.choice(["file", "file", "file", "dir", "empty"]), "attr": R.random() < 0.6} for _ in range(n)]
    nd = sum(1 for f in files if f["k"] == "file")
    folders, left = [], nd
    while left > 0:
        k = R.choice([1, 1, 1, 2, 3, left]) if left > 1 else 1
        k = min(k, left)
        if R.random() < 0.1:
            folders.append({"n": 0, "crc": R.choice(["sub", "none"])})
        folders.append({"n": k, "crc": R.choice(["sub", "sub", "folder", "none"])})
        left -= k
    omit = all(f["n"] == 1 for f in folders) and R.random() < 0.5
    nosub = omit and all(f["crc"] != "sub" for f in folders) and R.random() < 0.5
    return {"files": files, "folders": folders, "omitnum": omit, "nosub": nosub, "efvec": R.choice(["auto", "always"])}


def read_case(case):
    """write the layout with the reference writer, read it with py7zr; runs in a sandbox child"""
    py7zr = import_py7zr()
    L, seed = case
    lay, datas = to_layout(L, seed)
    try:
        raw, _ = layouts.write_archive(lay)
        ref = layouts.ref_members(raw, lay.get("password"))
    except layouts.RefCodecError as e:
        return {"e": "skip", "why": f"reference writer/reader: {e}"}
    obs = {"e": "observed", "ok": True, "exc": "", "members": []}
    try:
        with py7zr.SevenZipFile(io.BytesIO(raw), password=lay.get("password")) as z:
            names = z.getnames()
            fac = py7zr.io.BytesIOFactory(1 << 28)
            z.extractall(factory=fac)
            folders = z.header.main_streams.unpackinfo.folders if getattr(z.header, "main_streams", None) is not None else []
            used = [k for k, fo in enumerate(folders)]
            for i, f in enumerate(z.files):
                want = lay["files"][i] if i < len(lay["files"]) else {}
                fo = f._file_info.get("folder")
                fidx = 1 + next(k for k, x in enumerate(folders) if x is fo) if fo is not None else 0
                kind = "dir" if f.is_directory else ("file" if not f.emptystream else "empty")
                prod = fac.products.get(f.filename)
                data = prod.read() if prod is not None else None
                exp = datas[i] if i < len(datas) else None
                mt = int(f.lastwritetime) if f.lastwritetime is not None else None
                at = f._file_info.get("attributes")
                wat = want.get("attrib", "default")
                others = all((int(f._file_info[k]) if f._file_info.get(k) is not None else None) == want.get(w)
                             for k, w in (("creationtime", "ctime"), ("lastaccesstime", "atime")))
                if want.get("kind") == "symlink":
                    others = others and f.is_symlink
                obs["members"].append({"kind": kind, "folder": fidx, "crc": f.crc32 is not None,
                                       "name": f.filename == want.get("name"), "size": f.uncompressed == (len(exp) if exp else 0),
                                       "bytes": (data == exp) if exp is not None else (data in (None, b"")),
                                       "meta": (mt == want.get("mtime")) and (wat == "default" or at == wat) and (ref[i]["attrib"] == at) and others})
            # the same archive into a directory: files with their bytes and (where defined) modification times, directories present
            import shutil
            import tempfile
            od = tempfile.mkdtemp(prefix="c06-", dir="/dev/shm" if os.path.isdir("/dev/shm") else None)
            try:
                z.reset()
                z.extractall(path=od)
                for i, f in enumerate(z.files):
                    want = lay["files"][i] if i < len(lay["files"]) else {}
                    p = os.path.join(od, f.filename)
                    m = obs["members"][i]
                    if m["kind"] == "dir":
                        m["bytes"] = m["bytes"] and os.path.isdir(p)
                    elif want.get("kind") == "symlink":
                        m["bytes"] = m["bytes"] and os.path.islink(p) and os.readlink(p).encode() == (datas[i] or b"")
                    else:
                        exp = datas[i] or b""
                        m["bytes"] = m["bytes"] and os.path.isfile(p) and not os.path.islink(p) and open(p, "rb").read() == exp
                        if want.get("mtime") is not None and os.path.isfile(p) and not os.path.islink(p):
                            secs = (want["mtime"] - 116444736000000000) / 10 ** 7
                            m["meta"] = m["meta"] and abs(os.path.getmtime(p) - secs) < 2e-6 * max(1.0, abs(secs)) + 1e-3
            finally:
                shutil.rmtree(od, ignore_errors=True)
    except Exception as e:  # noqa
        obs["ok"] = False
        obs["exc"] = type(e).__name__ + ":" + str(e)[:100]
    safe = json.loads(json.dumps({k: v for k, v in lay.items() if k not in ("files",)}, default=lambda o: o.hex() if isinstance(o, (bytes, bytearray)) else repr(o)))
    return [{"e": "lay", "lay": L, "writer": safe}, obs]


def bcj_chunking_check(case):
    """Isolate the delegated BCJ library (package 'bcj', used for BCJ filters next to LZMA1 and the non-native codecs): log the pieces
    py7zr hands to each of its decoders while reading the layout, then decode the same bytes with the library ALONE, once in one
    piece and once in the logged pieces.  A difference between the two is the library's (its output depends on the chunking)."""
    py7zr = import_py7zr()
    import py7zr.compressor as C
    L, seed = case
    lay, datas = to_layout(L, seed)
    raw, _ = layouts.write_archive(lay)
    classes = [getattr(C, n) for n in ("BCJDecoder", "BcjArmDecoder", "BcjArmtDecoder", "BcjPpcDecoder", "BcjSparcDecoder")]
    logs = []
    saved = []
    for cls in classes:
        oi, od = cls.__init__, cls.decompress

        def init(self, size, _oi=oi, _cls=cls):
            _oi(self, size)
            self._vlog = {"cls": _cls.__name__, "size": size, "chunks": []}
            logs.append(self._vlog)

        def dec(self, data, max_length=-1, _od=od):
            self._vlog["chunks"].append(bytes(data))
            return _od(self, data, max_length)

        saved.append((cls, oi, od))
        cls.__init__, cls.decompress = init, dec
    try:
        try:
            with py7zr.SevenZipFile(io.BytesIO(raw), password=lay.get("password")) as z:
                z.extractall(factory=py7zr.io.BytesIOFactory(1 << 28))
        except Exception:  # noqa
            pass
    finally:
        for cls, oi, od in saved:
            cls.__init__, cls.decompress = oi, od
    import bcj
    lib = {"BCJDecoder": bcj.BCJDecoder, "BcjArmDecoder": bcj.ARMDecoder, "BcjArmtDecoder": bcj.ARMTDecoder, "BcjPpcDecoder": bcj.PPCDecoder,
           "BcjSparcDecoder": bcj.SparcDecoder}
    for lg in logs:
        whole = b"".join(lg["chunks"])
        one = lib[lg["cls"]](lg["size"]).decode(whole)
        d = lib[lg["cls"]](lg["size"])
        pieces = b"".join(d.decode(c) for c in lg["chunks"])
        if one != pieces:
            return f"{lg['cls']}: decoding {len(whole)} bytes in the pieces {[len(c) for c in lg['chunks']][-6:]} differs from decoding them at once"
    return "consistent"


def classify(tr, l):
    o = tr[1]
    L = tr[0]["lay"]
    if not o.get("ok"):
        key = "valid-layout-rejected:" + o.get("exc", "").split(":")[0]
    else:
        key = "misread"
        for i, m in enumerate(o.get("members", [])):
            bad = [k for k in ("name", "size", "bytes", "meta") if not m.get(k)]
            if bad:
                key += ":" + "+".join(bad)
                break
        else:
            key += ":kind-folder-or-crc"
    feats = []
    if any(f["n"] == 0 for f in L["folders"]):
        feats.append("streamless-folder")
    if any(f["crc"] != "sub" for f in L["folders"]):
        feats.append("folder-crc-or-none")
    if any(not f["attr"] for f in L["files"]):
        feats.append("attr-undefined")
    if len(L["folders"]) > 1:
        feats.append("multi-folder")
    w = tr[0].get("writer", {})
    return key + ":" + ",".join(feats), {"layout": L, "writer": w, "observed": o}


def fixture_case(case):
    py7zr = import_py7zr()
    name, raw, pw = case
    out = {"name": name, "ref": None, "py": None}
    try:
        ms = layouts.ref_members(raw, pw)
        # py7zr turns Windows separators into '/', on purpose
        out["ref"] = [(m["name"].replace("\\", "/"), m["kind"], m["size"], hashlib.sha1(m["data"] or b"").hexdigest()) for m in ms]
    except layouts.Unsupported as e:
        out["ref"] = "unsupported:" + str(e)[:60]
    except layouts.RefCodecError as e:
        out["ref"] = "error:" + str(e)[:80]
    try:
        with py7zr.SevenZipFile(io.BytesIO(raw), password=pw) as z:
            fac = py7zr.io.BytesIOFactory(1 << 30)
            z.extractall(factory=fac)
            res = []
            for f in z.files:
                kind = "dir" if f.is_directory else ("symlink" if f.is_symlink else ("file" if not f.emptystream else "empty"))
                p = fac.products.get(f.filename)
                if p is None:                      # products are keyed by the sanitised output path
                    try:
                        from py7zr.helpers import get_sanitized_output_path
                        p = fac.products.get(get_sanitized_output_path(f.filename, None).as_posix())
                    except Exception:  # noqa
                        p = None
                res.append((f.filename, kind, f.uncompressed, hashlib.sha1(p.read() if p is not None else b"").hexdigest()))
            out["py"] = res
    except Exception as e:  # noqa
        out["py"] = "raised:" + type(e).__name__
    return out


GRAPH_CHAINS = {1: [["lzma2"], ["copy"], ["bzip2"]],
                2: [["bcj", "lzma2"], ["delta", "lzma2"], ["bcj", "copy"], ["bcj", "deflate"], ["lzma2", "aes"], ["copy", "lzma2"],
                    ["delta", "lzma"], ["bcj", "lzma"], ["bcj", "bzip2"], ["copy", "aes"]],
                3: [["delta", "bcj", "lzma2"], ["bcj", "delta", "lzma2"], ["bcj", "lzma2", "aes"], ["arm", "ppc", "lzma2"],
                    ["delta", "lzma2", "aes"], ["bcj", "deflate", "aes"]],
                4: [["delta", "bcj", "lzma2", "aes"], ["bcj", "delta", "lzma2", "aes"], ["arm", "delta", "bcj", "lzma2"]]}


def _graph_data(seed, k):
    """content on which delta, the branch filters and the compressors all act (none of the chains commutes on it)"""
    R = random.Random(seed * 131 + k)
    code = b"".join(bytes([0xE8]) + R.randrange(0, 4000).to_bytes(4, "little") + bytes([0x90, R.randrange(256)]) for _ in range(120))
    arm = b"".join(R.randrange(0, 1 << 20).to_bytes(3, "little") + b"\xeb" for _ in range(100))
    ppc = b"".join(bytes([0x48 | R.randrange(4)]) + R.randrange(0, 1 << 16).to_bytes(2, "big") + bytes([(R.randrange(64) << 2) | 1]) for _ in range(100))
    return code + arm + ppc + bytes(R.randrange(256) for _ in range(R.choice([0, 15, 16, 17, 700])))


def graph_case(case):
    """one folder whose coder records stand in the positions / whose bind pairs are written in the order of a GenFolder graph"""
    py7zr = import_py7zr()
    import py7zr.archiveinfo as ai
    import copy
    g, chain, crc, nfiles, seed = case
    n, order = g["n"], list(g["order"])
    natural = [[order[j + 1], order[j]] for j in range(n - 1)]
    pairs = [list(p) for p in g["pairs"]]
    datas = [_graph_data(seed, k) for k in range(nfiles)]
    lay = {"files": [{"name": f"m{k}.bin", "data": d} for k, d in enumerate(datas)],
           "folders": [{"nfiles": nfiles, "coders": [{"id": c} for c in chain], "crc": crc,
                        "record_order": order, "bind_order": [natural.index(p) for p in pairs]}],
           "password": "pw" if "aes" in chain else None, "header": "raw"}
    try:
        raw, _ = layouts.write_archive(lay)
        ref = layouts.ref_members(raw, lay["password"])
        if [bytes(m["data"]) for m in ref] != datas:
            return {"e": "skip", "why": "reference reader disagrees with reference writer"}
    except layouts.RefCodecError as e:
        return {"e": "skip", "why": f"reference writer/reader: {e}"}
    log = []
    real_dec, real_get = ai.SevenZipDecompressor, ai.Folder.get_decompressor

    def spy_dec(coders, *a, **kw):
        log.append(list(coders))
        return real_dec(coders, *a, **kw)

    built = []

    def spy_get(self, *a, **kw):
        k0 = len(log)
        d = real_get(self, *a, **kw)
        if len(log) > k0 and not built:
            f2 = copy.copy(self)
            f2.unpacksizes = list(range(len(self.coders)))
            built.append({"n": len(self.coders), "pairs": [[b.incoder, b.outcoder] for b in self.bindpairs],
                          "order": [next(k for k, c in enumerate(self.coders) if c is x) for x in log[k0]],
                          "main": f2.get_unpack_size(), "packed": list(self.packed_indices)})
        return d

    ai.SevenZipDecompressor, ai.Folder.get_decompressor = spy_dec, spy_get
    obs = {"bytes": False, "sizes": False, "exc": ""}
    try:
        with py7zr.SevenZipFile(io.BytesIO(raw), password=lay["password"]) as z:
            obs["sizes"] = [f.uncompressed for f in z.files] == [len(d) for d in datas]
            fac = py7zr.io.BytesIOFactory(1 << 26)
            z.extractall(factory=fac)
            obs["bytes"] = [fac.products[f"m{k}.bin"].read() for k in range(nfiles)] == datas
    except Exception as e:  # noqa
        obs["exc"] = type(e).__name__ + ":" + str(e)[:100]
    finally:
        ai.SevenZipDecompressor, ai.Folder.get_decompressor = real_dec, real_get
    tr = []
    if built:
        b = built[0]
        tr = [{"e": "coders", "n": b["n"]}] + [{"e": "pair", "i": i, "o": o} for i, o in b["pairs"]] + [{"e": "built", "order": b["order"], "main": b["main"], "packed": b["packed"]}]
    return {"e": "graph", "obs": obs, "trace": tr, "parsed_as_written": (not built) or built[0]["pairs"] == pairs}


def graph_units(graphs):
    """every pair list TLC can write down for <= 4 coders - ill-formed ones included (repeated ends, cycles, self-loops) - handed to the
    real Folder object: get_decompressor() must come back (C05: the walk cannot loop) with the pipeline Folder.tla's walk yields"""
    import_py7zr()
    import py7zr.archiveinfo as ai
    real = ai.SevenZipDecompressor
    seen = []
    ai.SevenZipDecompressor = lambda coders, *a, **kw: seen.append(list(coders)) or object()
    out = []
    try:
        for g in graphs:
            # the folder record as bytes (n simple coders with a one-byte id, the pairs as one-byte NUMBERs), parsed by Folder._read itself
            rec = bytes([g["n"]]) + bytes([0x01, 0x21]) * g["n"] + bytes(x for pr in g["pairs"] for x in pr)
            f = ai.Folder.retrieve(io.BytesIO(rec))
            if [[b.incoder, b.outcoder] for b in f.bindpairs] != [list(pr) for pr in g["pairs"]] or len(f.coders) != g["n"]:
                raise MachineryError("Folder._read did not parse the record it was given")
            f.unpacksizes = list(range(g["n"]))
            del seen[:]
            f.get_decompressor(0)
            order = [next(k for k, c in enumerate(f.coders) if c is x) for x in seen[0]]
            out.append([{"e": "coders", "n": g["n"]}] + [{"e": "pair", "i": i, "o": o} for i, o in g["pairs"]] +
                       [{"e": "built", "order": order, "main": f.get_unpack_size(), "packed": list(f.packed_indices)}])
    finally:
        ai.SevenZipDecompressor = real
    return out


def classify_graph(tr, l):
    e = tr[l - 1] if 0 < l <= len(tr) else {}
    return "folder-graph:pipeline-differs-from-the-bind-pairs", e


def run_graphs(tier, rep, ev, R):
    r = tlc.run("Folder", "Folder.cfg", workers=8, timeout=900)
    ev.add_tlc(r, "Folder(coders<=4, reader follows the bind pairs)")
    if not r.ok:
        rep.note_drift(f"Folder.tla: the reader's walk violates {r.violated}; replay decides")
    rn = tlc.run("Folder", "Folder_positional.cfg", workers=4, timeout=900)
    ev.cov["negative_control_folder_graph"] = {"cfg": "Folder_positional.cfg (coders decoded in record order)", "violated": rn.violated or "NOTHING"}
    if rn.ok:
        raise MachineryError("negative control failed: the positional reader satisfies Folder.tla")
    rg = tlc.run("GenFolder", "GenFolder.cfg", workers=1, timeout=900)
    ev.add_tlc(rg, "GenFolder(coders<=4)")
    graphs = [json.loads(b) if isinstance(b, str) else b for b in rg.prints.get("BEH", [])]
    if len(graphs) < 159:
        raise MachineryError(f"GenFolder emitted {len(graphs)} graphs, 159 expected")
    # chains py7zr reads when written positionally (its own layout) are owed to every other graph as well
    base = [({"n": len(ch), "pairs": [[k + 1, k] for k in range(len(ch) - 1)], "order": list(range(len(ch)))}, ch, "substream", 2, 1)
            for n in GRAPH_CHAINS for ch in GRAPH_CHAINS[n]]
    bouts = sandbox.run_cases(graph_case, base, timeout=40, nproc=16)
    readable = {tuple(c[1]) for c, o in zip(base, bouts) if o.status == "ok" and o.value.get("e") == "graph" and o.value["obs"]["bytes"]}
    ev.cov["graph_chains_readable_positionally"] = sorted("+".join(c) for c in readable)
    ev.cov["graph_chains_refused_positionally"] = sorted("+".join(ch) for n in GRAPH_CHAINS for ch in GRAPH_CHAINS[n] if tuple(ch) not in readable)
    cases = []
    for g in graphs:
        chains = [ch for ch in GRAPH_CHAINS[g["n"]] if tuple(ch) in readable]
        if tier == "quick" and g["n"] == 4:
            chains = R.sample(chains, min(1, len(chains)))
        for ch in chains:
            for crc, nfiles in (("none", 2), ("substream", 2), ("folder", 1), ("none", 1)):
                if tier == "quick" and g["n"] >= 3 and R.random() < 0.5:
                    continue
                cases.append((g, ch, crc, nfiles, R.getrandbits(20)))
    outs = sandbox.run_cases(graph_case, cases, timeout=40, nproc=16, slice_size=32)
    traces, origins = [], []
    for c, o in zip(cases, outs):
        positional = c[0]["order"] == list(range(c[0]["n"]))
        ev.case(("graph", json.dumps(c[0], sort_keys=True), "+".join(c[1]), c[2], c[3]), nontrivial=not positional)
        origin = {"graph": c[0], "chain": c[1], "crc": c[2], "nfiles": c[3], "seed": c[4]}
        if o.status != "ok":
            if o.status != "skipped":
                rep.violation(f"folder-graph:reader-{o.status}", f"{o.value} {o.detail[-300:]}", origin)
            continue
        v = o.value
        if v.get("e") == "skip":
            continue
        if v["obs"]["exc"]:
            rep.violation("folder-graph:valid-graph-refused", f"a folder whose bind pairs define the chain {c[0]['order']} ({'+'.join(c[1])}, crc {c[2]}) "
                          f"is refused although the same chain is read in record order: {v['obs']['exc']}", origin)
        elif not v["obs"]["bytes"]:
            rep.violation("folder-graph:wrong-bytes", f"success with different content: chain {c[0]['order']} of {'+'.join(c[1])}, crc {c[2]}", origin)
        elif not v["obs"]["sizes"]:
            rep.violation("folder-graph:wrong-size-listed", f"listed sizes differ: chain {c[0]['order']} of {'+'.join(c[1])}, crc {c[2]}", origin)
        if not v["parsed_as_written"]:
            rep.violation("folder-graph:pairs-misparsed", "the bind pairs the reader holds are not the ones written", origin)
        if v["trace"]:
            traces.append(v["trace"])
            origins.append(origin)
    # ---- all pair lists, ill-formed ones included, on the real Folder object
    ra = tlc.run("GenFolder", "GenFolderAll.cfg", workers=1, timeout=900)
    ev.add_tlc(ra, "GenFolder(all pair lists, coders<=4)")
    allg = [json.loads(b) if isinstance(b, str) else b for b in ra.prints.get("ALL", [])]
    if len(allg) < 4000:
        raise MachineryError(f"GenFolder emitted {len(allg)} pair lists, 4182 expected")
    uo = sandbox.run_one(graph_units, allg, timeout=120)
    if uo.status != "ok":
        rep.violation(f"folder-graph:walk-{uo.status}", f"the reader's walk over every pair list of <= 4 coders: {uo.status} {str(uo.value)[:200]} {uo.detail[-300:]}", {"graphs": "all"})
    else:
        for g in allg:
            ev.case(("pairs", g["n"], json.dumps(g["pairs"])), nontrivial=not g["wf"])
        traces += uo.value
        origins += [{"unit": g} for g in allg]
    ev.cov["pair_lists_on_the_real_folder_object"] = len(allg)
    ev.cov["folder_graphs_from_tlc"] = len(graphs)
    ev.cov["folder_graph_cases"] = len(cases)
    validate("C06", traces, rep, ev, spec="TraceFolder", cfg="TraceFolder.cfg", classify_fn=classify_graph, origins=origins, batch=3000)
    # binding control: a recorded trace with one field corrupted (pipeline reversed / another main output / a packed index moved)
    # must be rejected by TraceFolder, or the validation above constrains nothing
    src = next((t for t in traces if t[0]["n"] >= 3 and t[-1]["order"] != list(reversed(t[-1]["order"]))), None)
    if src is not None:
        bad = []
        for field, val in (("order", list(reversed(src[-1]["order"]))), ("main", (src[-1]["main"] + 1) % src[0]["n"]),
                           ("packed", [(src[-1]["packed"][0] + 1) % src[0]["n"]] if src[-1]["packed"] else [0])):
            bad.append(src[:-1] + [dict(src[-1], **{field: val})])
        acc, _res = tlc.validate_traces("TraceFolder", "TraceFolder.cfg", bad, extra_env={"EXPLAIN": "0"}, workers=1)
        ev.cov["binding_control_folder"] = {"corrupted_traces": len(bad), "accepted": len(acc)}
        if acc:
            raise MachineryError(f"TraceFolder accepts a corrupted trace (fields {sorted(acc)}): the binding is vacuous")


def run(tier, rep, ev):
    py7zr = import_py7zr()
    R = rng("c06")
    mf, mo = (3, 2) if tier == "quick" else (4, 3)
    d = scratch("c06")
    out = os.path.join(d, "lay.json")
    r = tlc.run("HeaderMC", cfg_text=CFG % (mf, mo, "TRUE"), env={"OUT_FILE": out}, workers=16, timeout=3000, heap="12g")
    ev.add_tlc(r, f"HeaderMC(files<={mf}, folders<={mo})")
    if not r.ok:
        rep.note_drift(f"reader transcription disagrees with Sem: {r.violated}; replay decides")
    rn = tlc.run("HeaderMC", cfg_text=CFG % (2, 1, "FALSE"), env={"OUT_FILE": ""}, workers=8, timeout=900)
    ev.cov["negative_control"] = {"cfg": "directories derived from the attribute word only", "violated": rn.violated or "NOTHING"}
    if rn.ok:
        raise MachineryError("negative control failed")
    lays = json.load(open(out))
    lays = [x for x in lays if len(x["lay"]["files"]) > 0]
    if tier == "quick" and len(lays) > 2500:
        small = [x for x in lays if len(x["lay"]["files"]) <= 2]
        lays = small + R.sample([x for x in lays if len(x["lay"]["files"]) > 2], 2500 - min(2500, len(small)))
    cases = [(x["lay"], R.getrandbits(30)) for x in lays]
    # beyond the model's bound: random layouts of 5..25 files (vector lengths around the multiples of 8), judged by the same Sem
    for _ in range(150 if tier == "quick" else 3000):
        cases.append((big_layout(R, R.choice([5, 7, 8, 8, 9, 15, 16, 16, 17, 24, 25])), R.getrandbits(30)))
    outs = sandbox.run_cases(read_case, cases, timeout=40, nproc=16, slice_size=32)
    traces, origins, skipped = [], [], 0
    for c, o in zip(cases, outs):
        ev.case(json.dumps(c[0], sort_keys=True) + str(c[1]), nontrivial=len(c[0]["folders"]) > 0)
        if o.status == "ok":
            if isinstance(o.value, dict) and o.value.get("e") == "skip":
                skipped += 1
                continue
            traces.append(o.value)
            origins.append({"layout": c[0], "seed": c[1]})
        elif o.status == "hang":
            rep.violation("hang-on-valid-layout", f"reading a valid layout did not finish: {o.detail[:400]}", {"layout": c[0], "seed": c[1]})
        elif o.status != "skipped":
            rep.violation(f"reader-{o.status}", f"{o.value} {o.detail[-400:]}", {"layout": c[0], "seed": c[1]})
    ev.cov["layouts_from_tlc"] = len(lays)
    ev.cov["layouts_the_reference_writer_could_not_emit"] = skipped
    ev.sample({"layout": traces[len(traces) // 2][0], "observed": traces[len(traces) // 2][1]})
    # isolate the delegated BCJ library for layouts whose only defect is wrong BYTES of a member behind an alternative BCJ decoder
    alt = {"bcj", "arm", "armt", "ppc", "sparc"}
    suspects = [k for k, tr in enumerate(traces) if tr[1].get("ok") and any(not m.get("bytes") for m in tr[1].get("members", []))
                and any(alt & {c["id"] for c in fo["coders"]} for fo in tr[0].get("writer", {}).get("folders", []))]
    if suspects:
        iso = sandbox.run_cases(bcj_chunking_check, [(origins[k]["layout"], origins[k]["seed"]) for k in suspects], timeout=60, nproc=8)
        drop = set()
        for k, r in zip(suspects, iso):
            if r.status == "ok" and r.value != "consistent":
                rep.violation("delegated-codec:bcj", f"the bcj library alone: {r.value}", {"layout": origins[k]["layout"], "seed": origins[k]["seed"]})
                drop.add(k)
        traces = [t for k, t in enumerate(traces) if k not in drop]
        origins = [t for k, t in enumerate(origins) if k not in drop]
    validate("C06", traces, rep, ev, spec="TraceHeader", cfg="TraceHeader.cfg", classify_fn=classify, origins=origins, batch=3000)
    # ---- coder graphs
    run_graphs(tier, rep, ev, R)
    # ---- third-party fixtures
    fx = list(layouts.fixture_archives())
    fouts = sandbox.run_cases(fixture_case, fx, timeout=120, nproc=16, slice_size=2)
    nfx = 0
    for (name, raw, pw), o in zip(fx, fouts):
        if o.status != "ok":
            rep.violation(f"fixture-{o.status}:{name}", f"{name}: {o.status} {o.detail[:300]}", {"fixture": name})
            continue
        v = o.value
        nfx += 1
        ev.case(("fixture", name))
        if isinstance(v["ref"], str):
            if v["ref"].startswith("unsupported") and not (isinstance(v["py"], str) and "Unsupported" in v["py"]):
                # coders neither implementation supports must be refused, not misread
                if not isinstance(v["py"], str):
                    rep.note_drift(f"{name}: the reference codec lacks a coder py7zr handles")
            continue
        if isinstance(v["py"], str) and "Unsupported" in v["py"]:
            continue        # a coder (variant) py7zr declares unsupported: outside "uses only supported coders"
        if isinstance(v["py"], str):
            rep.violation(f"fixture-rejected:{name}", f"{name}: valid third-party archive: py7zr {v['py']}", {"fixture": name})
        elif len({a for a, b, c, d in v["py"]}) < len(v["py"]):
            # duplicate (or generated) names: factory products collide by name; compare sizes and kinds only
            if [(b == "dir", c) for a, b, c, d in v["py"]] != [(b == "dir", c) for a, b, c, d in v["ref"]]:
                rep.violation(f"fixture-misread:{name}", f"{name}: sizes/kinds differ from the reference reader", {"fixture": name})
        elif [(a if ra else "", c, d) for (a, b, c, d), (ra, rb, rc, rd) in zip(v["py"], v["ref"])] != [(a, c, d) for a, b, c, d in v["ref"]] or len(v["py"]) != len(v["ref"]) or \
                [b == "dir" for a, b, c, d in v["py"]] != [b == "dir" for a, b, c, d in v["ref"]]:
            diff = [(p, q) for p, q in zip(v["py"], v["ref"]) if p != q][:3]
            rep.violation(f"fixture-misread:{name}", f"{name}: members differ from the reference reader: {diff}", {"fixture": name, "diff": diff})
    ev.cov["fixtures_compared"] = nfx
    ev.cov["exhaustive"] = tier != "quick"
    ev.cov["rule"] = (f"all layouts with <= {mf} files and <= {mo} folders from TLC" + (" (all with <= 2 files, sample of the rest, 2500 in total)" if tier == "quick" else "") +
                      " x physical choices by seed; 62 third-party fixtures; non-trivial = has a data folder")
    ev.assumptions += ["harness/refcodec (reference writer/reader) is the independent implementation of docs/archive_format.rst"]


def replay(path, rep, ev):
    from ..common import unhex

    r = unhex(json.load(open(path))["replay"])
    o = r.get("origin") or r
    if "graph" in o:
        res = sandbox.run_one(graph_case, (o["graph"], o["chain"], o["crc"], o["nfiles"], o["seed"]), timeout=60)
        print(json.dumps(res.value, indent=1)[:3000] if res.status == "ok" else (res.status, res.value, res.detail))
    elif "layout" in o:
        res = sandbox.run_one(read_case, (o["layout"], o["seed"]), timeout=60)
        print(json.dumps(res.value, indent=1)[:3000] if res.status == "ok" else (res.status, res.value, res.detail))
    else:
        print(json.dumps(o)[:2000])
