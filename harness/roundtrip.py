"""Execute one C01 configuration (chain x header mode x password x target kind x block size x chunk limit x member list)
against the real code and record (a) the session trace for TraceWriteSession and (b) the decoder/AES step traces for
TraceStream.  Runs inside a sandbox child."""
import hashlib
import io
import os
import random
import shutil

from . import probe, wsession

FID = {"LZMA2": 0x21, "LZMA": 0x4000000000000001, "BZip2": 0x31, "Deflate": 0x32, "Deflate64": 0x38, "Copy": 0x33, "ZStd": 0x35,
       "PPMd": 0x36, "Brotli": 0x37, "Delta": 3, "X86": 4, "ARM": 7, "ARMT": 8, "PPC": 5, "SPARC": 9, "IA64": 6, "AES": 0x06F10701}

NAME_POOL = ["a.txt", "dir/b.bin", "d1/d2/d3/d4/d5/six", "älpha/βeta", "日本語/ファイル", "emoji-\U0001F600/\U00010348.dat", "sp ace/ tab\tx",
             "ctl\x01\x1f/z", ".hidden/.x", "c:drive/x", "UPPER/lower", "trailing.dot./x.", "-dash/--opt", "semi;colon/q?uote'", "a" * 200]


def make_filters(chain, R, params=True):
    out = []
    for t in chain:
        f = {"id": FID[t]}
        if t in ("LZMA2", "LZMA"):
            f["preset"] = R.choice([0, 1, 3, 6, 9 | (1 << 31)]) if params else 1
        elif t == "Delta":
            f["dist"] = R.choice([1, 2, 4, 255, 256])
        elif t == "ZStd":
            f["level"] = R.choice([1, 3, 9])
        elif t == "Brotli":
            f["level"] = R.choice([0, 1, 5, 9])
        elif t == "PPMd":
            f["order"] = R.choice([2, 6, 8])
            f["mem"] = R.choice([20, 24, "16m", "4m"])
        out.append(f)
    return out


def texture(R, kind, n):
    if n == 0:
        return b""
    if kind == "random":
        return R.randbytes(n)
    if kind == "rep":
        unit = R.randbytes(R.choice([1, 3, 16, 17]))
        return (unit * (n // len(unit) + 1))[:n]
    # machine-code-like: x86 call/jmp opcodes with relative addresses, for the BCJ filters
    out = bytearray()
    while len(out) < n:
        out += R.choice([b"\xe8", b"\xe9", b"\x0f\x84", b"\xeb"]) + R.randbytes(4) + b"\x90" * R.randrange(0, 6) + bytes([R.randrange(256)])
    return bytes(out[:n])


def size_list(R, block, limit, nmax=6):
    marks = [0, 1, 15, 16, 17, 31, 32, 33, block - 1, block, block + 1, 2 * block - 1, 2 * block, 2 * block + 1, limit - 1, limit, limit + 1,
             3 * block + 7]
    marks = [m for m in marks if 0 <= m <= 6_000_000]
    return [R.choice(marks) for _ in range(R.randrange(0, nmax + 1))]


def gen_members(case, R, block, limit):
    """deterministic member list of a case: (sizes, name pool, contents)"""
    sizes = case.get("sizes") or size_list(R, block, min(limit, 4 * block))
    pool = NAME_POOL[:]
    R.shuffle(pool)
    datas = [texture(R, case.get("texture") or R.choice(["random", "rep", "code"]), n) for n in sizes]
    # contents are told apart by their hash: two non-empty members must not carry identical bytes (1-byte members collide by chance)
    seen = set()
    for i, d in enumerate(datas):
        tries = 0
        while d and d in seen and tries < 1000:
            d = R.randbytes(len(d))
            tries += 1
        datas[i] = d
        seen.add(d)
    return sizes, pool, datas


def ppmd_selfcheck(case):
    """Does the delegated PPMd library (pyppmd, outside the repository) round-trip this case's data on its own?
    Returns "ok" or a description of the failure.  Runs in a sandbox child (pyppmd can crash the interpreter)."""
    import pyppmd
    import struct

    R = random.Random(case["seed"])
    filters = make_filters(case["chain"], R, case.get("params", True))
    block = case.get("block") or 1 << 20
    limit = case.get("limit") or int(128e6)
    _ = case.get("pwtext")
    sizes, pool, datas = gen_members(case, R, block, limit)
    f = next(x for x in filters if x["id"] == FID["PPMd"])
    order = f.get("order", 8)
    mem = f.get("mem", 24)
    if isinstance(mem, str):
        mem = int(mem[:-1]) << (20 if mem[-1] in "mM" else 10)
    else:
        mem = 1 << mem
    data = b"".join(datas)
    pre = [x["id"] for x in filters if x["id"] in (4, 5, 7, 8, 9)]
    if pre:
        import bcj
        enc = {4: bcj.BCJEncoder, 5: bcj.PPCEncoder, 7: bcj.ARMEncoder, 8: bcj.ARMTEncoder, 9: bcj.SparcEncoder}[pre[0]]()
        data = enc.encode(data) + enc.flush()
    e = pyppmd.Ppmd7Encoder(order, mem)
    comp = e.encode(data) + e.flush()
    d = pyppmd.Ppmd7Decoder(order, mem)
    try:
        out = d.decode(comp, len(data))
        while len(out) < len(data):
            r = d.decode(b"\0" if d.needs_input else b"", len(data) - len(out))
            if not r:
                break
            out += r
    except Exception as ex:  # noqa
        return f"pyppmd decoder rejects its own encoder's output: {ex!r}"
    if out != data:
        return "pyppmd decodes its own output to different bytes"
    # the same library driven the way a streaming caller drives it: input in blocks, output limited to what the current member
    # still needs (py7zr: one I/O block per call, max_length = min(remaining, chunk limit)); a failure here is the library's as well
    e = pyppmd.Ppmd7Encoder(order, mem)
    comp = b"".join(e.encode(data[k:k + block]) for k in range(0, len(data), block)) + e.flush()
    d = pyppmd.Ppmd7Decoder(order, mem)
    out2, pos = bytearray(), 0
    try:
        for want in [len(x) for x in datas]:
            got, idle = 0, 0
            while got < want and idle < 64:
                chunk = comp[pos:pos + block]
                pos += len(chunk)
                if len(chunk) == 0 and d.needs_input:
                    chunk = b"\0"
                r = d.decode(chunk, min(want - got, limit))
                got += len(r)
                out2 += r
                idle = 0 if r else idle + 1
    except Exception as ex:  # noqa
        return f"pyppmd alone, fed in blocks of {block} with bounded output: {ex!r}"
    return "ok" if bytes(out2) == data else "pyppmd alone, fed in blocks with bounded output, decodes to different bytes"


def run_case(case):
    """case: dict(chain, password, header, target, block, limit, seed, params).  Returns dict(session=trace, stream=[traces])"""
    from .common import import_py7zr

    py7zr = import_py7zr()
    import multivolumefile
    import py7zr.compressor as C
    import py7zr.py7zr as P

    R = random.Random(case["seed"])
    wd = case["wd"]
    os.makedirs(wd, exist_ok=True)
    rec = probe.install(py7zr)
    o_block, o_blockP, o_limit = C.get_default_blocksize, P.get_default_blocksize, P.get_memory_limit
    if case.get("block"):
        C.get_default_blocksize = lambda: case["block"]
        P.get_default_blocksize = lambda: case["block"]
    if case.get("limit"):
        P.get_memory_limit = lambda: case["limit"]
    block = case.get("block") or 1 << 20
    limit = case.get("limit") or int(128e6)
    try:
        filters = make_filters(case["chain"], R, case.get("params", True))
        password = case.get("pwtext", "päss \U0001F511") if case["password"] else None
        sizes, pool, datas = gen_members(case, R, block, limit)
        names, contents = [], {}
        trace = []
        path = os.path.join(wd, "arc.7z")
        tgt = case["target"]
        vol = None
        if tgt == "path":
            # exclusive creation ("x") for every other path target: the same session, the file must not exist before
            z = py7zr.SevenZipFile(path, "x" if case.get("seed", 0) % 2 else "w", filters=filters, password=password)
        elif tgt == "bytesio":
            bio = io.BytesIO()
            z = py7zr.SevenZipFile(bio, "w", filters=filters, password=password)
        elif tgt == "buffered":
            fobj = open(path, "w+b")
            z = py7zr.SevenZipFile(fobj, "w", filters=filters, password=password)
        else:
            volsize = case.get("volume") or R.choice([v for v in (64, 100, 1000, 10007, 65536, 70001) if v * 400 >= block])  # MultiVolume.write recurses once per volume
            vol = multivolumefile.MultiVolume(path, mode="wb", volume=volsize, ext_digits=4)
            z = py7zr.SevenZipFile(vol, "w", filters=filters, password=password)
        if case["header"] == "raw":
            z.set_encoded_header_mode(False)
        elif case["header"] == "encrypted":
            z.set_encrypted_header(True)
        trace.append({"e": "open", "mode": "w"})
        namemap = {}
        for i, n in enumerate(sizes):
            c = 11 + i
            nm = pool[i % len(pool)] + ("" if i < len(pool) else f"_{i}")
            data = datas[i]
            contents[c] = data
            namemap[(i + 1, c)] = nm
            k = "writestr" if i % 2 == 0 else "writef"
            trace.append({"e": "call", "k": k, "n": i + 1, "fault": "none"})
            exc = "none"
            try:
                if k == "writestr":
                    z.writestr(data, nm)
                else:
                    z.writef(io.BytesIO(data), nm)
            except Exception as e:  # noqa
                exc = type(e).__name__ + ":" + str(e)[:80]
            nfiles, hf, widx, nsubs = wsession.projection(z)
            trace.append({"e": "ret", "exc": exc, "nfiles": nfiles, "hfiles": hf, "widx": widx, "nsubs": nsubs, "tries": 0, "stale": 0})
        cexc = "none"
        try:
            z.close()
        except Exception as e:  # noqa
            cexc = type(e).__name__ + ":" + str(e)[:120]
        trace.append({"e": "close", "exc": cexc})
        # ---- read back through the same kind of target
        if tgt == "bytesio":
            raw = bio.getvalue()
            # the caller's stream as the write session left it, at its end, or a fresh one
            k = case.get("seed", 0) % 3
            if k == 0:
                src = bio
            elif k == 1:
                src = bio
                src.seek(0, 2)
            else:
                src = io.BytesIO(raw)
        elif tgt == "buffered":
            fobj.close()
            src = open(path, "rb")
        elif tgt == "multivolume":
            vol.close()
            src = multivolumefile.MultiVolume(path, mode="rb", ext_digits=4)
        else:
            src = path
        ev = {"e": "reopen", "ok": True, "members": [], "metas": [], "err": "", "ref": {"present": False}}
        by_name = {v: k for k, v in namemap.items()}
        by_hash = {hashlib.sha256(v).digest(): k for k, v in contents.items()}
        try:
            with py7zr.SevenZipFile(src, "r", password=password) as r:
                got = r.getnames()
                if case.get("extract") == "path":
                    out = os.path.join(wd, "out")
                    r.extractall(out)
                    datas = {}
                    for nm in got:
                        p = os.path.join(out, nm)
                        datas[nm] = open(p, "rb").read() if os.path.isfile(p) else None
                elif case.get("extract") == "hash":
                    # the hashing sink of the library: products hold the SHA-256 of what they were given, and its length
                    fac = py7zr.io.HashIOFactory()
                    r.extractall(factory=fac)
                    datas = {}
                    for nm in got:
                        if nm in fac.products:
                            dg = fac.products[nm].read()
                            k = by_hash.get(dg, -1)
                            datas[nm] = contents[k] if k != -1 and fac.products[nm].size() == len(contents[k]) else b"\x00<digest of other bytes>"
                        else:
                            datas[nm] = None
                else:
                    fac = py7zr.io.BytesIOFactory(1 << 31)
                    r.extractall(factory=fac)
                    datas = {nm: (fac.products[nm].read() if nm in fac.products else None) for nm in got}
                for nm in got:
                    n, _ = by_name.get(nm, (0, 0))
                    d = datas.get(nm)
                    c = -1 if d is None else by_hash.get(hashlib.sha256(d).digest(), -1)
                    if d is not None and len(d) == 0:
                        c = by_name.get(nm, (0, -1))[1] if contents.get(by_name.get(nm, (0, -1))[1]) == b"" else -1
                    ev["members"].append({"n": n, "c": c})
                    ev["metas"].append([n, c])
        except Exception as e:  # noqa
            ev["ok"] = False
            ev["err"] = type(e).__name__ + ":" + str(e)[:160]
            ev["members"], ev["metas"] = [], []
        finally:
            if hasattr(src, "close"):
                try:
                    src.close()
                except Exception:  # noqa
                    pass
        trace.append(ev)
        return {"session": trace, "stream": rec.take(), "sizes": sizes, "filters": repr(filters)}
    finally:
        rec.uninstall()
        C.get_default_blocksize, P.get_default_blocksize, P.get_memory_limit = o_block, o_blockP, o_limit
        shutil.rmtree(wd, ignore_errors=True)


def ppmd_log_calls(case):
    """run the case with every call py7zr makes on pyppmd's decoder written to a log (survives a crash of the interpreter)"""
    import pickle
    from .common import import_py7zr

    import_py7zr()
    import py7zr.compressor as C
    o, oi = C.PpmdDecompressor.decompress, C.PpmdDecompressor.__init__
    log = open(case["ppmd_log"], "wb")

    def init(self, properties, blocksize=None):
        pickle.dump(("init", bytes(properties)), log)
        log.flush()
        oi(self, properties, blocksize)

    def dec(self, data, max_length=-1):
        pickle.dump(("dec", bytes(data), int(max_length)), log)
        log.flush()
        return o(self, data, max_length)

    C.PpmdDecompressor.decompress, C.PpmdDecompressor.__init__ = dec, init
    try:
        return run_case({k: v for k, v in case.items() if k != "ppmd_log"})
    finally:
        C.PpmdDecompressor.decompress, C.PpmdDecompressor.__init__ = o, oi


def ppmd_replay_calls(path):
    """the logged calls, made on pyppmd ALONE (no py7zr code involved): a decoder per 'init', the same data and output limits"""
    import pickle
    import struct
    import pyppmd

    d = None
    sessions = []          # per decoder: (order, mem, input fed, output got)
    with open(path, "rb") as f:
        while True:
            try:
                x = pickle.load(f)
            except EOFError:
                break
            if x[0] == "init":
                order, mem = struct.unpack("<BL", x[1][:5])
                d = pyppmd.Ppmd7Decoder(order, mem)
                sessions.append([order, mem, bytearray(), bytearray()])
            else:
                _, data, ml = x
                try:
                    if len(data) == 0 and d.needs_input:
                        r = d.decode(b"\0", ml)
                        sessions[-1][2] += b"\0"
                    else:
                        r = d.decode(data, ml)
                        sessions[-1][2] += data
                except Exception as ex:  # noqa
                    return f"pyppmd alone, given the calls py7zr made, raises {ex!r}"
                sessions[-1][3] += r
    # the same input decoded by a fresh decoder in ONE call: the library's answer must not depend on how the input was cut
    for order, mem, fed, got in sessions:
        try:
            one = pyppmd.Ppmd7Decoder(order, mem).decode(bytes(fed), len(got))
        except Exception as ex:  # noqa
            return f"pyppmd alone raises on the whole input at once: {ex!r}"
        if bytes(one) != bytes(got):
            return f"pyppmd alone: {len(fed)} bytes decoded in py7zr's pieces differ from the same bytes decoded at once"
    return "ok"



BCJ_NAMES = ("X86", "ARM", "ARMT", "PPC", "SPARC")


def bcj_log_check(case):
    """Isolate the delegated BCJ library (package 'bcj', used for BCJ filters next to every codec the lzma module does not chain
    natively): run the case with the pieces py7zr hands to each of its BCJ encoders and decoders logged, then push the same pieces
    through the library ALONE and compare with the same bytes pushed through it at once.  The wrappers in py7zr.compressor pass the
    data straight on, so an answer that depends on how the bytes were cut is the library's.  Returns "ok" or a description."""
    from .common import import_py7zr

    import_py7zr()
    import bcj
    import py7zr.compressor as C

    pairs = {"BCJDecoder": bcj.BCJDecoder, "BcjArmDecoder": bcj.ARMDecoder, "BcjArmtDecoder": bcj.ARMTDecoder, "BcjPpcDecoder": bcj.PPCDecoder,
             "BcjSparcDecoder": bcj.SparcDecoder, "BCJEncoder": bcj.BCJEncoder, "BcjArmEncoder": bcj.ARMEncoder, "BcjArmtEncoder": bcj.ARMTEncoder,
             "BcjPpcEncoder": bcj.PPCEncoder, "BcjSparcEncoder": bcj.SparcEncoder}
    logs, saved = [], []
    for name in pairs:
        cls = getattr(C, name)
        is_dec = name.endswith("Decoder")
        oi = cls.__init__
        om = cls.decompress if is_dec else cls.compress

        def init(self, *a, _oi=oi, _n=name, **kw):
            _oi(self, *a, **kw)
            self._vlog = {"cls": _n, "args": a, "kw": kw, "chunks": []}
            logs.append(self._vlog)

        def call(self, data, *a, _om=om, **kw):
            self._vlog["chunks"].append(bytes(data))
            return _om(self, data, *a, **kw)

        saved.append((cls, is_dec, oi, om))
        cls.__init__ = init
        setattr(cls, "decompress" if is_dec else "compress", call)
    try:
        run_case(case)
    finally:
        for cls, is_dec, oi, om in saved:
            cls.__init__ = oi
            setattr(cls, "decompress" if is_dec else "compress", om)
    for lg in logs:
        whole = b"".join(lg["chunks"])
        lens = [len(c) for c in lg["chunks"]]
        if lg["cls"].endswith("Decoder"):
            one = pairs[lg["cls"]](*lg["args"], **lg["kw"]).decode(whole)
            d = pairs[lg["cls"]](*lg["args"], **lg["kw"])
            pieces = b"".join(d.decode(c) for c in lg["chunks"])
        else:
            e = pairs[lg["cls"]]()
            one = e.encode(whole) + e.flush()
            e = pairs[lg["cls"]]()
            pieces = b"".join(e.encode(c) for c in lg["chunks"]) + e.flush()
        if one != pieces:
            k = next((i for i in range(min(len(one), len(pieces))) if one[i] != pieces[i]), min(len(one), len(pieces)))
            return (f"{lg['cls']}: {len(whole)} bytes pushed through the library alone in py7zr's {len(lens)} pieces (shortest {min(lens)}, last "
                    f"{lens[-3:]}) differ from the same bytes pushed through at once, from offset {k}")
    return "ok"
