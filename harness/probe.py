"""External wrappers that record trace events from the real code (no change to the py7zr sources).

install(py7zr) replaces methods of SevenZipDecompressor / Worker / AESCompressor / AESDecompressor by recording wrappers
and returns a Recorder whose .traces is a list of event lists (one per object life), the input of TraceStream.tla.
A wrapper that cannot attach raises MachineryError - never a violation.
"""
from .common import MachineryError


class Recorder:
    def __init__(self):
        self.traces = []
        self._undo = []

    def uninstall(self):
        for obj, name, orig in reversed(self._undo):
            setattr(obj, name, orig)
        self._undo = []

    def take(self):
        t, self.traces = self.traces, []
        return [x for x in t if len(x) > 1]


def _patch(rec, obj, name, make):
    try:
        orig = getattr(obj, name)
    except AttributeError:
        raise MachineryError(f"probe cannot attach: {obj.__name__}.{name} does not exist")
    setattr(obj, name, make(orig))
    rec._undo.append((obj, name, orig))


def install(py7zr, stream=True, aes=True):
    import py7zr.compressor as C
    import py7zr.py7zr as P

    rec = Recorder()
    if stream:
        D = C.SevenZipDecompressor

        def mk_init(orig):
            def __init__(self, coders, packsize, unpacksizes, crc, password=None, blocksize=None):
                orig(self, coders, packsize, unpacksizes, crc, password, blocksize)
                self._vtrace = [{"e": "new", "kind": "dec", "insize": int(packsize), "block": int(self.block_size)}]
                rec.traces.append(self._vtrace)
            return __init__

        def mk_read(orig):
            def _read_data(self, fp):
                data = orig(self, fp)
                self._vd = len(data)
                return data
            return _read_data

        def mk_dec(orig):
            def _decompress(self, data, max_length, *a, **kw):
                r = orig(self, data, max_length, *a, **kw)
                self._vt = len(r)
                self._vcalls.append((len(data), len(r)))
                return r
            return _decompress

        def mk_decompress(orig):
            def decompress(self, fp, max_length=-1):
                cur = len(self._buf) - self._pos
                self._vd, self._vt, self._vcalls = 0, -1, []
                try:
                    h = any(self._unpacked[i] < self._unpacksizes[i] and getattr(c, "needs_input", True) is False
                            for i, c in enumerate(self.chain))
                except Exception:  # noqa
                    h = False
                res = orig(self, fp, max_length)
                tr = getattr(self, "_vtrace", None)
                if tr is not None and max_length >= 0:
                    calls = self._vcalls
                    dr = calls[0][1] if (calls and calls[0][0] == 0 and h) else -1
                    tr.append({"e": "call", "m": int(max_length), "cur": cur, "d": self._vd, "t": self._vt, "res": len(res),
                               "buf": len(self._buf) - self._pos, "consumed": int(self.consumed), "h": bool(h), "dr": dr})
                return res
            return decompress

        _patch(rec, D, "__init__", mk_init)
        _patch(rec, D, "_read_data", mk_read)
        _patch(rec, D, "_decompress", mk_dec)
        _patch(rec, D, "decompress", mk_decompress)

        def mk_wdec(orig):
            def decompress(self, fp, folder, fq, size, compressed_size, src_end, q=None):
                d = folder.get_decompressor(compressed_size)
                tr = getattr(d, "_vtrace", None)
                if tr is not None:
                    tr.append({"e": "mstart", "size": int(size)})
                ok = False
                try:
                    r = orig(self, fp, folder, fq, size, compressed_size, src_end, q)
                    ok = True
                    return r
                finally:
                    if tr is not None:
                        tr.append({"e": "mend", "ok": ok})
            return decompress

        _patch(rec, P.Worker, "decompress", mk_wdec)
    if aes:
        E, A = C.AESCompressor, C.AESDecompressor

        def mk_einit(orig):
            def __init__(self, password, blocksize=None):
                orig(self, password, blocksize)
                self._vtrace = [{"e": "new", "kind": "aesenc", "insize": 0, "block": 0}]
                rec.traces.append(self._vtrace)
            return __init__

        def mk_ecomp(orig):
            def compress(self, data):
                b0 = len(self.buf)
                r = orig(self, data)
                self._vtrace.append({"e": "aes", "n": len(data), "b0": b0, "res": len(r), "b1": len(self.buf), "flush": False})
                return r
            return compress

        def mk_eflush(orig):
            def flush(self):
                b0 = len(self.buf)
                r = orig(self)
                self._vtrace.append({"e": "aes", "n": 0, "b0": b0, "res": len(r), "b1": len(self.buf), "flush": True})
                self._vtrace.append({"e": "aesend"})
                return r
            return flush

        def mk_dinit(orig):
            def __init__(self, aes_properties, password, blocksize=None):
                orig(self, aes_properties, password, blocksize)
                self._vtrace = [{"e": "new", "kind": "aesdec", "insize": 0, "block": 0}]
                rec.traces.append(self._vtrace)
            return __init__

        def mk_ddec(orig):
            def decompress(self, data, max_length=-1):
                b0 = len(self.buf)
                r = orig(self, data, max_length)
                tr = getattr(self, "_vtrace", None)
                if tr is not None:
                    tr.append({"e": "aes", "n": len(data), "b0": b0, "res": len(r), "b1": len(self.buf), "flush": False})
                return r
            return decompress

        _patch(rec, E, "__init__", mk_einit)
        _patch(rec, E, "compress", mk_ecomp)
        _patch(rec, E, "flush", mk_eflush)
        _patch(rec, A, "__init__", mk_dinit)
        _patch(rec, A, "decompress", mk_ddec)
    return rec
