"""Sample archives, damage enumeration and the multi-path probe shared by C04 (integrity) and C05 (termination)."""
import hashlib
import io
import os
import random
import resource
import time

from .refcodec import read_archive, write_archive


def sample_archives(py7zr, R, tier):
    """[(label, raw, password, regions{name: [[a,b]..]})]: py7zr-written and reference-written, every codec family,
    with and without AES, raw and encoded header, 1..4 folders, always per-file CRCs."""
    out = []

    def members(n, seed):
        r = random.Random(seed)
        ms = []
        for i in range(n):
            size = [40, 7, 120, 0, 33][i % 5]
            ms.append((f"d{i % 2}/m{i}.bin", bytes(r.getrandbits(8) for _ in range(size)) if i % 2 else (b"text %d " % i) * (size // 6 + 1)))
        return ms

    def regions_of(raw, password):
        try:
            end = 32 + int.from_bytes(raw[12:20], "little") + int.from_bytes(raw[20:28], "little")
            p = read_archive(raw[:end], password, strict=False, decode=False)
            reg = dict(p.regions)
            if end < len(raw):
                reg["trailing"] = [[end, len(raw)]]
            return reg
        except Exception:  # noqa
            return {}

    # ---- py7zr-written
    chains = [("lzma2", [{"id": 0x21, "preset": 1}]), ("lzma", [{"id": 0x4000000000000001, "preset": 1}]), ("bzip2", [{"id": 0x31}]),
              ("deflate", [{"id": 0x32}]), ("copy", [{"id": 0x33}]), ("zstd", [{"id": 0x35, "level": 1}]), ("brotli", [{"id": 0x37, "level": 1}]),
              ("ppmd", [{"id": 0x36, "order": 6, "mem": 24}]), ("bcj+lzma2", [{"id": 4}, {"id": 0x21, "preset": 1}]),
              ("delta+lzma2", [{"id": 3, "dist": 2}, {"id": 0x21, "preset": 1}]), ("copy+aes", [{"id": 0x33}, {"id": 0x06F10701}]),
              ("lzma2+aes", [{"id": 0x21, "preset": 1}, {"id": 0x06F10701}])]
    use = chains if tier != "quick" else [chains[0], chains[4], chains[3], chains[10]]
    for k, (name, filt) in enumerate(use):
        pw = "pw" if "aes" in name else None
        for hdr in (("encoded", "raw") if tier != "quick" else (("encoded",) if k % 2 == 0 else ("raw",))):
            bio = io.BytesIO()
            nsess = 1 + k % 3
            for s in range(nsess):
                bio.seek(0)
                z = py7zr.SevenZipFile(bio, "w" if s == 0 else "a", filters=filt, password=pw)
                if hdr == "raw":
                    z.set_encoded_header_mode(False)
                for nm, data in members(2 + (k + s) % 2, 10 * k + s):
                    z.writestr(data, f"s{s}/{nm}")
                z.close()
            raw = bio.getvalue()
            out.append((f"py7zr:{name}:{hdr}:{nsess}folders", raw, pw, regions_of(raw, pw)))
    # ---- encrypted header (7zAES only: no decoder notices a flipped bit, only the CRC of the decoded header does)
    bio = io.BytesIO()
    z = py7zr.SevenZipFile(bio, "w", filters=[{"id": 0x33}, {"id": 0x06F10701}], password="pw")
    z.set_encrypted_header(True)
    for nm, data in members(3, 77):
        z.writestr(data, "enc/" + nm)
    z.close()
    raw = bio.getvalue()
    out.append(("py7zr:copy+aes:enchdr:1folders", raw, "pw", regions_of(raw, "pw")))
    # ---- a symbolic-link member (its content is the link's target): extraction into a directory re-creates the link from it
    import tempfile, shutil
    td = tempfile.mkdtemp(prefix="c04ln-")
    try:
        os.makedirs(os.path.join(td, "t", "sub"))
        with open(os.path.join(td, "t", "sub", "target_file.txt"), "wb") as f:
            f.write(b"the file the link points to\n" * 3)
        os.symlink("sub/target_file.txt", os.path.join(td, "t", "link-to-it"))
        bio = io.BytesIO()
        cwd = os.getcwd()
        os.chdir(td)
        try:
            with py7zr.SevenZipFile(bio, "w", filters=[{"id": 0x33}]) as z:
                z.writeall("t")
        finally:
            os.chdir(cwd)
        raw = bio.getvalue()
        out.append(("py7zr:copy:symlink:todir:1folders", raw, None, regions_of(raw, None)))
    finally:
        shutil.rmtree(td, ignore_errors=True)
    # ---- members whose CRC-32 is 0x00000000 / 0xFFFFFFFF (a defined CRC of 0 is not "no CRC"); stored, so only the CRC can notice
    for k, (name, filt) in enumerate([("copy", [{"id": 0x33}]), ("lzma2", [{"id": 0x21, "preset": 1}])] if tier != "quick" else [("copy", [{"id": 0x33}])]):
        bio = io.BytesIO()
        z = py7zr.SevenZipFile(bio, "w", filters=filt)
        z.set_encoded_header_mode(k % 2 == 1)
        z.writestr(b"first member, ordinary", "c/a.txt")
        z.writestr(forge_crc(b"member whose CRC-32 is zero ....", 0), "c/zero.bin")
        z.writestr(forge_crc(b"and one with all ones", 0xFFFFFFFF), "c/ones.bin")
        z.close()
        raw = bio.getvalue()
        out.append((f"py7zr:{name}:crc0:1folders", raw, None, regions_of(raw, None)))
    # ---- reference-written (fast key derivation, folder CRCs, packed CRCs, header CRC)
    refs = [("lzma2", "lzma", 2, "substream", True, None), ("copy", "raw", 1, "substream", False, None), ("bzip2", "lzma", 3, "substream", True, None),
            ("deflate", "raw", 2, "folder", False, None), ("lzma", "lzma", 4, "substream", False, None), ("copy", "aes", 2, "substream", True, "pw"),
            ("lzma2", "lzma", 1, "substream", False, "pw")]
    for k, (coder, hdr, nf, crc, packcrc, pw) in enumerate(refs if tier != "quick" else refs[:4]):
        files, folders = [], []
        for f in range(nf):
            ms = members(1 + (f + k) % 3, 100 * k + f)
            ms = [(n, d) for n, d in ms if d] or [("x", b"abc")]
            for n, d in ms:
                files.append({"name": f"f{f}/{n}", "kind": "file", "data": d, "mtime": 132223104000000000})
            folders.append({"nfiles": len(ms), "coders": [{"id": coder}] + ([{"id": "aes"}] if pw else []),
                            "crc": crc if (crc != "folder" or len(ms) == 1) else "substream"})
        files.insert(1, {"name": "adir", "kind": "dir"})
        raw, regions = write_archive({"files": files, "folders": folders, "header": hdr, "password": pw, "packcrc": packcrc,
                                      "packpos": 5 if k % 2 else 0})
        out.append((f"ref:{coder}:{hdr}:{nf}folders:crc={crc}:packcrc={packcrc}", raw, pw, regions))
    return out


def forge_crc(prefix: bytes, target: int) -> bytes:
    """prefix + 4 bytes such that zlib.crc32(result) == target"""
    import zlib

    table = []
    for i in range(256):
        c = i
        for _ in range(8):
            c = (c >> 1) ^ 0xEDB88320 if c & 1 else c >> 1
        table.append(c)
    rev = {t >> 24: i for i, t in enumerate(table)}
    want = target ^ 0xFFFFFFFF
    cur = zlib.crc32(prefix) ^ 0xFFFFFFFF
    idxs, r = [], want
    for _ in range(4):
        i = rev[r >> 24]
        idxs.append(i)
        r = ((r ^ table[i]) << 8) & 0xFFFFFFFF
    idxs.reverse()
    tail, r = [], cur
    for i in idxs:
        tail.append((r ^ i) & 0xFF)
        r = (r >> 8) ^ table[i]
    res = prefix + bytes(tail)
    assert zlib.crc32(res) == target, "forge failed"
    return res


def region_at(regions, pos):
    for name, spans in regions.items():
        for a, b in spans:
            if a <= pos < b:
                return name
    return "unknown"


def damages(raw, regions, R, tier, exhaustive_limit=700):
    """yield (kind, description, image, first damaged offset)"""
    n = len(raw)
    # every single-bit flip (exhaustive for small archives, every byte at least one bit otherwise)
    if n <= exhaustive_limit or tier != "quick":
        positions = [(i, b) for i in range(n) for b in range(8)]
    else:
        positions = [(i, R.randrange(8)) for i in range(n)] + [(R.randrange(n), R.randrange(8)) for _ in range(exhaustive_limit)]
    for i, b in positions:
        img = bytearray(raw)
        img[i] ^= 1 << b
        yield ("flip", f"bit {b} of byte {i}", bytes(img), i)
    # every truncation length (sampled in quick)
    cuts = range(0, n) if tier != "quick" else sorted(set(R.sample(range(n), min(n, 60)) + [0, 1, 6, 31, 32, 33, n - 1]))
    for c in cuts:
        yield ("truncate", f"to {c} bytes", raw[:c], c)
    for _ in range(30 if tier == "quick" else 300):
        i = R.randrange(n)
        img = bytearray(raw)
        ln = R.choice([1, 2, 3, 4])
        for j in range(i, min(n, i + ln)):
            img[j] = R.randrange(256)
        yield ("overwrite" if ln > 1 else "byte", f"{ln} bytes at {i}", bytes(img), i)
    for _ in range(10 if tier == "quick" else 100):
        yield ("extend", "random tail", raw + bytes(R.getrandbits(8) for _ in range(R.choice([1, 32, 100]))), n)
    packs = [s for k, v in regions.items() if k.startswith("pack") for s in v if s[1] - s[0] >= 8]
    for _ in range(10 if tier == "quick" else 100):
        if not packs:
            break
        a, b = R.choice(packs)
        w = R.choice([1, 2, 4])
        i, j = sorted(R.sample(range(a, b - w), 2)) if b - a - w >= 2 else (a, a)
        if j - i >= w:
            img = bytearray(raw)
            img[i:i + w], img[j:j + w] = raw[j:j + w], raw[i:i + w]
            yield ("swap", f"{w}-byte blocks at {i} and {j}", bytes(img), i)
    for _ in range(10 if tier == "quick" else 60):
        i = R.randrange(n)
        yield ("insert", f"1 byte at {i}", raw[:i] + bytes([R.randrange(256)]) + raw[i:], i)
        yield ("remove", f"1 byte at {i}", raw[:i] + raw[i + 1:], i)


def pristine_map(py7zr, raw, password):
    with py7zr.SevenZipFile(io.BytesIO(raw), password=password) as z:
        names = z.getnames()
        fac = py7zr.io.BytesIOFactory(1 << 28)
        z.extractall(factory=fac)
        return names, {n: fac.products[n].read() for n in names if n in fac.products}


def probe(case):
    """read one image through every path; returns list of out-events + resource usage.  Runs in a sandbox child."""
    from .common import import_py7zr

    py7zr = import_py7zr()
    raw, password, names0, data0, targets = case[:5]
    bypath = len(case) > 5 and case[5]        # opened by file name: multi-folder archives take the thread-parallel path
    outs = []
    t0 = time.time()
    fname = None
    if bypath:
        import tempfile
        fd, fname = tempfile.mkstemp(prefix="c04-", suffix=".7z", dir="/dev/shm" if os.path.isdir("/dev/shm") else None)
        with os.fdopen(fd, "wb") as f:
            f.write(raw)

    def judge(names, got):
        for n, d in got.items():
            if n not in data0 or data0[n] != d:
                return "different"
        return "same"

    def run(path, fn):
        ev = {"e": "out", "path": path, "outcome": "same", "verdict": "none", "exc": ""}
        try:
            with py7zr.SevenZipFile(fname if bypath else io.BytesIO(raw), password=password) as z:
                fn(z, ev)
        except BaseException as e:  # noqa
            if isinstance(e, (KeyboardInterrupt, SystemExit, MemoryError)):
                if fname:
                    os.unlink(fname)
                raise
            ev["outcome"] = "error"
            ev["exc"] = type(e).__name__
        outs.append(ev)

    def full(z, ev):
        fac = py7zr.io.BytesIOFactory(1 << 28)
        names = z.getnames()
        z.extractall(factory=fac)
        got = {n: p.read() for n, p in fac.products.items()}
        ev["outcome"] = judge(names, got)
        if ev["outcome"] == "same" and any(n not in names0 for n in names):
            ev["outcome"] = "different"      # success, but a member is listed under another name
        ev["missing"] = len([n for n in data0 if n not in got])

    run("extractall", full)
    if len(case) > 7 and case[7]:
        # into a directory: regular files by their bytes, symbolic links by their targets (a link member's content IS its target)
        import shutil
        import tempfile

        def full_dir(z, ev):
            od = tempfile.mkdtemp(prefix="c04d-", dir="/dev/shm" if os.path.isdir("/dev/shm") else None)
            try:
                z.extractall(od)
                got = {}
                for n in z.getnames():
                    p = os.path.join(od, n)
                    if os.path.islink(p):
                        got[n] = os.readlink(p).encode("utf-8", "surrogateescape")
                    elif os.path.isfile(p):
                        got[n] = open(p, "rb").read()
                ev["outcome"] = judge(None, got)
            finally:
                shutil.rmtree(od, ignore_errors=True)
        run("extractall", full_dir)
    if bypath and len(case) > 6 and case[6]:
        # the same through worker PROCESSES (mp=True), into a directory: an error met by a child must reach the caller as well
        import shutil
        import tempfile

        def full_mp(z, ev):
            od = tempfile.mkdtemp(prefix="c04mp-", dir="/dev/shm" if os.path.isdir("/dev/shm") else None)
            try:
                z.extractall(od)
                got = {}
                for n in z.getnames():
                    p = os.path.join(od, n)
                    if os.path.isfile(p) and not os.path.islink(p):
                        got[n] = open(p, "rb").read()
                ev["outcome"] = judge(None, got)
                ev["missing"] = len([n for n in data0 if n not in got])
            finally:
                shutil.rmtree(od, ignore_errors=True)

        ev0 = {"e": "out", "path": "extractall", "outcome": "same", "verdict": "none", "exc": ""}
        try:
            with py7zr.SevenZipFile(fname, password=password, mp=True) as z:
                full_mp(z, ev0)
        except BaseException as e:  # noqa
            if isinstance(e, (KeyboardInterrupt, SystemExit, MemoryError)):
                os.unlink(fname)
                raise
            ev0["outcome"] = "error"
            ev0["exc"] = type(e).__name__
        outs.append(ev0)
    for T in targets:
        def part(z, ev, T=T):
            fac = py7zr.io.BytesIOFactory(1 << 28)
            z.extract(targets=T, factory=fac)
            got = {n: p.read() for n, p in fac.products.items()}
            ev["outcome"] = judge(None, got)
        run("extract", part)

    def t_test(z, ev):
        v = z.test()
        ev["verdict"] = "none" if v is None else ("good" if v else "bad")
    run("test", t_test)

    def t_zip(z, ev):
        v = z.testzip()
        ev["verdict"] = "good" if v is None else "bad"
    run("testzip", t_zip)
    if fname:
        os.unlink(fname)
    ru = resource.getrusage(resource.RUSAGE_SELF)
    return {"outs": outs, "wall": time.time() - t0, "maxrss_kb": ru.ru_maxrss}


# ------------------------------------------------------------------------------------------ structure-aware mutation (C05)
HOSTILE = [0, 1, 2, 127, 128, 255, 256, (1 << 16) - 1, 1 << 16, (1 << 32) - 1, 1 << 32, 1 << 63, (1 << 64) - 1]


def _lists(node, path=()):
    if isinstance(node, dict):
        for k, v in node.items():
            if isinstance(v, list) and k in ("items", "props", "folders", "coders") and v and isinstance(v[0], dict):
                yield path + (k,), v
            yield from _lists(v, path + (k,))
    elif isinstance(node, list):
        for i, v in enumerate(node):
            yield from _lists(v, path + (i,))


def structure_mutations(raw, password, R, tier):
    """yield (description, image): every NUMBER field of the decoded header set to hostile values, sections dropped /
    duplicated / swapped, boolean vectors and names damaged - all CRCs re-sealed so that the parser is entered"""
    import copy

    from .refcodec import mutate

    try:
        tree = mutate.parse_to_tree(raw, password)
    except Exception:  # noqa
        return
    sites = list(mutate.iter_number_sites(tree))
    for path in sites:
        vals = HOSTILE if tier != "quick" else R.sample(HOSTILE, 5) + [(1 << 64) - 1]
        for v in vals:
            t = copy.deepcopy(tree)
            try:
                if mutate.get_at(t, path) == v:
                    continue
                mutate.set_at(t, path, v)
                yield (f"number {'/'.join(map(str, path))} := {v}", mutate.build_from_tree(t))
            except Exception:  # noqa
                continue
    # coder properties: truncated to every length, each byte set to hostile values (AES cycle counts, dictionary sizes, ...), extended
    def coder_nodes(node, path=()):
        if isinstance(node, dict):
            if "props" in node and "id" in node:
                yield path
            for k, v in node.items():
                yield from coder_nodes(v, path + (k,))
        elif isinstance(node, list):
            for i, v in enumerate(node):
                yield from coder_nodes(v, path + (i,))

    for cp in list(coder_nodes(tree)):
        node = tree
        for k in cp:
            node = node[k]
        props = bytes.fromhex(node["props"])
        variants = [props[:n] for n in range(0, len(props))] + [props + b"\x00", props + b"\xff" * 4]
        for pos in range(min(len(props), 6)):
            for v in (0x00, 0x19, 0x3E, 0x3F, 0x40, 0x7F, 0x80, 0xBE, 0xFF):
                variants.append(props[:pos] + bytes([v]) + props[pos + 1:])
        for n in (1, 2):        # the short forms other writers use (7zAES: one or two bytes, no salt / IV stored)
            for v in (0x00, 0x13, 0x19, 0x1E, 0x28, 0x3E, 0x3F):
                variants.append(bytes([v]) + bytes(n - 1))
        seen = set()
        for var in variants:
            if var == props or var in seen:
                continue
            seen.add(var)
            t = copy.deepcopy(tree)
            nd = t
            for k in cp:
                nd = nd[k]
            nd["props"] = var.hex()
            nd["propsize"] = len(var)
            if len(var) == 0:
                continue            # (a coder without properties needs another flag byte: left to the NUMBER/flag mutations)
            try:
                yield (f"coder {nd['id']} properties := {var.hex()[:24]}", mutate.build_from_tree(t))
            except Exception:  # noqa
                continue
    for lp, lst in list(_lists(tree.get("header") or {}, ("header",))) + list(_lists((tree.get("encoded") or {}).get("streams") or {}, ("encoded", "streams"))):
        for k in range(len(lst)):
            for op in ("drop", "dup", "swap"):
                t = copy.deepcopy(tree)
                node = t
                for p in lp:
                    node = node[p]
                if op == "drop":
                    del node[k]
                elif op == "dup":
                    node.insert(k, copy.deepcopy(node[k]))
                elif k + 1 < len(node):
                    node[k], node[k + 1] = node[k + 1], node[k]
                else:
                    continue
                try:
                    yield (f"{op} {'/'.join(map(str, lp))}[{k}]", mutate.build_from_tree(t))
                except Exception:  # noqa
                    continue


def compound_attacks(tier):
    """yield (description, image): inputs whose hostility lies in several fields together.
    - count VECTORS of a many-folder archive set as a whole (every entry just under what a per-item validation admits, ...)
    - packed headers that unpack to packed headers: to themselves, to each other"""
    import copy
    import struct
    import zlib

    from .refcodec import mutate

    for nf in ((60, 400, 1000) if tier != "quick" else (60, 1000)):
        files = [{"name": f"f{i}", "kind": "file", "data": b"x"} for i in range(nf)]
        folders = [{"nfiles": 1, "coders": [{"id": "copy"}], "crc": "none"} for _ in range(nf)]
        raw, _ = write_archive({"files": files, "folders": folders, "header": "raw", "omit_numunpack_if_all_one": False})
        tree = mutate.parse_to_tree(raw, None)
        hdrlen = int.from_bytes(raw[20:28], "little")
        bound = 8 * (hdrlen + 1)
        vectors = []

        def walk(node, path):
            if isinstance(node, dict):
                for k, v in node.items():
                    if isinstance(v, list) and len(v) >= 2 and all(isinstance(x, int) for x in v):
                        vectors.append(path + (k,))
                    else:
                        walk(v, path + (k,))
            elif isinstance(node, list):
                for i, v in enumerate(node):
                    walk(v, path + (i,))

        walk(tree.get("header") or {}, ("header",))
        # a file count just under what the remaining data admits, with the names running out early: every name costs a scan for its terminator
        for path in mutate.iter_number_sites(tree):
            if path[-1] == "numfiles":
                for val in (bound - 1, bound // 2, nf * 20):
                    t = copy.deepcopy(tree)
                    mutate.set_at(t, path, val)
                    try:
                        yield (f"{nf} folders: numfiles := {val}", mutate.build_from_tree(t))
                    except Exception:  # noqa
                        pass
        for vp in vectors:
            for val in (bound - 1, bound // 2, bound * 4 // nf, 1 << 20, (1 << 32) - 1):
                for drop_rest in (False, True):
                    t = copy.deepcopy(tree)
                    node = t
                    for k in vp[:-1]:
                        node = node[k]
                    node[vp[-1]] = [val] * len(node[vp[-1]])
                    if drop_rest and vp[-1] == "nums":
                        # nothing after the counts (no Size / CRC section)
                        parent = t
                        for k in vp[:-3]:
                            parent = parent[k]
                        if isinstance(parent, dict) and "items" in parent:
                            parent["items"] = parent["items"][:1]
                    elif drop_rest:
                        continue
                    try:
                        yield (f"{nf} folders: every entry of {'/'.join(map(str, vp[-3:]))} := {val}" + (" (rest dropped)" if drop_rest else ""), mutate.build_from_tree(t))
                    except Exception:  # noqa
                        continue

    # a file count admitted by the one-bit-per-item bound thanks to zero padding BEHIND the header's END mark (free in a packed header):
    # 2,000,000 declared files in an archive of 183 bytes whose header legitimately unpacks to 250 KB
    import lzma

    def _u64(v):
        for n in range(8):
            if v < 1 << (7 * n + 7):
                return bytes([((0xFF00 >> n) & 0xFF) | (v >> (8 * n))]) + (v & ((1 << (8 * n)) - 1)).to_bytes(n, "little")
        return b"\xff" + v.to_bytes(8, "little")

    for nfiles, pad in ((2_000_000, 250_000),):
        hdr = b"\x01\x05" + _u64(nfiles) + b"\x00\x00" + bytes(pad)
        filt = {"id": lzma.FILTER_LZMA1, "dict_size": 1 << 16}
        props = lzma._encode_filter_properties(filt)
        pk = lzma.compress(hdr, format=lzma.FORMAT_RAW, filters=[filt])
        eh = b"\x17\x06" + _u64(0) + _u64(1) + b"\x09" + _u64(len(pk)) + b"\x00"
        eh += b"\x07\x0b\x01\x00" + b"\x01" + bytes([0x23]) + b"\x03\x01\x01" + _u64(len(props)) + props + b"\x0c" + _u64(len(hdr))
        eh += b"\x0a\x01" + struct.pack("<L", zlib.crc32(hdr) & 0xFFFFFFFF) + b"\x00\x00"
        start = struct.pack("<QQL", len(pk), len(eh), zlib.crc32(eh) & 0xFFFFFFFF)
        yield (f"padded packed header: numfiles := {nfiles} behind {pad} zero bytes",
               b"7z\xbc\xaf\x27\x1c\x00\x04" + struct.pack("<L", zlib.crc32(start) & 0xFFFFFFFF) + start + pk + eh)

    # many declared items that the data really backs (one byte each): work must stay linear in the size of the input
    files = [{"name": f"f{i}", "kind": "file", "data": b"x"} for i in range(10)]
    raw, _ = write_archive({"files": files, "folders": [{"nfiles": 1, "coders": [{"id": "copy"}], "crc": "none"} for _ in range(10)], "header": "raw"})
    tree = mutate.parse_to_tree(raw, None)
    for n in ((60000, 150000) if tier == "quick" else (60000, 150000, 400000)):
        t = copy.deepcopy(tree)
        pk = t["header"]["items"][0]["items"][0]
        pk["numstreams"] = n
        pk["items"][0]["sizes"] = [1] * n
        yield (f"{n} packed streams of one byte", mutate.build_from_tree(t))
        t = copy.deepcopy(tree)
        sub = [x for x in t["header"]["items"][0]["items"] if x.get("t") == "SubStreamsInfo"]
        if sub and sub[0]["items"] and "nums" in sub[0]["items"][0]:
            sub[0]["items"][0]["nums"] = [n // 10] * 10
            sub[0]["items"] = sub[0]["items"][:1] + [{"t": "Size", "sizes": [0] * (n - 10)}] if False else sub[0]["items"][:1]
            yield (f"10 folders of {n // 10} substreams, nothing behind", mutate.build_from_tree(t))
    # the start header's own fields (re-sealed): offsets and sizes the file cannot back
    files = [{"name": "a", "kind": "file", "data": b"abc" * 20}]
    raw, _ = write_archive({"files": files, "folders": [{"nfiles": 1, "coders": [{"id": "copy"}], "crc": "substream"}], "header": "raw"})
    off, size, hcrc = struct.unpack("<QQI", raw[12:32])
    for field in ("offset", "size"):
        for val in (0, 1, size - 1, size + 1, len(raw), 1 << 20, 1 << 30, 0x60000000, (1 << 31) - 1, 1 << 31, (1 << 32) - 1, 1 << 32, 1 << 40, (1 << 63) - 1, (1 << 64) - 1):
            start = struct.pack("<QQI", val if field == "offset" else off, val if field == "size" else size, hcrc)
            yield (f"start header: next header {field} := {val}", raw[:8] + struct.pack("<I", zlib.crc32(start)) + start + raw[32:])

    def seal(body_after_sig: bytes, hdr_off: int, hdr: bytes) -> bytes:
        start = struct.pack("<QQI", hdr_off, len(hdr), zlib.crc32(hdr))
        return b"7z\xbc\xaf\x27\x1c\x00\x04" + struct.pack("<I", zlib.crc32(start)) + start + body_after_sig

    def packed_header(packpos: int, size: int) -> bytes:
        # EncodedHeader: PackInfo(packpos, 1 stream, size) UnpackInfo(1 folder, Copy, unpack size = size, no CRC)
        assert packpos < 128 and size < 128
        return bytes([0x17, 0x06, packpos, 0x01, 0x09, size, 0x00, 0x07, 0x0B, 0x01, 0x00, 0x01, 0x01, 0x00, 0x0C, size, 0x00, 0x00])

    h = packed_header(0, 18)
    assert len(h) == 18
    yield ("packed header whose packed stream is itself", seal(h, 0, h))
    a = packed_header(18, 18)      # A (at 0) unpacks the bytes at 18 = B; B unpacks the bytes at 0 = A
    b = packed_header(0, 18)
    yield ("two packed headers unpacking to each other", seal(a + b, 0, a))
    yield ("packed header pointing at itself, end header behind padding", seal(bytes(5) + packed_header(5, 18), 5, packed_header(5, 18)))


def run_sequence_rss(case):
    """the same, reporting the resident set the process grew to (a refusal by MemoryError counts as an ordinary answer here):
    used to tell a large RESERVATION of address space (a decoder's dictionary, never touched) from memory really used"""
    before = resource.getrusage(resource.RUSAGE_SELF).ru_maxrss
    try:
        r = run_sequence(case)
    except MemoryError:
        r = {"open": "MemoryError", "calls": [], "wall": 0}
    r["rss_growth_kb"] = max(0, resource.getrusage(resource.RUSAGE_SELF).ru_maxrss - before)
    return r


SEQUENCES = [["getnames", "list", "test", "testzip", "extractall"], ["extractall", "extractall"], ["extract", "extract"], ["testzip", "extractall", "test"],
             ["list", "extract", "reset", "extractall"], ["test", "extract", "testzip"]]


def run_sequence(case):
    """open an image and run a call sequence; every call may raise an ordinary exception.  Runs in a sandbox child."""
    from .common import import_py7zr

    py7zr = import_py7zr()
    raw, password, seq = case
    res = []
    t0 = time.time()
    try:
        z = py7zr.SevenZipFile(io.BytesIO(raw), password=password)
    except BaseException as e:  # noqa
        if isinstance(e, (MemoryError, KeyboardInterrupt, SystemExit)):
            raise
        return {"open": type(e).__name__, "calls": [], "wall": time.time() - t0}
    try:
        for c in seq:
            try:
                if c == "getnames":
                    z.getnames()
                elif c == "list":
                    z.list()
                elif c == "test":
                    z.test()
                elif c == "testzip":
                    z.testzip()
                elif c == "reset":
                    z.reset()
                elif c == "extractall":
                    z.extractall(factory=py7zr.io.NullIOFactory())
                elif c == "extract":
                    names = z.getnames()
                    z.extract(targets=names[-1:], factory=py7zr.io.NullIOFactory())
                res.append("ok")
            except BaseException as e:  # noqa
                if isinstance(e, (MemoryError, KeyboardInterrupt, SystemExit)):
                    raise
                res.append(type(e).__name__)
    finally:
        try:
            z.close()
        except BaseException:  # noqa
            pass
    return {"open": "ok", "calls": res, "wall": time.time() - t0}
