------------------------------- MODULE Folder -------------------------------
(* The coder graph of one 7z folder (docs/archive_format.rst, "Folder"), and *)
(* the way py7zr's reader turns it into a decoding pipeline                   *)
(* (archiveinfo.Folder._read / get_decompressor / get_unpack_size,            *)
(*  compressor.SevenZipDecompressor.__init__).                                *)
(*                                                                            *)
(* Format: a folder lists n coders in RECORD order (positions 0..n-1); with   *)
(* simple coders (one in, one out stream) it carries n-1 bind pairs           *)
(* <<in, out>>: the coder at position `in` reads what the coder at position   *)
(* `out` delivers.  The one coder whose input is bound by no pair consumes    *)
(* the packed stream, the one whose output is bound by no pair delivers the   *)
(* folder's content and owns the folder's unpack size.  The pairs - not the   *)
(* positions, and not the order in which the pairs are written - define the   *)
(* chain.  py7zr's own writer always emits pairs <<i+1, i>> (positional).     *)
(*                                                                            *)
(* Reader, one action per step of the code:                                   *)
(*   ReadCoders      num_coders and the coder records                         *)
(*   ReadPair        one Bond(incoder, outcoder), n-1 times, hostile values    *)
(*                   included (any number in 0..n-1, repeated, cyclic)        *)
(*   BeginWalk/Step  _decoding_order(): start at the first position without   *)
(*                   an in-bond, follow out -> in while the position is new   *)
(*   Finish          a walk that covered every coder is the decoding order,   *)
(*                   any other graph falls back to record order (the reader   *)
(*                   neither refuses nor loops on ill-formed pairs: a named   *)
(*                   deviation, the decoders then reject the data)            *)
(*   MainOut         get_unpack_size(): the last position without out-bond    *)
(* FollowsPairs = FALSE is the reader before the repair: record order always, *)
(* main output = last record.                                                 *)
EXTENDS Naturals, Sequences, FiniteSets, TLC

CONSTANTS MaxCoders, FollowsPairs

VARIABLES phase,    \* "start" | "pairs" | "walk" | "done"
          n,        \* number of coders
          pairs,    \* bind pairs read so far: sequence of <<in, out>>
          cur,      \* position the walk stands on; n = nowhere
          order,    \* positions visited by the walk / the decoding order once done
          mainout   \* position whose unpack size is the folder's size; n = not yet known
vars == <<phase, n, pairs, cur, order, mainout>>

Pos == 0 .. (n - 1)
Ins == {pairs[k][1] : k \in 1..Len(pairs)}
Outs == {pairs[k][2] : k \in 1..Len(pairs)}
PairSet == {pairs[k] : k \in 1..Len(pairs)}
Positional == [k \in 1..n |-> k - 1]

(* ------------------------------ the format ------------------------------- *)
IsChain(s) == /\ Len(s) = n /\ {s[k] : k \in 1..n} = Pos
              /\ \A k \in 1..(n - 1) : <<s[k + 1], s[k]>> \in PairSet
Seqs(S, len) == [1..len -> S]
WellFormed == /\ Len(pairs) = n - 1
              /\ Cardinality(Ins) = n - 1 /\ Cardinality(Outs) = n - 1
              /\ \E s \in Seqs(Pos, n) : IsChain(s)
SemOrder == CHOOSE s \in Seqs(Pos, n) : IsChain(s)
SemMainOut == SemOrder[n]

(* ------------------------------ the reader ------------------------------- *)
Init == phase = "start" /\ n = 0 /\ pairs = <<>> /\ cur = 0 /\ order = <<>> /\ mainout = 0

ReadCoders == /\ phase = "start"
              /\ n' \in 1..MaxCoders
              /\ phase' = "pairs"
              /\ UNCHANGED <<pairs, cur, order, mainout>>

ReadPair(i, o) == /\ phase = "pairs" /\ Len(pairs) < n - 1
                  /\ pairs' = Append(pairs, <<i, o>>)
                  /\ UNCHANGED <<phase, n, cur, order, mainout>>

Starts == {p \in Pos : p \notin Ins}
First(S) == CHOOSE p \in S : \A q \in S : p <= q
NextOf(p) == IF \E k \in 1..Len(pairs) : pairs[k][2] = p
             THEN pairs[CHOOSE k \in 1..Len(pairs) : pairs[k][2] = p /\ \A j \in 1..(k - 1) : pairs[j][2] # p][1]
             ELSE n

BeginWalk == /\ phase = "pairs" /\ Len(pairs) = n - 1
             /\ phase' = "walk"
             /\ cur' = IF FollowsPairs /\ Starts # {} THEN First(Starts) ELSE n
             /\ order' = <<>>
             /\ UNCHANGED <<n, pairs, mainout>>

InOrder(p) == \E k \in 1..Len(order) : order[k] = p

Step == /\ phase = "walk" /\ cur < n /\ ~InOrder(cur)
        /\ order' = Append(order, cur)
        /\ cur' = NextOf(cur)
        /\ UNCHANGED <<phase, n, pairs, mainout>>

UnboundOuts == {p \in Pos : p \notin Outs}
Last(S) == CHOOSE p \in S : \A q \in S : p >= q

Finish == /\ phase = "walk" /\ (cur >= n \/ InOrder(cur))
          /\ order' = IF FollowsPairs /\ Len(order) = n /\ cur >= n THEN order ELSE Positional
          /\ mainout' = IF FollowsPairs /\ UnboundOuts # {} THEN Last(UnboundOuts) ELSE n - 1
          /\ phase' = "done"
          /\ UNCHANGED <<n, pairs, cur>>

Next == ReadCoders \/ (\E i, o \in 0..(MaxCoders - 1) : i < n /\ o < n /\ ReadPair(i, o)) \/ BeginWalk \/ Step \/ Finish
Spec == Init /\ [][Next]_vars /\ WF_vars(Next)

(* ------------------------------ properties ------------------------------- *)
TypeOK == /\ phase \in {"start", "pairs", "walk", "done"} /\ n \in 0..MaxCoders
          /\ Len(pairs) <= MaxCoders /\ cur \in 0..MaxCoders /\ Len(order) <= MaxCoders

(* C06: every well-formed graph is decoded along the chain its bind pairs define, and sized by the chain's last coder *)
ReaderAgrees == (phase = "done" /\ WellFormed) => (order = SemOrder /\ mainout = SemMainOut)
(* the writer's own graphs keep meaning what they meant *)
PositionalKept == (phase = "done" /\ \A k \in 1..Len(pairs) : pairs[k] = <<k, k - 1>>) => (order = Positional /\ mainout = n - 1)
(* C05: the walk visits no position twice, whatever the pairs say (cycles, repeated ends) *)
WalkBounded == phase = "walk" => (Len(order) <= n /\ \A j, k \in 1..Len(order) : j # k => order[j] # order[k])
(* Folder._read infers the packed stream's index when there is exactly one: the in-streams no pair binds, in ascending order;  *)
(* on a well-formed graph that is the coder the chain starts at                                                              *)
PackedIsChainStart == (phase = "done" /\ WellFormed) => Starts = {SemOrder[1]}
(* named deviation: ill-formed graphs are read in record order *)
IllFormedPositional == (phase = "done" /\ ~WellFormed) => order = Positional
Terminates == <>(phase = "done")
=============================================================================
