------------------------------ MODULE TraceMem ------------------------------
(* Code -> spec binding for C20 (streaming in bounded memory).  One trace = one fresh process that wrote, or read,    *)
(* an archive with large synthetic members (harness/bigmem.py): the steps of every SevenZipDecompressor of that      *)
(* process, what the writer read and kept, and the process's peak resident set.                                      *)
(* The per-call rules are Stream.tla's Step with the cumulative counters left out (they pass 2^31 for the members    *)
(* this property is about); the memory rules are Stream.tla's OutBound / InputBound / MemBound in bytes.             *)
EXTENDS Naturals, Integers, Sequences, Json, IOUtils, TLCExt, TLC

Traces == JsonDeserialize(IOEnv.TRACE_FILE)
Explain == IOEnv.EXPLAIN = "1"
Min(a, b) == IF a < b THEN a ELSE b

SlackKiB == 65536          \* constant overshoot allowed to a soft output limit (Brotli, one Deflate64 slice): 64 MiB
BudgetKiB == 716800        \* 700 MiB above the interpreter's baseline

VARIABLES tid, l, block, limit, buf, pile, dead
vars == <<tid, l, block, limit, buf, pile, dead>>
Ev == Traces[tid][l]
Init == /\ tid \in 1..Len(Traces) /\ l = 1 /\ block = 0 /\ limit = 0 /\ buf = 0 /\ pile = 0 /\ dead = FALSE
IsEvent(name) == l <= Len(Traces[tid]) /\ Ev.e = name /\ l' = l + 1 /\ tid' = tid

(* a decompressor comes to life (one per folder; a new one after reset) *)
New == /\ IsEvent("new")
       /\ Ev.limit <= 128000000                            \* the extraction chunk never exceeds the documented 128 MB, whatever the machine or its limits say
       /\ block' = Ev.block /\ limit' = Ev.limit /\ buf' = 0 /\ pile' = 0
       /\ UNCHANGED dead

Slack == SlackKiB * 1024

(* SevenZipDecompressor.decompress(fp, m) *)
Call == /\ IsEvent("call") /\ block > 0
        /\ Ev.cur = buf
        /\ Ev.res <= Ev.m
        /\ Ev.m <= limit                                   \* the worker never asks for more than the chunk limit
        /\ IF buf >= Ev.m
           THEN /\ Ev.t = -1 /\ Ev.d = 0 /\ Ev.res = Ev.m /\ Ev.buf = buf - Ev.m
           ELSE /\ Ev.t >= 0
                /\ Ev.d <= block                           \* one block of packed data at most
                /\ Ev.res = Min(buf + Ev.t, Ev.m)
                /\ Ev.buf = buf + Ev.t - Ev.res
                /\ Ev.t <= Ev.m + Slack                    \* OutBound: a call's decoder output is bounded by the request, not by the ratio
                /\ Ev.req = Ev.m - buf                     \* the decoders are asked for what the parked bytes do not cover (an overshoot is not piled up)
                /\ (Ev.h /\ Ev.dr > 0) => (Ev.d = 0 /\ Ev.t = Ev.dr)     \* a holding decoder that delivers is not fed
                /\ Ev.h => Ev.dr >= 0                      \* a holding decoder is asked first
        /\ Ev.buf <= limit + Slack                         \* the carry-over
        \* InputBound: packed bytes read while a decoder still held data pile up inside it; at most one block may
        /\ pile' = IF Ev.h /\ Ev.d > 0 THEN pile + Ev.d ELSE IF Ev.h THEN pile ELSE 0
        /\ pile' <= block
        /\ buf' = Ev.buf
        /\ UNCHANGED <<block, limit, dead>>

(* the writer reads its source one block at a time ... *)
WRead == /\ IsEvent("wread")
         /\ (Ev.block > 0 => Ev.n <= Ev.block)
         /\ UNCHANGED <<block, limit, buf, pile, dead>>
(* ... and keeps no member's content once the call that archived it has returned *)
WRet == /\ IsEvent("wret")
        /\ Ev.held = 0
        /\ UNCHANGED <<block, limit, buf, pile, dead>>

(* MemBound, observed: the process's peak resident set *)
Rss == /\ IsEvent("rss")
       /\ Ev.peak - Ev.base <= BudgetKiB
       /\ dead' = TRUE
       /\ UNCHANGED <<block, limit, buf, pile>>

(* what the process was asked to do happened: the archive was written; every member arrived with its size; testzip found nothing *)
Outcome == /\ IsEvent("outcome")
           /\ Ev.ok
           /\ UNCHANGED <<block, limit, buf, pile, dead>>

Next == New \/ Call \/ WRead \/ WRet \/ Rss \/ Outcome
Spec == Init /\ [][Next]_vars

Done == /\ (l = Len(Traces[tid]) + 1) => PrintT(<<"ACC", tid>>)
        /\ Explain => PrintT(<<"AT", tid, l>>)
=============================================================================
