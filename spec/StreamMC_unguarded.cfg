SPECIFICATION Spec
CONSTANT Params <- Valid
CONSTANT StallMax = 2
CONSTANT Guarded = FALSE
INVARIANT ChunkBound
INVARIANT Exact
INVARIANT NoOverrun
INVARIANT InOrder
INVARIANT Conserved
INVARIANT BufBound
INVARIANT NoFalseAlarm
PROPERTY Terminates
PROPERTY ShortRaises
CHECK_DEADLOCK FALSE
