SPECIFICATION Spec
INVARIANT Truthful
CHECK_DEADLOCK FALSE
