SPECIFICATION TSpec
CONSTANT MaxCalls = 9
CONSTANT MaxSessions = 9
CONSTANT MaxFaults = 9
CONSTANT Rollback = TRUE
CONSTRAINT Done
CHECK_DEADLOCK FALSE
