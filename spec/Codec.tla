------------------------------ MODULE Codec ------------------------------
(***************************************************************************)
(* Primitive encodings of the 7z header (property C17, reused by Header).  *)
(*                                                                         *)
(* 64-bit quantities are little-endian byte sequences <<b1..b8>> because   *)
(* TLC integers are 32-bit.                                                *)
(*                                                                         *)
(*   Spec*   : written directly from docs/archive_format.rst               *)
(*   *Algo   : transcription of py7zr/archiveinfo.py (the I-level)         *)
(*                                                                         *)
(* The state machine is "store a value, load it again": Pick -> Encode ->  *)
(* Decode.  Encode is either py7zr's writer (WriteAlgo) or ANY conforming  *)
(* writer (an element of SpecEncodings); Decode is py7zr's reader.         *)
(***************************************************************************)
EXTENDS Naturals, Sequences, FiniteSets, TLC

Byte == 0..255
Pow2(n) == 2^n

Zero8 == <<0,0,0,0,0,0,0,0>>

(* number of significant bytes of an 8-byte little-endian value *)
SigBytes(v) == IF \A i \in 1..8 : v[i] = 0 THEN 0
               ELSE CHOOSE n \in 1..8 : v[n] # 0 /\ \A j \in (n+1)..8 : v[j] = 0

(* pattern with n leading one bits followed by zeros *)
Ones(n) == 256 - Pow2(8 - n)

(* number of leading one bits of a byte *)
LeadOnes(b) == IF b = 255 THEN 8
               ELSE CHOOSE n \in 0..7 : b >= Ones(n) /\ b < Ones(n + 1)

---------------------------------------------------------------------------
(* NUMBER as the document defines it *)

(* enc must be exactly one NUMBER: first byte + LeadOnes(first) extra bytes *)
SpecWellFormed(enc) == Len(enc) >= 1 /\ Len(enc) = 1 + LeadOnes(enc[1])

SpecDecode(enc) ==
  LET n    == LeadOnes(enc[1])
      high == IF n >= 7 THEN 0 ELSE enc[1] % Pow2(7 - n)
  IN  [i \in 1..8 |-> IF i <= n THEN enc[1 + i]
                      ELSE IF i = n + 1 THEN high ELSE 0]

(* the value fits the form with n extra bytes *)
Fits(v, n) == /\ \A j \in (n + 2)..8 : v[j] = 0
              /\ n < 7 => v[n + 1] < Pow2(7 - n)
              /\ n = 7 => v[8] = 0

FormN(v, n) == IF n = 8 THEN <<255>> \o v
               ELSE <<Ones(n) + (IF n = 7 THEN 0 ELSE v[n + 1])>> \o SubSeq(v, 1, n)

(* every conforming encoding of v (the format allows non-minimal ones) *)
SpecEncodings(v) == { FormN(v, n) : n \in { m \in 0..8 : m = 8 \/ Fits(v, m) } }

---------------------------------------------------------------------------
(* write_uint64 transcribed *)
WriteAlgo(v) ==
  LET bl == SigBytes(v) IN
  IF bl = 0 \/ (bl = 1 /\ v[1] < 128) THEN <<v[1]>>
  ELSE IF bl = 8 THEN <<255>> \o v
  ELSE LET hb == v[bl] IN
       IF hb < 2 * Pow2(8 - bl - 1)
       THEN <<hb + Ones(bl - 1)>> \o SubSeq(v, 1, bl - 1)     \* high_byte |= 0x80 >> x, x < bl-1
       ELSE <<Ones(bl)>> \o SubSeq(v, 1, bl)                  \* mask of bl ones, then bl bytes

(* read_uint64 transcribed: the blen table walk *)
BlenTable == << <<127,0>>, <<191,1>>, <<223,2>>, <<239,3>>, <<247,4>>, <<251,5>>, <<253,6>>, <<254,7>> >>

ReadAlgoLen(b) == IF b = 255 THEN 8
                  ELSE LET k == CHOOSE k \in 1..8 : b <= BlenTable[k][1] /\ \A j \in 1..(k-1) : b > BlenTable[j][1]
                       IN BlenTable[k][2]

(* stream = first byte followed by at least the extra bytes *)
ReadAlgo(enc) ==
  LET b == enc[1] IN
  IF b = 255 THEN SubSeq(enc, 2, 9)
  ELSE LET vlen == ReadAlgoLen(b)
           mask == Pow2(7 - vlen)            \* 0x80 >> vlen
           high == b % mask                  \* b & (mask - 1)
       IN  [i \in 1..8 |-> IF i <= vlen THEN enc[1 + i]
                           ELSE IF i = vlen + 1 THEN high ELSE 0]

---------------------------------------------------------------------------
(* Boolean vectors.  bits : Seq({0,1}) *)
VecLen(n) == (n + 7) \div 8

PackBits(bits) ==
  [k \in 1..VecLen(Len(bits)) |->
     LET B(j) == LET idx == (k - 1) * 8 + j IN IF idx <= Len(bits) THEN bits[idx] ELSE 0
     IN  B(1)*128 + B(2)*64 + B(3)*32 + B(4)*16 + B(5)*8 + B(6)*4 + B(7)*2 + B(8)]

AllSet(bits) == \A i \in 1..Len(bits) : bits[i] = 1

(* the document: optional all-defined byte, then BitField (rest bits zero) *)
SpecBoolEncodings(bits, withAllDefined) ==
  IF ~withAllDefined THEN { PackBits(bits) }
  ELSE { <<0>> \o PackBits(bits) } \cup (IF AllSet(bits) THEN { <<1>> } ELSE {})

WriteBoolAlgo(bits, withAllDefined) ==
  IF withAllDefined /\ AllSet(bits) THEN <<1>>
  ELSE IF withAllDefined THEN <<0>> \o PackBits(bits)
  ELSE PackBits(bits)

BitOf(byte, j) == (byte \div Pow2(8 - j)) % 2     \* j = 1 is the MSB

ReadBoolAlgo(enc, count, checkall) ==
  IF checkall /\ enc[1] # 0 THEN [i \in 1..count |-> 1]
  ELSE LET off == IF checkall THEN 1 ELSE 0
       IN  [i \in 1..count |-> BitOf(enc[off + ((i - 1) \div 8) + 1], ((i - 1) % 8) + 1)]

(* any non-zero all-defined byte means "all defined" for the reader; the document says BYTE *)
---------------------------------------------------------------------------
(* UTF-16LE names: code points -> bytes, terminated by 00 00 *)
Utf16Units(cp) == IF cp < 65536 THEN <<cp>>
                  ELSE << 55296 + ((cp - 65536) \div 1024), 56320 + ((cp - 65536) % 1024) >>

UnitBytes(cp) == LET u == Utf16Units(cp)
                 IN  IF Len(u) = 1 THEN <<u[1] % 256, u[1] \div 256>>
                     ELSE <<u[1] % 256, u[1] \div 256, u[2] % 256, u[2] \div 256>>

(* divide and conquer keeps the recursion depth logarithmic (names of 4096 code points) *)
RECURSIVE BodyBytes(_)
BodyBytes(cps) == IF Len(cps) = 0 THEN <<>>
                  ELSE IF Len(cps) = 1 THEN UnitBytes(cps[1])
                  ELSE LET h == Len(cps) \div 2
                       IN  BodyBytes(SubSeq(cps, 1, h)) \o BodyBytes(SubSeq(cps, h + 1, Len(cps)))

NameBytes(cps) == BodyBytes(cps) \o <<0, 0>>

---------------------------------------------------------------------------
(* Property sizes the grammar requires for the file-property records        *)
(* numfiles files, numdefined of them defined, item = bytes per item         *)
PropSizeSpec(numfiles, numdefined, item) ==
  (IF numdefined = numfiles THEN 1 ELSE 1 + VecLen(numfiles)) + 1 + numdefined * item

(* what _write_times/_write_attributes compute *)
PropSizeAlgo(numfiles, numdefined, item) ==
  numdefined * item + 2 + (IF numdefined # numfiles THEN VecLen(numdefined) ELSE 0)

===========================================================================
