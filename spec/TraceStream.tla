----------------------------- MODULE TraceStream -----------------------------
(* Code -> spec binding of the streaming glue (C01, C05, C20).  One trace =   *)
(* the life of one SevenZipDecompressor, AESCompressor or AESDecompressor,    *)
(* recorded by wrappers around the real methods (harness/probe.py).           *)
(*   new   {kind: "dec", insize, block}                                       *)
(*   call  {m, cur, d, t, res, buf, consumed, h, dr}  one decompress(fp, m)   *)
(*   mstart{size} / mend{}                      Worker.decompress per member  *)
(*   new   {kind: "aesenc" | "aesdec"};  aes {n, b0, res, b1, flush}          *)
EXTENDS Naturals, Integers, Sequences, Json, IOUtils, TLCExt, TLC

Traces == JsonDeserialize(IOEnv.TRACE_FILE)
Explain == IOEnv.EXPLAIN = "1"
Min(a, b) == IF a < b THEN a ELSE b

VARIABLES tid, l, kind, insize, block, buf, consumed, got, want, idle
vars == <<tid, l, kind, insize, block, buf, consumed, got, want, idle>>
Ev == Traces[tid][l]
Init == /\ tid \in 1..Len(Traces) /\ l = 1 /\ kind = "none" /\ insize = 0 /\ block = 0
        /\ buf = 0 /\ consumed = 0 /\ got = 0 /\ want = -1 /\ idle = 0
IsEvent(name) == l <= Len(Traces[tid]) /\ Ev.e = name /\ l' = l + 1 /\ tid' = tid

New == /\ IsEvent("new") /\ kind = "none"
       /\ kind' = Ev.kind /\ insize' = Ev.insize /\ block' = Ev.block
       /\ UNCHANGED <<buf, consumed, got, want, idle>>

(* SevenZipDecompressor.decompress(fp, max_length = m), m >= 0 *)
Call == /\ IsEvent("call") /\ kind = "dec"
        /\ Ev.cur = buf                                   \* what was parked is what the previous call left
        /\ Ev.res <= Ev.m                                 \* never more than asked
        /\ IF buf >= Ev.m
           THEN /\ Ev.t = -1 /\ Ev.d = 0                  \* served from the parked bytes, no read, no decoder call
                /\ Ev.res = Ev.m /\ Ev.buf = buf - Ev.m
           ELSE /\ Ev.t >= 0
                /\ Ev.d <= Min(insize - consumed, block)  \* _read_data asks for min(rest, block); a multi-volume file may return less
                \* ... but not nothing while packed bytes remain - unless a decoder that still held data of earlier input
                \* (it honours max_length) was drained instead: then nothing is read
                /\ IF Ev.h /\ Ev.dr > 0 THEN Ev.d = 0 /\ Ev.t = Ev.dr
                   ELSE (Min(insize - consumed, block) > 0 => Ev.d > 0)
                /\ Ev.res = Min(buf + Ev.t, Ev.m)
                /\ Ev.buf = buf + Ev.t - Ev.res           \* the surplus is parked, nothing lost, nothing duplicated
        /\ Ev.consumed = consumed + Ev.d /\ Ev.consumed <= insize
        /\ buf' = Ev.buf /\ consumed' = Ev.consumed
        /\ got' = got + Ev.res
        \* progress: with the input used up and nothing parked, fruitless calls are counted - the loop must stop
        /\ idle' = IF Ev.res = 0 /\ Ev.consumed >= insize /\ Ev.buf = 0 THEN idle + 1 ELSE 0
        /\ idle' <= 70
        /\ UNCHANGED <<kind, insize, block, want>>

MStart == /\ IsEvent("mstart") /\ kind = "dec" /\ want = -1
          /\ want' = Ev.size /\ got' = 0
          /\ UNCHANGED <<kind, insize, block, buf, consumed, idle>>

(* Worker.decompress returned normally: the member received exactly its declared size *)
MEnd == /\ IsEvent("mend") /\ kind = "dec" /\ want >= 0
        /\ (Ev.ok => got = want)
        /\ want' = -1
        /\ UNCHANGED <<kind, insize, block, buf, consumed, got, idle>>

(* AESCompressor.compress(data) / flush(), AESDecompressor.decompress(data): the 16-byte residue arithmetic *)
Aes == /\ IsEvent("aes") /\ kind \in {"aesenc", "aesdec"}
       /\ Ev.b0 = buf
       /\ LET cur == buf + Ev.n
              pad == (16 - (buf % 16)) % 16 IN
          IF kind = "aesenc" /\ Ev.flush
          THEN IF buf > 0 THEN Ev.res = buf + pad /\ Ev.b1 = 0 ELSE Ev.res = 0 /\ Ev.b1 = 0
          ELSE IF kind = "aesenc"
          THEN IF cur >= 16 /\ cur % 16 = 0 THEN Ev.res = cur /\ Ev.b1 = 0
               ELSE IF cur > 16 THEN Ev.res = cur - (cur % 16) /\ Ev.b1 = cur % 16
               ELSE Ev.res = 0 /\ Ev.b1 = cur
          ELSE \* aesdec
               IF Ev.n > 0 /\ cur % 16 = 0 THEN Ev.res = cur /\ Ev.b1 = 0
               ELSE IF Ev.n > 0 THEN Ev.res = cur - (cur % 16) /\ Ev.b1 = cur % 16
               ELSE IF buf = 0 THEN Ev.res = 0 /\ Ev.b1 = 0
               ELSE Ev.res = buf + pad /\ Ev.b1 = 0
       /\ Ev.res % 16 = 0                                \* only whole cipher blocks leave
       /\ buf' = Ev.b1
       /\ got' = got + Ev.res /\ consumed' = consumed + Ev.n
       /\ UNCHANGED <<kind, insize, block, want, idle>>

(* end of an encryptor's life: everything that went in came out, padded to a block *)
AesEnd == /\ IsEvent("aesend") /\ kind = "aesenc"
          /\ buf = 0 /\ got = consumed + ((16 - (consumed % 16)) % 16)
          /\ UNCHANGED <<kind, insize, block, buf, consumed, got, want, idle>>

Next == New \/ Call \/ MStart \/ MEnd \/ Aes \/ AesEnd
Spec == Init /\ [][Next]_vars

Done == /\ (l = Len(Traces[tid]) + 1) => PrintT(<<"ACC", tid>>)
        /\ Explain => PrintT(<<"AT", tid, l>>)
=============================================================================
