SPECIFICATION TSpec
CONSTANT MaxCalls = 99
CONSTANT Base = 2
CONSTANT WriteGuarded = TRUE
CONSTANT Rewinds = TRUE
CONSTRAINT Done
CHECK_DEADLOCK FALSE
