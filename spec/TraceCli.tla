------------------------------- MODULE TraceCli -------------------------------
(* Code -> spec binding for C19: one trace = one `python -m py7zr ...` run:    *)
(*   run {cmd, cond, opt, exit, effect_ok}                                     *)
(* effect_ok: the harness compared the effect with the library (tree equal,    *)
(* listing equal to list(), earlier members undisturbed, volumes readable).    *)
EXTENDS Cli, Sequences, Json, IOUtils, TLCExt
Traces == JsonDeserialize(IOEnv.TRACE_FILE)
Explain == IOEnv.EXPLAIN = "1"
VARIABLES tid, l
tvars == <<vars, tid, l>>
Ev == Traces[tid][1]
TInit == tid \in 1..Len(Traces) /\ l = 1 /\ cmd = Ev.cmd /\ cond = Ev.cond /\ opt = Ev.opt /\ exit = -1
TRun == /\ l = 1 /\ l' = 2 /\ UNCHANGED tid
        /\ Meaningful(cmd, cond, opt)
        /\ Run
        /\ (Ev.exit = 0) = (exit' = 0)                      \* exit status 0 exactly when the operation succeeded
        /\ (exit' = 0 => Ev.effect_ok)                      \* and then it did what the library does
        /\ ("untouched" \in DOMAIN Ev /\ exit' # 0 => Ev.untouched)    \* 'a' that fails leaves the archive it was given as it was
TSpec == TInit /\ [][TRun]_tvars
Done == /\ (l = 2) => PrintT(<<"ACC", tid>>)
        /\ Explain => PrintT(<<"AT", tid, l>>)
=============================================================================
