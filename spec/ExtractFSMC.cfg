SPECIFICATION Spec
CONSTANT Archives <- QuickArchives
CONSTANT Dests = {"abs", "none"}
CONSTANT Guarded = TRUE
CONSTANT Fuel = 6
INVARIANT NoEscape
INVARIANT OutsideUntouched
CHECK_DEADLOCK FALSE
