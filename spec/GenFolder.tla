----------------------------- MODULE GenFolder ------------------------------
(* Spec -> code binding: every well-formed coder graph of up to MaxCoders    *)
(* simple coders (every record order x every order of writing the pairs),    *)
(* with the decoding order and main output the format assigns, as JSON.      *)
EXTENDS Folder, Json

Emit == (phase = "done" /\ WellFormed) =>
          PrintT(<<"BEH", ToJson([n |-> n, pairs |-> pairs, order |-> SemOrder, main |-> SemMainOut])>>)

(* every graph, ill-formed ones included (repeated ends, cycles): what the reader's walk makes of it *)
EmitAll == phase = "done" =>
          PrintT(<<"ALL", ToJson([n |-> n, pairs |-> pairs, order |-> order, main |-> mainout, wf |-> WellFormed])>>)
=============================================================================
