SPECIFICATION Spec
CONSTANT MaxBits = 130
INVARIANT ReadBack
INVARIANT Conforming
INVARIANT AtMostNine
INVARIANT ReaderIsSpec
INVARIANT VecLength
CHECK_DEADLOCK FALSE
