------------------------------ MODULE HeaderRes ------------------------------
(***************************************************************************)
(* Resource model of the header parser (C05): every loop whose bound is a  *)
(* number read from the (attacker-controlled) header.                      *)
(*   remaining  bytes of header data not yet consumed                      *)
(*   alloc      objects allocated so far                                   *)
(* A loop "for _ in range(n): read an item" consumes at least one byte per *)
(* iteration or fails at the end of the data (struct.error / IndexError -> *)
(* an ordinary exception), so it allocates at most `remaining` objects     *)
(* whatever n claims.  A loop that allocates BEFORE it reads                *)
(* ("[{} for _ in range(numfiles)]", "[True] * count") allocates n         *)
(* objects from a few bytes: that is only bounded when n is validated      *)
(* against the bytes available (Validated = TRUE, the repaired tree).      *)
(***************************************************************************)
EXTENDS Naturals, TLC
CONSTANTS Size, Big, Validated
Counts == {0, 1, 2, Big}
Loops == {"packsizes", "folders", "coders", "unpacksizes", "numunpack", "digests", "files_prealloc", "names", "boolvector_alldefined"}
VARIABLES remaining, alloc, loop, n, pc, failed
vars == <<remaining, alloc, loop, n, pc, failed>>
Init == remaining = Size /\ alloc = 0 /\ loop \in Loops /\ n \in Counts /\ pc = "start" /\ failed = FALSE
PreAllocates == loop \in {"files_prealloc", "boolvector_alldefined"}
Start == /\ pc = "start"
         /\ IF PreAllocates
            THEN IF Validated /\ n > 8 * remaining + 8
                 THEN failed' = TRUE /\ pc' = "done" /\ UNCHANGED alloc          \* Bad7zFile: more items than the data can describe
                 ELSE alloc' = alloc + n /\ pc' = "done" /\ UNCHANGED failed      \* one object per DECLARED item, before any byte is read
            ELSE pc' = "loop" /\ UNCHANGED <<alloc, failed>>
         /\ UNCHANGED <<remaining, loop, n>>
Iter == /\ pc = "loop" /\ n > 0
        /\ IF remaining = 0 THEN failed' = TRUE /\ pc' = "done" /\ UNCHANGED <<remaining, alloc, n>>   \* read past the end: exception
           ELSE remaining' = remaining - 1 /\ alloc' = alloc + 1 /\ n' = n - 1 /\ UNCHANGED <<pc, failed>>
        /\ UNCHANGED loop
Finish == pc = "loop" /\ n = 0 /\ pc' = "done" /\ UNCHANGED <<remaining, alloc, loop, n, failed>>
Next == Start \/ Iter \/ Finish
Spec == Init /\ [][Next]_vars /\ WF_vars(Next)
(* memory proportional to the input *)
Proportional == alloc <= 8 * Size + 8
Terminates == <>(pc = "done")
=============================================================================
