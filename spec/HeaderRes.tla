------------------------------ MODULE HeaderRes ------------------------------
(***************************************************************************)
(* Resource model of the header parser (C05): every loop whose bound is a  *)
(* number read from the (attacker-controlled) header.                      *)
(*   remaining  bytes of header data not yet consumed                      *)
(*   alloc      objects allocated so far                                   *)
(* A loop "for _ in range(n): read an item" consumes at least one byte per *)
(* iteration or fails at the end of the data (struct.error / IndexError -> *)
(* an ordinary exception), so it allocates at most `remaining` objects     *)
(* whatever n claims.  A loop that allocates BEFORE it reads                *)
(* ("[{} for _ in range(numfiles)]", "[True] * count") allocates n         *)
(* objects from a few bytes: that is only bounded when n is validated      *)
(* against the bytes available (Validated = TRUE, the repaired tree).      *)
(***************************************************************************)
(* A count VECTOR (NumUnpackStream: one count per folder) drives an         *)
(* allocation of the SUM of its entries; validating each entry alone       *)
(* (SumValidated = FALSE, a "fail early" variant) lets k entries of the    *)
(* maximal admissible size through: k * bound objects from k bytes.        *)
(* An encoded header may itself be an encoded header: unpacking "while the *)
(* result is packed" needs progress; the code unpacks ONCE and then        *)
(* demands a plain header (Rounds = 1); a self-referential packed header   *)
(* makes an unbounded loop spin (Rounds = 0: negative control).            *)
EXTENDS Naturals, TLC
CONSTANTS Size, Big, Validated, SumValidated, Rounds
Counts == {0, 1, 2, 8 * Size, Big}        \* 8 * Size: passes a per-item validation, not as a sum
Loops == {"packsizes", "folders", "coders", "unpacksizes", "numunpack", "digests", "files_prealloc", "names", "boolvector_alldefined",
          "substreams_total", "packed_header_chain"}
VARIABLES remaining, alloc, loop, n, pc, failed
vars == <<remaining, alloc, loop, n, pc, failed>>
Init == remaining = Size /\ alloc = 0 /\ loop \in Loops /\ n \in Counts /\ pc = "start" /\ failed = FALSE
PreAllocates == loop \in {"files_prealloc", "boolvector_alldefined"}
Bound == 8 * remaining + 8
(* k counts (k <= remaining: each takes a byte), every one equal to n; allocation of k * n digests / sizes *)
StartSum == /\ pc = "start" /\ loop = "substreams_total"
            /\ \E k \in 1..remaining :
                 IF (SumValidated /\ k * n > Bound) \/ (~SumValidated /\ Validated /\ n > Bound)
                 THEN failed' = TRUE /\ pc' = "done" /\ UNCHANGED alloc
                 ELSE alloc' = alloc + k * n /\ pc' = "done" /\ UNCHANGED failed
            /\ UNCHANGED <<remaining, loop, n>>
(* a packed header that unpacks to a packed header (to itself, in the worst case): n = rounds done so far *)
StartChain == /\ pc = "start" /\ loop = "packed_header_chain" /\ pc' = "chain" /\ n' = 0 /\ UNCHANGED <<remaining, alloc, loop, failed>>
Unpack == /\ pc = "chain"
          /\ IF Rounds > 0 /\ n >= Rounds THEN failed' = TRUE /\ pc' = "done" /\ UNCHANGED n      \* a plain header is demanded now: TypeError / Bad7zFile
             ELSE n' = (IF n < 3 THEN n + 1 ELSE n) /\ UNCHANGED <<pc, failed>>                   \* another round (the counter saturates: state space stays finite)
          /\ UNCHANGED <<remaining, alloc, loop>>
Start == /\ pc = "start" /\ loop \notin {"substreams_total", "packed_header_chain"}
         /\ IF PreAllocates
            THEN IF Validated /\ n > 8 * remaining + 8
                 THEN failed' = TRUE /\ pc' = "done" /\ UNCHANGED alloc          \* Bad7zFile: more items than the data can describe
                 ELSE alloc' = alloc + n /\ pc' = "done" /\ UNCHANGED failed      \* one object per DECLARED item, before any byte is read
            ELSE pc' = "loop" /\ UNCHANGED <<alloc, failed>>
         /\ UNCHANGED <<remaining, loop, n>>
Iter == /\ pc = "loop" /\ n > 0
        /\ IF remaining = 0 THEN failed' = TRUE /\ pc' = "done" /\ UNCHANGED <<remaining, alloc, n>>   \* read past the end: exception
           ELSE remaining' = remaining - 1 /\ alloc' = alloc + 1 /\ n' = n - 1 /\ UNCHANGED <<pc, failed>>
        /\ UNCHANGED loop
Finish == pc = "loop" /\ n = 0 /\ pc' = "done" /\ UNCHANGED <<remaining, alloc, loop, n, failed>>
Next == Start \/ StartSum \/ StartChain \/ Unpack \/ Iter \/ Finish
Spec == Init /\ [][Next]_vars /\ WF_vars(Next)
(* memory proportional to the input *)
Proportional == alloc <= 8 * Size + 8
Terminates == <>(pc = "done")
=============================================================================
