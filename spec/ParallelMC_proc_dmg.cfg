SPECIFICATION Spec
CONSTANT NF = 2
CONSTANT Sizes <- S22
CONSTANT Damaged = {2}
CONSTANT Mode = "process"
CONSTANT ChildSeesQueues = TRUE
CONSTANT JoinWaits = TRUE
CONSTANT WithCallback = FALSE
INVARIANT Deterministic
INVARIANT ErrorReachesCaller
INVARIANT Ordered
INVARIANT Complete
INVARIANT NoneAfterClose
INVARIANT CloseNeverFails
PROPERTY Terminates
CHECK_DEADLOCK FALSE
