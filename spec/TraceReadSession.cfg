SPECIFICATION TSpec
CONSTANT Archives = {}
CONSTANT MaxCalls = 99
CONSTANT TestZipResets = TRUE
CONSTRAINT Done
CHECK_DEADLOCK FALSE
