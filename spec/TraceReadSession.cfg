SPECIFICATION TSpec
CONSTANT Archives = {}
CONSTANT MaxCalls = 99
CONSTANT WriteGuarded = TRUE
CONSTANT TestZipResets = TRUE
CONSTRAINT Done
CHECK_DEADLOCK FALSE
