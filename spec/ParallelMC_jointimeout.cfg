SPECIFICATION Spec
CONSTANT NF = 2
CONSTANT Sizes <- S22
CONSTANT Damaged = {}
CONSTANT Mode = "thread"
CONSTANT ChildSeesQueues = TRUE
CONSTANT JoinWaits = FALSE
CONSTANT WithCallback = TRUE
INVARIANT Deterministic
INVARIANT ErrorReachesCaller
INVARIANT Ordered
INVARIANT Complete
INVARIANT NoneAfterClose
INVARIANT CloseNeverFails
PROPERTY Terminates
CHECK_DEADLOCK FALSE
