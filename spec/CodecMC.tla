----------------------------- MODULE CodecMC -----------------------------
(* Design check for C17: store/load state machine over the control-relevant *)
(* classes of NUMBER values and over boolean vectors of length 0..MaxBits.   *)
EXTENDS Codec

CONSTANT MaxBits

(* low-byte patterns *)
Pat(p, i) == CASE p = 0 -> 0
               [] p = 1 -> 255
               [] p = 2 -> i                         \* positional
               [] p = 3 -> (i * 37 + 11) % 256       \* pseudo random A
               [] p = 4 -> (i * 101 + 200) % 256     \* pseudo random B

(* top bytes: every class boundary of the first-byte mask *)
TopBytes == {1, 2, 3, 4, 7, 8, 15, 16, 31, 32, 63, 64, 127, 128, 129, 254, 255}

NumVec(L, t, p) == [i \in 1..8 |-> IF i < L THEN Pat(p, i) ELSE IF i = L THEN t ELSE 0]

Numbers == {Zero8} \cup { NumVec(L, t, p) : L \in 1..8, t \in TopBytes, p \in 0..4 }

(* boolean vectors: all-ones, all-zeros, alternating, single bit at each end, sparse *)
BoolVec(n, k) == [i \in 1..n |-> CASE k = 0 -> 1
                                   [] k = 1 -> 0
                                   [] k = 2 -> i % 2
                                   [] k = 3 -> IF i = 1 THEN 1 ELSE 0
                                   [] k = 4 -> IF i = n THEN 1 ELSE 0
                                   [] k = 5 -> IF i = n THEN 0 ELSE 1
                                   [] k = 6 -> IF i % 7 = 3 THEN 1 ELSE 0]

VARIABLES kind,    \* "num" | "bool"
          phase,   \* "picked" | "encoded" | "decoded"
          val,     \* the value stored
          alldef,  \* bool vectors: written with the all-defined byte?
          writer,  \* "py7zr" | "other"
          enc, dec

vars == <<kind, phase, val, alldef, writer, enc, dec>>

Init == /\ phase = "picked" /\ enc = <<>> /\ dec = <<>> /\ writer = "none"
        /\ \/ kind = "num"  /\ val \in Numbers /\ alldef = FALSE
           \/ kind = "bool" /\ alldef \in BOOLEAN /\ \E n \in 0..MaxBits, k \in 0..6 : val = BoolVec(n, k)

EncodePy == /\ phase = "picked" /\ phase' = "encoded" /\ writer' = "py7zr"
            /\ enc' = IF kind = "num" THEN WriteAlgo(val) ELSE WriteBoolAlgo(val, alldef)
            /\ UNCHANGED <<kind, val, alldef, dec>>

EncodeOther == /\ phase = "picked" /\ phase' = "encoded" /\ writer' = "other"
               /\ enc' \in (IF kind = "num" THEN SpecEncodings(val) ELSE SpecBoolEncodings(val, alldef))
               /\ UNCHANGED <<kind, val, alldef, dec>>

Decode == /\ phase = "encoded" /\ phase' = "decoded"
          /\ dec' = IF kind = "num" THEN ReadAlgo(enc) ELSE ReadBoolAlgo(enc, Len(val), alldef)
          /\ UNCHANGED <<kind, val, alldef, writer, enc>>

Next == EncodePy \/ EncodeOther \/ Decode
Spec == Init /\ [][Next]_vars

---------------------------------------------------------------------------
(* C17 *)
ReadBack      == phase = "decoded" => dec = val
Conforming    == (phase = "encoded" /\ writer = "py7zr") =>
                   IF kind = "num" THEN enc \in SpecEncodings(val) /\ SpecDecode(enc) = val
                   ELSE enc \in SpecBoolEncodings(val, alldef)
AtMostNine    == (phase # "picked" /\ kind = "num") => Len(enc) <= 9 /\ SpecWellFormed(enc)
ReaderIsSpec  == (phase = "decoded" /\ kind = "num") => dec = SpecDecode(enc)
VecLength     == (phase = "encoded" /\ kind = "bool" /\ enc # <<1>>) =>
                   Len(enc) = VecLen(Len(val)) + (IF alldef THEN 1 ELSE 0)

===========================================================================
