SPECIFICATION Spec
CONSTANT MaxCoders = 4
CONSTANT FollowsPairs = TRUE
CONSTRAINT EmitAll
CHECK_DEADLOCK FALSE
