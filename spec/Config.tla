------------------------------- MODULE Config -------------------------------
(***************************************************************************)
(* The configuration space of a write session (C01, C11): filter chain x   *)
(* password x header mode x target kind x I/O block size x chunk limit.    *)
(* ValidChain transcribes the accept/reject logic of                       *)
(* SevenZipCompressor.__init__ (native lzma chain vs alternative coders,   *)
(* BCJ demotion when no LZMA2 is present, AES only as last coder).         *)
(* DocListed is the set of chains docs/api.rst presents as possible.       *)
(* TLC enumerates every candidate and emits it with both verdicts.         *)
(***************************************************************************)
EXTENDS Naturals, Sequences, FiniteSets, TLC, Json, IOUtils, SequencesExt

Compressors == {"LZMA2", "LZMA", "BZip2", "Deflate", "Deflate64", "Copy", "ZStd", "PPMd", "Brotli"}
PreFilters  == {"Delta", "X86", "ARM", "ARMT", "PPC", "SPARC", "IA64"}
Native      == {"LZMA2", "LZMA", "Delta", "X86", "ARM", "ARMT", "PPC", "SPARC", "IA64"}
Demotable   == {"X86", "ARM", "ARMT", "SPARC", "PPC"}            \* become alternative coders when no LZMA2 in the chain
HasAltClass == {"ZStd", "Brotli", "PPMd", "BZip2", "Copy", "Deflate", "Deflate64", "AES", "X86", "ARM", "ARMT", "PPC", "SPARC"}

All(s, P(_)) == \A i \in 1..Len(s) : P(s[i])

ValidChain(ch) ==
  /\ Len(ch) >= 1 /\ Len(ch) <= 4
  /\ LET nat(f) == f \in Native
         hasL2 == \E i \in 1..Len(ch) : ch[i] = "LZMA2"
         nat2(f) == nat(f) /\ (hasL2 \/ f \notin Demotable)
     IN  \/ (All(ch, nat) /\ Last(ch) \in Compressors)                                  \* all native: one raw lzma chain
         \/ (~(All(ch, nat) /\ Last(ch) \in Compressors)
             /\ \/ (All(ch, LAMBDA f : ~nat2(f)) /\ All(ch, LAMBDA f : f \in HasAltClass))   \* all alternative
                \/ (~All(ch, LAMBDA f : ~nat2(f)) /\ Last(ch) = "AES" /\ Len(ch) >= 2
                    /\ All(Front(ch), nat2) /\ Last(Front(ch)) \in {"LZMA", "LZMA2"}))      \* native chain + 7zAES

(* candidates: [pre] main [AES], and AES alone *)
Chains == { <<m>> : m \in Compressors } \cup { <<p, m>> : p \in PreFilters, m \in Compressors }
          \cup { <<m, "AES">> : m \in Compressors } \cup { <<p, m, "AES">> : p \in PreFilters, m \in Compressors }
          \cup { <<"AES">> }
          \* two pre-filters in front of a native compressor (one raw lzma chain of three filters), optionally encrypted
          \* (with LZMA1 as the compressor py7zr writes such chains but cannot read them back - its reader splits BCJ off LZMA1 and is left
          \*  with a lone pre-filter; the documentation lists no such chain, so they are outside C01's quantifier: see DESIGN.md 11.6)
          \cup { <<x[1], x[2], "LZMA2">> : x \in { y \in {"Delta", "X86", "ARM"} \X {"Delta", "X86", "ARM"} : y[1] # y[2] } }
          \cup { <<x[1], x[2], "LZMA2", "AES">> : x \in { y \in {"Delta", "X86"} \X {"Delta", "X86"} : y[1] # y[2] } }

DocListed == { <<"Delta", "LZMA2">>, <<"X86", "LZMA2">>, <<"ARM", "LZMA2">>, <<"X86", "LZMA">>, <<"LZMA2">>, <<"LZMA">>, <<"BZip2">>,
               <<"Deflate">>, <<"ZStd">>, <<"PPMd">>, <<"Brotli">>, <<"Delta", "LZMA2", "AES">>, <<"X86", "LZMA2", "AES">>,
               <<"LZMA", "AES">>, <<"Deflate", "AES">>, <<"BZip2", "AES">>, <<"ZStd", "AES">> }

NeedsPassword(ch) == \E i \in 1..Len(ch) : ch[i] = "AES"

HeaderModes == {"raw", "encoded", "encrypted"}
Targets == {"path", "bytesio", "buffered", "multivolume"}

(* a configuration is meaningful when: AES in chain or encrypted header => password given *)
Configs == { [chain |-> c, password |-> pw, header |-> h, target |-> t] :
               c \in { x \in Chains : ValidChain(x) }, pw \in BOOLEAN, h \in HeaderModes, t \in Targets }
Meaningful(cf) == (NeedsPassword(cf.chain) => cf.password) /\ (cf.header = "encrypted" => cf.password)

(* every chain the documentation presents is accepted by the constructor logic *)
ASSUME \A c \in DocListed : ValidChain(c)
ASSUME DocListed \subseteq Chains

VARIABLE cfg
Init == cfg \in { c \in Configs : Meaningful(c) }
Next == UNCHANGED cfg
Spec == Init /\ [][Next]_cfg

ASSUME IOEnv.OUT_FILE # "" =>
  JsonSerialize(IOEnv.OUT_FILE, [chains |-> SetToSeq({ [chain |-> c, valid |-> ValidChain(c), doc |-> c \in DocListed] : c \in Chains }),
                                 configs |-> SetToSeq({ c \in Configs : Meaningful(c) })])
=============================================================================
