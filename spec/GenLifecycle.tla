---------------------------- MODULE GenLifecycle ----------------------------
(* Spec -> code binding: every sequence of call classes up to MaxCalls, for   *)
(* every mode and every way the object got its file, printed as JSON.         *)
EXTENDS Lifecycle, Json

VARIABLE hist
gvars == <<vars, hist>>

GInit == Init /\ hist = <<>>
GNext == \/ List /\ hist' = Append(hist, "list")
         \/ Decode /\ hist' = Append(hist, "decode")
         \/ Test /\ hist' = Append(hist, "test")
         \/ Write /\ hist' = Append(hist, "write")
         \/ Setter /\ hist' = Append(hist, "setter")
         \/ Close /\ hist' = Append(hist, "close")
GSpec == GInit /\ [][GNext]_gvars

Emit == ncalls >= 1 => PrintT(<<"BEH", ToJson([mode |-> mode, via |-> via, calls |-> hist, members |-> disk.members, closed |-> phase = "closed"])>>)
=============================================================================
