--------------------------- MODULE HeaderGrammar ---------------------------
(***************************************************************************)
(* C07: the header py7zr writes is a sentence of the 7z header grammar     *)
(* and its counts agree between sections.                                  *)
(*                                                                         *)
(* Input: the token stream of a written archive as an INDEPENDENT reader   *)
(* (harness/refcodec) tokenised it, one record per grammar element, plus   *)
(* a final record with what that reader recovered (members, CRC checks).   *)
(* The acceptor is a state machine: `mode` is the position in the grammar  *)
(*   top -> [EncodedHeader: streams] -> Header -> MainStreamsInfo ->       *)
(*   PackInfo -> UnpackInfo -> SubStreamsInfo -> FilesInfo -> done         *)
(* and the counters carry what earlier sections declared.                  *)
(***************************************************************************)
EXTENDS Naturals, Sequences, FiniteSets, TLC, Json, IOUtils, TLCExt

Traces == JsonDeserialize(IOEnv.TRACE_FILE)
Explain == IOEnv.EXPLAIN = "1"

VARIABLES tid, l, mode, enc,
          nstreams, nfolders, ncoders,   \* PackInfo.numstreams, UnpackInfo.numfolders, Seq of out-stream counts per folder
          nsub,                           \* NumUnpackStream per folder (default 1 each)
          nfiles, nempty, seenProps, recs
vars == <<tid, l, mode, enc, nstreams, nfolders, ncoders, nsub, nfiles, nempty, seenProps, recs>>
T == Traces[tid][l]
VecLen(n) == (n + 7) \div 8
RECURSIVE Sum(_)
Sum(s) == IF s = <<>> THEN 0 ELSE Head(s) + Sum(Tail(s))
RECURSIVE SumMinus1(_)
SumMinus1(s) == IF s = <<>> THEN 0 ELSE (IF Head(s) > 0 THEN Head(s) - 1 ELSE 0) + SumMinus1(Tail(s))

Init == /\ tid \in 1..Len(Traces) /\ l = 1 /\ mode = "top" /\ enc = "no"
        /\ nstreams = 0 /\ nfolders = 0 /\ ncoders = <<>> /\ nsub = <<>> /\ nfiles = 0 /\ nempty = 0 /\ seenProps = {} /\ recs = 0

Tok(t) == l <= Len(Traces[tid]) /\ T.t = t /\ l' = l + 1 /\ tid' = tid
Keep(vs) == UNCHANGED vs

(* ---- top level ---- *)
EncHeader == Tok("EncodedHeader") /\ mode = "top" /\ mode' = "streams" /\ enc' = "streams"
             /\ Keep(<<nstreams, nfolders, ncoders, nsub, nfiles, nempty, seenProps, recs>>)
HeaderTok == Tok("Header") /\ mode \in {"top", "encdone"} /\ mode' = "header"
             /\ nstreams' = 0 /\ nfolders' = 0 /\ ncoders' = <<>> /\ nsub' = <<>>
             /\ Keep(<<enc, nfiles, nempty, seenProps, recs>>)
MainStreams == Tok("MainStreamsInfo") /\ mode = "header" /\ mode' = "streams"
               /\ Keep(<<enc, nstreams, nfolders, ncoders, nsub, nfiles, nempty, seenProps, recs>>)

(* ---- PackInfo ---- *)
PackInfo == Tok("PackInfo") /\ mode = "streams" /\ mode' = "pack0"
            /\ Keep(<<enc, nstreams, nfolders, ncoders, nsub, nfiles, nempty, seenProps, recs>>)
PackHead == Tok("PackHead") /\ mode = "pack0" /\ mode' = "pack1" /\ nstreams' = T.numstreams
            /\ Keep(<<enc, nfolders, ncoders, nsub, nfiles, nempty, seenProps, recs>>)
PackSizeTok == Tok("Size") /\ mode = "pack1" /\ mode' = "pack2"
               /\ Keep(<<enc, nstreams, nfolders, ncoders, nsub, nfiles, nempty, seenProps, recs>>)
PackSizes == Tok("Nums") /\ mode = "pack2" /\ mode' = "pack3" /\ T.n = nstreams              \* one size per packed stream
             /\ Keep(<<enc, nstreams, nfolders, ncoders, nsub, nfiles, nempty, seenProps, recs>>)
PackCrcTok == Tok("CRC") /\ mode = "pack3" /\ mode' = "pack4"
              /\ Keep(<<enc, nstreams, nfolders, ncoders, nsub, nfiles, nempty, seenProps, recs>>)
PackCrc == Tok("Digests") /\ mode = "pack4" /\ mode' = "pack5" /\ T.n = nstreams /\ T.ncrcs = T.ndefined
           /\ Keep(<<enc, nstreams, nfolders, ncoders, nsub, nfiles, nempty, seenProps, recs>>)
PackEnd == Tok("End") /\ mode \in {"pack1", "pack3", "pack5"} /\ (nstreams > 0 => mode # "pack1") /\ mode' = "afterpack"
           /\ Keep(<<enc, nstreams, nfolders, ncoders, nsub, nfiles, nempty, seenProps, recs>>)

(* ---- UnpackInfo ---- *)
UnpackInfo == Tok("UnpackInfo") /\ mode \in {"streams", "afterpack"} /\ mode' = "unp0"
              /\ Keep(<<enc, nstreams, nfolders, ncoders, nsub, nfiles, nempty, seenProps, recs>>)
FolderTok == Tok("Folder") /\ mode = "unp0" /\ mode' = "unp1"
             /\ Keep(<<enc, nstreams, nfolders, ncoders, nsub, nfiles, nempty, seenProps, recs>>)
FolderHead == Tok("FolderHead") /\ mode = "unp1" /\ mode' = "unp2" /\ nfolders' = T.n /\ recs' = 0 /\ ncoders' = <<>>
              /\ Keep(<<enc, nstreams, nsub, nfiles, nempty, seenProps>>)
External == Tok("External") /\ mode = "unp2" /\ T.external = 0 /\ mode' = "unp3"
            /\ Keep(<<enc, nstreams, nfolders, ncoders, nsub, nfiles, nempty, seenProps, recs>>)
FolderRec == Tok("FolderRec") /\ mode = "unp3" /\ recs < nfolders
             /\ T.ncoders >= 1 /\ T.ncoders <= 4 /\ T.nbind = T.nout - 1                     \* a chain: all but one out-stream are bound
             /\ recs' = recs + 1 /\ ncoders' = Append(ncoders, T.nout)
             /\ Keep(<<enc, mode, nstreams, nfolders, nsub, nfiles, nempty, seenProps>>)
UnpSizeTok == Tok("CodersUnpackSize") /\ mode = "unp3" /\ recs = nfolders /\ mode' = "unp4"
              /\ Keep(<<enc, nstreams, nfolders, ncoders, nsub, nfiles, nempty, seenProps, recs>>)
UnpSizes == Tok("FolderSizes") /\ mode = "unp4" /\ T.counts = ncoders /\ mode' = "unp5"     \* one unpack size per out-stream of every coder
            /\ Keep(<<enc, nstreams, nfolders, ncoders, nsub, nfiles, nempty, seenProps, recs>>)
UnpCrcTok == Tok("CRC") /\ mode = "unp5" /\ mode' = "unp6"
             /\ Keep(<<enc, nstreams, nfolders, ncoders, nsub, nfiles, nempty, seenProps, recs>>)
UnpCrc == Tok("Digests") /\ mode = "unp6" /\ T.n = nfolders /\ T.ncrcs = T.ndefined /\ mode' = "unp7"
          /\ Keep(<<enc, nstreams, nfolders, ncoders, nsub, nfiles, nempty, seenProps, recs>>)
UnpEnd == Tok("End") /\ mode \in {"unp5", "unp7"} /\ mode' = "afterunp"
          /\ nsub' = [f \in 1..nfolders |-> 1]                                               \* default: one stream per folder
          /\ Keep(<<enc, nstreams, nfolders, ncoders, nfiles, nempty, seenProps, recs>>)

(* ---- SubStreamsInfo ---- *)
SubInfo == Tok("SubStreamsInfo") /\ mode = "afterunp" /\ enc # "streams" /\ mode' = "sub0"      \* the streams of an encoded header have no substreams
           /\ Keep(<<enc, nstreams, nfolders, ncoders, nsub, nfiles, nempty, seenProps, recs>>)
NumTok == Tok("NumUnpackStream") /\ mode = "sub0" /\ mode' = "sub1"
          /\ Keep(<<enc, nstreams, nfolders, ncoders, nsub, nfiles, nempty, seenProps, recs>>)
NumVals == Tok("Nums") /\ mode = "sub1" /\ T.n = nfolders /\ nsub' = T.vals /\ mode' = "sub2"
           /\ Keep(<<enc, nstreams, nfolders, ncoders, nfiles, nempty, seenProps, recs>>)
SubSizeTok == Tok("Size") /\ mode \in {"sub0", "sub2"} /\ mode' = "sub3"
              /\ Keep(<<enc, nstreams, nfolders, ncoders, nsub, nfiles, nempty, seenProps, recs>>)
SubSizes == Tok("Nums") /\ mode = "sub3" /\ T.n = SumMinus1(nsub) /\ mode' = "sub4"        \* n-1 sizes per folder of n streams
            /\ Keep(<<enc, nstreams, nfolders, ncoders, nsub, nfiles, nempty, seenProps, recs>>)
SubCrcTok == Tok("CRC") /\ mode \in {"sub0", "sub2", "sub4"} /\ mode' = "sub5"
             /\ (mode # "sub4" => SumMinus1(nsub) = 0)                                        \* sizes may only be omitted when no folder has several streams
             /\ Keep(<<enc, nstreams, nfolders, ncoders, nsub, nfiles, nempty, seenProps, recs>>)
SubCrc == Tok("Digests") /\ mode = "sub5" /\ T.n <= Sum(nsub) /\ T.ncrcs = T.ndefined /\ mode' = "sub6"
          /\ Keep(<<enc, nstreams, nfolders, ncoders, nsub, nfiles, nempty, seenProps, recs>>)
SubEnd == Tok("End") /\ mode \in {"sub0", "sub2", "sub4", "sub6"} /\ (mode \in {"sub0", "sub2"} => SumMinus1(nsub) = 0) /\ mode' = "aftersub"
          /\ Keep(<<enc, nstreams, nfolders, ncoders, nsub, nfiles, nempty, seenProps, recs>>)

StreamsEnd == Tok("End") /\ mode \in {"streams", "afterpack", "afterunp", "aftersub"}
              /\ (nstreams > 0 => mode # "afterpack")                                         \* packed streams need folders
              /\ mode' = (IF enc = "streams" THEN "encdone" ELSE "afterstreams")
              /\ enc' = (IF enc = "streams" THEN "done" ELSE enc)
              /\ Keep(<<nstreams, nfolders, ncoders, nsub, nfiles, nempty, seenProps, recs>>)

(* ---- FilesInfo ---- *)
FilesInfo == Tok("FilesInfo") /\ mode \in {"header", "afterstreams"} /\ mode' = "files0"
             /\ Keep(<<enc, nstreams, nfolders, ncoders, nsub, nfiles, nempty, seenProps, recs>>)
FilesHead == Tok("FilesHead") /\ mode = "files0" /\ nfiles' = T.numfiles /\ mode' = "files1" /\ nempty' = 0 /\ seenProps' = {}
             /\ Keep(<<enc, nstreams, nfolders, ncoders, nsub, recs>>)
Prop == /\ Tok("Prop") /\ mode = "files1" /\ (T.prop = "Dummy" \/ T.prop \notin seenProps)
        /\ CASE T.prop = "EmptyStream" -> /\ T.nbits = nfiles /\ T.size = VecLen(nfiles)
                                          /\ nfiles - T.nset = Sum(nsub)                        \* members with a stream = substreams
                                          /\ nempty' = T.nset
          [] T.prop = "EmptyFile" -> /\ "EmptyStream" \in seenProps /\ T.nbits = nempty /\ T.size = VecLen(nempty) /\ UNCHANGED nempty
          [] T.prop = "Anti" -> /\ "EmptyStream" \in seenProps /\ T.nbits = nempty /\ UNCHANGED nempty
          [] T.prop = "Names" -> /\ T.external = 0 /\ T.size = 1 + T.bytes /\ UNCHANGED nempty
          [] T.prop \in {"MTime", "CTime", "ATime"} ->
                 /\ T.n = nfiles
                 /\ T.size = (IF T.ndefined = nfiles /\ T.alldef THEN 1 ELSE 1 + VecLen(nfiles)) + 1 + 8 * T.ndefined
                 /\ UNCHANGED nempty
          [] T.prop = "Attributes" ->
                 /\ T.n = nfiles
                 /\ T.size = (IF T.ndefined = nfiles /\ T.alldef THEN 1 ELSE 1 + VecLen(nfiles)) + 1 + 4 * T.ndefined
                 /\ UNCHANGED nempty
          [] T.prop = "Dummy" -> UNCHANGED nempty
          [] OTHER -> FALSE
        /\ seenProps' = seenProps \cup {T.prop}
        /\ Keep(<<enc, mode, nstreams, nfolders, ncoders, nsub, nfiles, recs>>)
FilesEnd == Tok("End") /\ mode = "files1" /\ mode' = "afterfiles"
            /\ ("EmptyStream" \notin seenProps => nfiles = Sum(nsub))                           \* without the vector every member has a stream
            /\ Keep(<<enc, nstreams, nfolders, ncoders, nsub, nfiles, nempty, seenProps, recs>>)
HeaderEnd == Tok("End") /\ mode \in {"header", "afterstreams", "afterfiles"} /\ mode' = "done"
             /\ (mode # "afterfiles" => Sum(nsub) = 0)                                          \* streams without files describe nothing
             /\ Keep(<<enc, nstreams, nfolders, ncoders, nsub, nfiles, nempty, seenProps, recs>>)

(* ---- what the independent reader recovered from the bytes ---- *)
Recovered == /\ Tok("Recovered") /\ mode = "done" /\ mode' = "checked"
             /\ T.strict_ok                            \* offsets/sizes/CRCs of the signature header describe the bytes on disk, packed sizes tile the data area
             /\ T.members_equal                        \* exactly the members that were written, names, order, bytes, CRCs
             /\ T.nfiles = nfiles
             /\ Keep(<<enc, nstreams, nfolders, ncoders, nsub, nfiles, nempty, seenProps, recs>>)
Empty == Tok("EmptyArchive") /\ mode = "top" /\ mode' = "done"
         /\ Keep(<<enc, nstreams, nfolders, ncoders, nsub, nfiles, nempty, seenProps, recs>>)

Next == \/ EncHeader \/ HeaderTok \/ MainStreams \/ PackInfo \/ PackHead \/ PackSizeTok \/ PackSizes \/ PackCrcTok \/ PackCrc \/ PackEnd
        \/ UnpackInfo \/ FolderTok \/ FolderHead \/ External \/ FolderRec \/ UnpSizeTok \/ UnpSizes \/ UnpCrcTok \/ UnpCrc \/ UnpEnd
        \/ SubInfo \/ NumTok \/ NumVals \/ SubSizeTok \/ SubSizes \/ SubCrcTok \/ SubCrc \/ SubEnd \/ StreamsEnd
        \/ FilesInfo \/ FilesHead \/ Prop \/ FilesEnd \/ HeaderEnd \/ Recovered \/ Empty
Spec == Init /\ [][Next]_vars
Done == /\ (l = Len(Traces[tid]) + 1 /\ mode = "checked") => PrintT(<<"ACC", tid>>)
        /\ Explain => PrintT(<<"AT", tid, l>>)
=============================================================================
