----------------------------- MODULE Lifecycle -----------------------------
(***************************************************************************)
(* The SevenZipFile OBJECT as a state machine: the mode it was opened in,  *)
(* how it got its file (by path, or a caller's stream standing at offset 0 *)
(* or elsewhere), whether it is still open, and what every class of public *)
(* call does in every such state - in particular the calls that do not     *)
(* belong to the mode (write calls on a reader, decoding calls on a        *)
(* writer) and the calls made after close().  ReadSession / WriteSession   *)
(* describe the calls that belong; this module describes the discipline    *)
(* around them.  Serves C12 ("no read-mode session, whatever calls it      *)
(* makes and however it ends, changes a byte") and C08 ("appending never   *)
(* drops a member that was already there").                                *)
(*                                                                         *)
(* Call classes (one action each):                                         *)
(*   List    getnames, namelist, list, getinfo, needs_password             *)
(*   Decode  extract, extractall, testzip                                  *)
(*   Test    test()  (packed-stream CRCs; the suite calls it on a writer)  *)
(*   Write   write, writeall, writef, writestr                             *)
(*   Setter  set_encoded_header_mode, set_encrypted_header                 *)
(*   Close   close(), __exit__                                             *)
(* The archive on disk is abstracted to the number of members a fresh      *)
(* reader finds in it plus a version counter that every change bumps.      *)
(***************************************************************************)
EXTENDS Naturals, Sequences, TLC

CONSTANTS MaxCalls,
          Base,            \* members in the archive before the session (modes r and a)
          WriteGuarded,    \* TRUE: write calls on a reader are refused before anything happens (repaired tree)
          Rewinds          \* TRUE: mode "a" looks for the existing archive at offset 0 of a caller's stream (repaired tree)

VARIABLES mode,       \* "r" | "w" | "a"
          via,        \* "path" | "stream0" (caller's stream at offset 0) | "streamX" (standing elsewhere)
          phase,      \* "open" | "closed"
          seen,       \* members the session found when it opened
          added,      \* members added by write calls that returned
          disk,       \* [members, version]: what a fresh reader would find, and a counter of changes
          ncalls,
          last        \* [k, raised] of the last call

vars == <<mode, via, phase, seen, added, disk, ncalls, last>>

Disk0 == [members |-> Base, version |-> 0]

Init == /\ mode \in {"r", "w", "a"} /\ via \in {"path", "stream0", "streamX"}
        \* (a reader, too, looks for the archive at offset 0 of a caller's stream wherever it stands - since the repair; before, it refused)
        /\ phase = "open" /\ added = 0 /\ ncalls = 0 /\ last = [k |-> "open", raised |-> FALSE]
        /\ disk = IF mode = "w" THEN [members |-> 0, version |-> 0] ELSE Disk0
        \* what the session believes the archive holds: an appender that probes at the stream's position finds "no archive"
        /\ seen = IF mode = "w" THEN 0
                  ELSE IF mode = "a" /\ via = "streamX" /\ ~Rewinds THEN 0 ELSE Base

Step(k, r) == /\ ncalls < MaxCalls /\ ncalls' = ncalls + 1 /\ last' = [k |-> k, raised |-> r]

Inert(k) == Step(k, TRUE) /\ UNCHANGED <<mode, via, phase, seen, added, disk>>

(* listing calls: answered while open (a writer lists what it has registered so far), refused after close *)
List == IF phase = "open" THEN Step("list", FALSE) /\ UNCHANGED <<mode, via, phase, seen, added, disk>>
        ELSE Inert("list")

(* decoding calls: a reader decodes; a writer has nothing to decode from and raises; nothing changes either way *)
Decode == IF phase = "open" /\ mode = "r" THEN Step("decode", FALSE) /\ UNCHANGED <<mode, via, phase, seen, added, disk>>
          ELSE Inert("decode")

(* test(): a reader checks the packed CRCs; a writer answers None ("nothing to check yet") and must leave its file position and *)
(* worker alone - on the tree as found it rewound the file and replaced the worker, and the next write landed on earlier data   *)
Test == IF phase = "open" \/ mode # "r"             \* (a writer answers None even after close(); a closed reader refuses)
        THEN Step("test", FALSE) /\ UNCHANGED <<mode, via, phase, seen, added, disk>>
        ELSE Inert("test")

(* write calls *)
Write == IF phase = "closed" THEN Inert("write")
         ELSE IF mode = "r"
              THEN IF WriteGuarded \/ via = "path"        \* (by path the file is opened read-only: the write fails in any tree)
                   THEN Inert("write")
                   ELSE /\ Step("write", FALSE)           \* tree as found: compressed into the caller's stream, over the archive
                        /\ disk' = [disk EXCEPT !.version = @ + 1]
                        /\ UNCHANGED <<mode, via, phase, seen, added>>
              ELSE /\ Step("write", FALSE) /\ added' = added + 1
                   /\ disk' = [disk EXCEPT !.version = @ + 1]       \* packed data goes to the file at once; the header only at close
                   /\ UNCHANGED <<mode, via, phase, seen>>

(* the header-mode setters only set attributes of the object: accepted in every mode, even after close(), and without effect then *)
Setter == Step("setter", FALSE) /\ UNCHANGED <<mode, via, phase, seen, added, disk>>

(* close(): a writer writes the header for what it saw plus what it added; a second close() raises and changes nothing *)
Close == IF phase = "closed" THEN Inert("close")
         ELSE /\ Step("close", FALSE) /\ phase' = "closed"
              /\ disk' = IF mode = "r" THEN disk ELSE [members |-> seen + added, version |-> disk.version + 1]
              /\ UNCHANGED <<mode, via, seen, added>>

Next == List \/ Decode \/ Test \/ Write \/ Setter \/ Close
Spec == Init /\ [][Next]_vars

---------------------------------------------------------------------------
(* C12: a read-mode object never changes the archive, whatever is called on it, open or closed *)
ReadNeverWrites == mode = "r" => disk = Disk0
(* nothing happens through a closed object *)
ClosedInert == [][phase = "closed" => disk' = disk]_vars
(* C08: after an append session the archive holds what was there plus what was added *)
AppendKeeps == (mode = "a" /\ phase = "closed") => disk.members = Base + added
(* C01: after a create session it holds what was added *)
CreateHolds == (mode = "w" /\ phase = "closed") => disk.members = added
=============================================================================
