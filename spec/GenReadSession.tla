--------------------------- MODULE GenReadSession ---------------------------
(* Spec -> code binding for C12: every call sequence the quantifier allows   *)
(* (up to MaxCalls calls) over the model archives, printed as JSON.          *)
EXTENDS ReadSessionMC, Json

VARIABLE hist
gvars == <<vars, hist>>

(* a few representative target sets per archive: first data member, a directory (if any), last member + an absent name *)
FirstData == IF \E i \in Idx : IsData(i) THEN {CHOOSE i \in Idx : IsData(i) /\ \A j \in Idx : IsData(j) => i <= j} ELSE {}
SomeDir == IF \E i \in Idx : a.members[i].kind = "dir" THEN {CHOOSE i \in Idx : a.members[i].kind = "dir"} ELSE {}
TChoices == {FirstData, SomeDir, {N, 0}} \ {{}}

H(name, T, rec) == hist' = Append(hist, [name |-> name, T |-> T, rec |-> rec])

GInit == Init /\ hist = <<>> /\ a \in {A1, A2, A3, A5}
GNext == \/ WrongMode /\ H("wrongmode", {}, FALSE)
         \/ GetNames /\ H("getnames", {}, FALSE)
         \/ List /\ H("list", {}, FALSE)
         \/ GetInfo /\ H("getinfo", {}, FALSE)
         \/ ArchiveInfo /\ H("archiveinfo", {}, FALSE)
         \/ NeedsPassword /\ H("needs_password", {}, FALSE)
         \/ Test /\ H("test", {}, FALSE)
         \/ TestZip /\ H("testzip", {}, FALSE)
         \/ Reset /\ H("reset", {}, FALSE)
         \/ ExtractAll /\ H("extractall", {}, FALSE)
         \/ \E T \in TChoices : \E rec \in BOOLEAN : Extract(T, rec) /\ H("extract", T, rec)
GSpec == GInit /\ [][GNext]_gvars

Emit == ncalls >= 1 => PrintT(<<"BEH", ToJson([arch |-> a, calls |-> hist])>>)
=============================================================================
