--------------------------- MODULE ReadSessionMC ---------------------------
EXTENDS ReadSession
M(k, f, p, par) == [kind |-> k, folder |-> f, pos |-> p, parent |-> par]
A1 == [members |-> << M("dir", 0, 0, 0), M("file", 1, 1, 1), M("empty", 0, 0, 1), M("file", 1, 2, 0), M("file", 1, 3, 0) >>,
       nfolders |-> 1, damaged |-> {}]
A2 == [members |-> << M("file", 1, 1, 0), M("dir", 0, 0, 0), M("file", 1, 2, 2), M("file", 2, 1, 0), M("empty", 0, 0, 2), M("file", 2, 2, 2) >>,
       nfolders |-> 2, damaged |-> {}]
A3 == [members |-> << M("file", 1, 1, 0), M("file", 2, 1, 0), M("file", 3, 1, 0) >>, nfolders |-> 3, damaged |-> {2}]
A4 == [members |-> << M("dir", 0, 0, 0), M("empty", 0, 0, 1) >>, nfolders |-> 0, damaged |-> {}]
A5 == [members |-> << M("file", 1, 1, 0), M("file", 1, 2, 0), M("file", 2, 1, 0) >>, nfolders |-> 2, damaged |-> {1}]
MCArchives == {A1, A2, A3, A4, A5}
FalseDef == FALSE     \* CONSTANT ExtractResets <- FalseDef: the tree before extract() reset the decoders itself
=============================================================================
