----------------------------- MODULE GenCodec -----------------------------
(* Spec -> code binding for C17: TLC writes every class vector together     *)
(* with ALL its specification-conforming encodings, the specification's     *)
(* decoding and the I-level's prediction of what py7zr emits.               *)
EXTENDS CodecMC, Json, IOUtils, SequencesExt

NumCases == { [v |-> v, encs |-> SetToSeq(SpecEncodings(v)), w |-> WriteAlgo(v)] : v \in Numbers }
BoolCases == { [bits |-> BoolVec(n, k), alldef |-> a,
                encs |-> SetToSeq(SpecBoolEncodings(BoolVec(n, k), a)),
                w |-> WriteBoolAlgo(BoolVec(n, k), a)] : n \in 0..MaxBits, k \in 0..6, a \in BOOLEAN }
SizeCases == { [n |-> n, d |-> d, item |-> it, spec |-> PropSizeSpec(n, d, it), algo |-> PropSizeAlgo(n, d, it)] :
                 n \in 1..20, d \in 0..20, it \in {4, 8} }

ASSUME JsonSerialize(IOEnv.OUT_FILE, [nums |-> SetToSeq(NumCases), bools |-> SetToSeq(BoolCases),
                                      sizes |-> SetToSeq({c \in SizeCases : c.d <= c.n})])
===========================================================================
