SPECIFICATION Spec
CONSTANT MaxNodes = 4
INVARIANT RT
INVARIANT PF
CONSTRAINT Emit
CHECK_DEADLOCK FALSE
