SPECIFICATION Spec
CONSTANT Params <- MemIgnoring
CONSTANT StallMax = 2
CONSTANT Guarded = TRUE
INVARIANT ChunkBound
INVARIANT Exact
INVARIANT Conserved
INVARIANT MemBound
INVARIANT InputBound
INVARIANT OutBound
INVARIANT NoFalseAlarm
PROPERTY Terminates
CHECK_DEADLOCK FALSE
