SPECIFICATION GSpec
CONSTANT Archives <- MCArchives
CONSTANT MaxCalls = 3
CONSTANT TestZipResets = TRUE
CONSTRAINT Emit
INVARIANT Repeatable
CHECK_DEADLOCK FALSE
