SPECIFICATION Spec
CONSTANT MaxCalls = 5
CONSTANT Base = 2
CONSTANT WriteGuarded = FALSE
CONSTANT Rewinds = TRUE
INVARIANT ReadNeverWrites
INVARIANT AppendKeeps
INVARIANT CreateHolds
PROPERTY ClosedInert
CHECK_DEADLOCK FALSE
