SPECIFICATION Spec
CONSTANT NFolders = 2
CONSTANT Members <- M23
CONSTANT HeaderCrcWritten = FALSE
INVARIANT NoWrongSuccess
INVARIANT HeaderCovered
INVARIANT UncoveredByWriter
CHECK_DEADLOCK FALSE
