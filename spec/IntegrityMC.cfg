SPECIFICATION Spec
CONSTANT NFolders = 2
CONSTANT Members <- M23
CONSTANT HeaderCrcWritten = TRUE
INVARIANT NoWrongSuccess
INVARIANT HeaderCovered
CHECK_DEADLOCK FALSE
