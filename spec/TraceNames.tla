----------------------------- MODULE TraceNames -----------------------------
(* Code -> spec binding for C16.  One trace = one write session on a fresh   *)
(* archive: check/writestr/writef/write events, then close+reopen+list.      *)
EXTENDS Names, Json, IOUtils, TLCExt

Traces == JsonDeserialize(IOEnv.TRACE_FILE)
Explain == IOEnv.EXPLAIN = "1"

VARIABLES tid, l, count
vars == <<tid, l, count>>
Ev == Traces[tid][l]

Init == tid \in 1..Len(Traces) /\ l = 1 /\ count = 0
IsEvent(name) == l <= Len(Traces[tid]) /\ Ev.e = name /\ l' = l + 1 /\ tid' = tid

(* helpers.check_archive_path(name) returned Ev.verdict *)
CheckEv == /\ IsEvent("check")
           /\ Ev.verdict = SpecVerdict(Ev.name)
           /\ UNCHANGED count

(* writestr / writef: rejected with ValueError and nothing changes, or accepted and exactly one member appears *)
WriteNamed == /\ (IsEvent("writestr") \/ IsEvent("writef"))
              /\ Ev.before = count
              \* a name the header cannot hold at all (a lone surrogate, an embedded NUL) lies outside the names the property speaks of:
              \* it may be refused like a bad name - what it may not is be stored in another form (the accepted branch below)
              /\ IF "unstorable" \in DOMAIN Ev /\ Ev.unstorable /\ Ev.exc = "ValueError"
                 THEN Ev.after = count /\ count' = count
                 ELSE
                 IF SpecVerdict(Ev.name)
                 THEN /\ Ev.exc = "none"
                      /\ Ev.after = count + 1
                      /\ Ev.stored.lead = 0 /\ Climb(Ev.stored.comps, 0)
                      /\ count' = count + 1
                 ELSE /\ Ev.exc = "ValueError"
                      /\ Ev.after = count
                      /\ count' = count

(* write / writeall of a source path with arcname None: the stored name is relative *)
WritePath == /\ IsEvent("write")
             /\ Ev.exc = "none"
             /\ Ev.after = count + Ev.added
             /\ \A i \in 1..Len(Ev.stored) : Ev.stored[i].lead = 0
             /\ count' = count + Ev.added

(* after close and reopen: the listing has exactly the accepted members, none absolute, none climbing *)
Closed == /\ IsEvent("closed")
          /\ Ev.listed = count
          /\ Ev.same                       \* rejected calls left no mark: same folders / streams / size as a session without them
          /\ \A i \in 1..Len(Ev.names) : Ev.names[i].lead = 0 /\ Climb(Ev.names[i].comps, 0)
          /\ UNCHANGED count

(* the session could not be closed (a name that cannot be encoded at all, e.g. a lone surrogate): no archive, nothing stored wrongly *)
Refused == IsEvent("refused") /\ UNCHANGED count

Next == CheckEv \/ WriteNamed \/ WritePath \/ Closed \/ Refused
Spec == Init /\ [][Next]_vars

Done == /\ (l = Len(Traces[tid]) + 1) => PrintT(<<"ACC", tid>>)
        /\ Explain => PrintT(<<"AT", tid, l>>)
=============================================================================
