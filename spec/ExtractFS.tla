------------------------------ MODULE ExtractFS ------------------------------
(***************************************************************************)
(* C03: extraction never writes outside the destination directory.         *)
(*                                                                         *)
(* A file system with symbolic links, and SevenZipFile._extract /          *)
(* Worker._extract_single transcribed step by step:                        *)
(*   register  lexical sanitising of every member name                     *)
(*             (get_sanitized_output_path: strip leading '/', join,        *)
(*             canonical_path, relative_to); Bad7zFile aborts everything   *)
(*   mkdirs    directory members, sorted, mkdir(parents=True)              *)
(*   member    every other member in archive order:                        *)
(*             parent.mkdir(parents=True, exist_ok=True), then             *)
(*             open('wb') | touch | is_path_valid + unlink + symlink_to    *)
(*   post      utime + chmod on the registered files and directories       *)
(* Every mutation records the location it RESOLVES to (links followed as   *)
(* the OS would) in `effects`.                                             *)
(*                                                                         *)
(* Paths are sequences of names from the root <<>>; the destination is     *)
(* <<"J">>; <<"O">> is a directory outside.  A link target is a sequence   *)
(* of components, absolute when it starts with "/".                        *)
(***************************************************************************)
EXTENDS Naturals, Sequences, FiniteSets, TLC

CONSTANTS Archives,     \* set of archives; an archive is a Seq of [name, kind, tgt]
          Dests,        \* subset of {"abs", "none"}: destination given as absolute path / None (cwd = J)
          Guarded,      \* TRUE: the repaired tree (resolved-location check before every mutation)
          Fuel          \* bound on link hops while resolving

J == <<"J">>
Front(s) == SubSeq(s, 1, Len(s) - 1)
Last(s) == s[Len(s)]
IsPrefix(p, s) == Len(p) <= Len(s) /\ SubSeq(s, 1, Len(p)) = p

VARIABLES arch, dest, fs, effects, pc, i, raised, regd
vars == <<arch, dest, fs, effects, pc, i, raised, regd>>

Dir == [k |-> "dir", t |-> <<>>]
File == [k |-> "file", t |-> <<>>]
Link(t) == [k |-> "link", t |-> t]

(* "Jx" is a sibling whose name starts with the destination's name (a prefix test without separator confuses them) *)
FS0 == (<<>> :> Dir) @@ (J :> Dir) @@ (<<"O">> :> Dir) @@ (<<"Jx">> :> Dir)

---------------------------------------------------------------------------
(* resolution as the operating system does it (realpath, non-strict) *)
RECURSIVE Walk(_, _, _, _)
Walk(f, cur, rest, fuel) ==
  IF rest = <<>> THEN cur
  ELSE IF fuel = 0 THEN <<"LOOP">>
  ELSE LET c == Head(rest)  r == Tail(rest) IN
       IF c = "." \/ c = "" THEN Walk(f, cur, r, fuel)
       ELSE IF c = ".." THEN Walk(f, IF cur = <<>> THEN <<>> ELSE Front(cur), r, fuel)
       ELSE LET nxt == Append(cur, c) IN
            IF nxt \in DOMAIN f /\ f[nxt].k = "link"
            THEN LET t == f[nxt].t IN
                 IF t # <<>> /\ Head(t) = "/" THEN Walk(f, <<>>, Tail(t) \o r, fuel - 1)
                 ELSE Walk(f, cur, t \o r, fuel - 1)
            ELSE Walk(f, nxt, r, fuel)

Real(f, p) == Walk(f, <<>>, p, Fuel)                              \* follows every link, also the last component
RealLeaf(f, p) == IF p = <<>> THEN <<>> ELSE Append(Real(f, Front(p)), Last(p))   \* the last component itself is not followed
Exists(f, p) == Real(f, p) \in DOMAIN f
Inside(p) == IsPrefix(J, p)

(* lexical canonical_path over components (helpers.canonical_path) *)
RECURSIVE Canon(_, _)
Canon(parts, stack) ==
  IF parts = <<>> THEN stack
  ELSE LET p == Head(parts) IN
       IF p = "." \/ p = "" THEN Canon(Tail(parts), stack)                       \* pathlib drops them
       ELSE IF p # ".." THEN Canon(Tail(parts), Append(stack, p))
       ELSE IF stack = <<>> THEN Canon(Tail(parts), stack)                       \* '/' + '..' -> '/'
       ELSE Canon(Tail(parts), Front(stack))

StripAbs(name) == IF name # <<>> /\ Head(name) = "/" THEN Tail(name) ELSE name   \* fname.lstrip('/')

(* get_sanitized_output_path: <<ok, output path>> *)
Sanitize(name) ==
  LET rel == StripAbs(name)
      can == Canon(J \o rel, <<>>) IN
  IF ~IsPrefix(J, can) THEN <<FALSE, <<>>>>
  ELSE IF dest = "none" /\ ~Guarded THEN <<TRUE, J \o SelectSeq(rel, LAMBDA c : c # "." /\ c # "")>>   \* before the repair: the relative name as given, '..' stays
  ELSE <<TRUE, can>>                                        \* the normalised name, also for the current directory (repaired tree)

(* is_path_valid(fileish.parent.joinpath(dst), path): lexical *)
LinkTargetValid(out, tgt) ==
  IF tgt # <<>> /\ Head(tgt) = "/" THEN IsPrefix(J, Canon(Tail(tgt), <<>>))
  ELSE IsPrefix(J, Canon(Front(out) \o tgt, <<>>))

---------------------------------------------------------------------------
(* mkdir(parents=True, exist_ok=True) at p, as pathlib does it: every lexical prefix of p that does not exist yet is     *)
(* created, shortest first, each at the place it resolves to ('a/..' makes 'a' before it finds that 'a/..' exists).     *)
RECURSIVE MkdirsFrom(_, _, _)
MkdirsFrom(f, p, n) ==
  IF n > Len(p) THEN f
  ELSE LET pr == SubSeq(p, 1, n)
           at == RealLeaf(f, pr) IN
       IF Exists(f, pr) \/ Last(pr) \in {".", "..", ""} \/ at \in DOMAIN f \/ Front(at) \notin DOMAIN f
       THEN MkdirsFrom(f, p, n + 1)
       ELSE MkdirsFrom((at :> Dir) @@ f, p, n + 1)
Mkdirs(f, p) == MkdirsFrom(f, p, 1)
MkdirEffects(f, p) == DOMAIN Mkdirs(f, p) \ DOMAIN f
(* can the directories be created: nothing on the resolved way is a file *)
MkdirOk(f, p) == LET g == Mkdirs(f, p)  rp == Real(g, p) IN
                 /\ rp \in DOMAIN g /\ g[rp].k = "dir"
                 /\ \A n \in 1..Len(rp) : SubSeq(rp, 1, n) \in DOMAIN g => g[SubSeq(rp, 1, n)].k = "dir"

(* the repaired tree refuses a mutation whose resolved parent is outside the destination *)
GuardOk(f, p) == ~Guarded \/ (Inside(Real(f, Front(p))) /\ Real(f, Front(p)) # <<"LOOP">>)

Entry == arch[i]
(* _extract: a name seen before gets the suffix _0, _1, ... *)
Dedup(k) == LET nm == arch[k].name
                c == Cardinality({ j \in 1..(k - 1) : arch[j].name = nm }) IN
            IF c = 0 \/ nm = <<>> THEN nm ELSE Append(Front(nm), Last(nm) \o "_" \o ToString(c - 1))
OutPath(e) == Sanitize(Dedup(i))[2]

Init == /\ arch \in Archives /\ dest \in Dests
        /\ fs = FS0 /\ effects = {} /\ pc = "register" /\ i = 1 /\ raised = FALSE /\ regd = <<>>

(* phase 1: every name is sanitised before anything is touched *)
Register ==
  /\ pc = "register"
  /\ IF i > Len(arch) THEN pc' = "mkdirs" /\ i' = 1 /\ UNCHANGED <<raised, regd>>
     ELSE IF ~Sanitize(Dedup(i))[1] THEN pc' = "done" /\ raised' = TRUE /\ UNCHANGED <<i, regd>>
     ELSE /\ regd' = Append(regd, [out |-> OutPath(Entry), kind |-> Entry.kind, tgt |-> Entry.tgt,
                                   post |-> (Entry.kind = "file") \/ (Entry.kind = "dir" /\ ~Exists(fs, OutPath(Entry)))])
          /\ i' = i + 1 /\ UNCHANGED <<pc, raised>>
  /\ UNCHANGED <<arch, dest, fs, effects>>

(* phase 2: directory members that did not exist at registration, in sorted order (the order does not matter for safety) *)
MkdirPhase ==
  /\ pc = "mkdirs"
  /\ IF i > Len(regd) THEN pc' = "members" /\ i' = 1 /\ UNCHANGED <<fs, effects, raised>>
     ELSE LET r == regd[i] IN
          IF r.kind # "dir" \/ ~r.post THEN i' = i + 1 /\ UNCHANGED <<pc, fs, effects, raised>>
          ELSE IF ~GuardOk(fs, Append(r.out, "x")) \/ ~MkdirOk(fs, r.out)
               THEN pc' = "done" /\ raised' = TRUE /\ UNCHANGED <<i, fs, effects>>
          ELSE /\ fs' = Mkdirs(fs, r.out) /\ effects' = effects \cup MkdirEffects(fs, r.out)
               /\ i' = i + 1 /\ UNCHANGED <<pc, raised>>
  /\ UNCHANGED <<arch, dest, regd>>

(* phase 3: the other members, in archive order *)
MemberPhase ==
  /\ pc = "members"
  /\ IF i > Len(regd) THEN pc' = "post" /\ i' = 1 /\ UNCHANGED <<fs, effects, raised>>
     ELSE LET r == regd[i] IN
          IF r.kind = "dir" THEN i' = i + 1 /\ UNCHANGED <<pc, fs, effects, raised>>
          ELSE IF ~GuardOk(fs, r.out) \/ ~MkdirOk(fs, Front(r.out))
               THEN pc' = "done" /\ raised' = TRUE /\ UNCHANGED <<i, fs, effects>>
          ELSE LET f1 == Mkdirs(fs, Front(r.out))                       \* fileish.parent.mkdir(parents=True, exist_ok=True)
                   e1 == MkdirEffects(fs, Front(r.out))
                   leaf == RealLeaf(f1, r.out)                          \* where the name itself lives
                   thru == Real(f1, r.out)                              \* where open('wb') lands (leaf link followed)
               IN
               IF r.kind = "link"
               THEN IF ~LinkTargetValid(r.out, r.tgt)
                    THEN pc' = "done" /\ raised' = TRUE /\ fs' = f1 /\ effects' = effects \cup e1 /\ UNCHANGED i
                    ELSE IF Exists(f1, r.out) /\ f1[thru].k = "dir" /\ (leaf \notin DOMAIN f1 \/ f1[leaf].k # "link")
                    THEN pc' = "done" /\ raised' = TRUE /\ fs' = f1 /\ effects' = effects \cup e1 /\ UNCHANGED i   \* unlink() of a directory fails
                    ELSE /\ fs' = (leaf :> Link(r.tgt)) @@ f1           \* unlink if it exists, then symlink_to
                         /\ effects' = effects \cup e1 \cup {leaf}
                         /\ i' = i + 1 /\ UNCHANGED <<pc, raised>>
               ELSE \* regular or empty file: open('wb') / touch() follow a link at the leaf - unless the repaired tree removed it first
                    LET f2 == IF Guarded /\ leaf \in DOMAIN f1 /\ f1[leaf].k = "link" THEN [q \in DOMAIN f1 \ {leaf} |-> f1[q]] ELSE f1
                        at == IF Guarded THEN leaf ELSE thru IN
                    IF at = <<"LOOP">> \/ (at \in DOMAIN f2 /\ f2[at].k = "dir") \/ Front(at) \notin DOMAIN f2
                    THEN pc' = "done" /\ raised' = TRUE /\ fs' = f1 /\ effects' = effects \cup e1 /\ UNCHANGED i
                    ELSE /\ fs' = (at :> File) @@ f2
                         /\ effects' = effects \cup e1 \cup {at}
                         /\ i' = i + 1 /\ UNCHANGED <<pc, raised>>
  /\ UNCHANGED <<arch, dest, regd>>

(* phase 4: os.utime + chmod on the registered files and directories - both follow links *)
PostPhase ==
  /\ pc = "post"
  /\ IF i > Len(regd) THEN pc' = "done" /\ UNCHANGED <<i, effects, raised>>
     ELSE LET r == regd[i]  at == Real(fs, r.out) IN
          IF ~r.post THEN i' = i + 1 /\ UNCHANGED <<pc, effects, raised>>
          ELSE IF Guarded /\ (~GuardOk(fs, r.out) \/ (RealLeaf(fs, r.out) \in DOMAIN fs /\ fs[RealLeaf(fs, r.out)].k = "link"))
               THEN i' = i + 1 /\ UNCHANGED <<pc, effects, raised>>              \* the member was replaced by a link: leave it alone
          ELSE IF at \notin DOMAIN fs THEN pc' = "done" /\ raised' = TRUE /\ UNCHANGED <<i, effects>>
          ELSE effects' = effects \cup {at} /\ i' = i + 1 /\ UNCHANGED <<pc, raised>>
  /\ UNCHANGED <<arch, dest, fs, regd>>

Next == Register \/ MkdirPhase \/ MemberPhase \/ PostPhase
Spec == Init /\ [][Next]_vars

---------------------------------------------------------------------------
(* C03: whether extraction completes or raises, nothing outside the destination was created, replaced or re-timed *)
NoEscape == \A p \in effects : Inside(p)
(* and what exists outside is what existed before *)
OutsideUntouched == \A p \in DOMAIN fs : ~Inside(p) => (p \in DOMAIN FS0 /\ fs[p] = FS0[p])
=============================================================================
