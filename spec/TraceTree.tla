------------------------------ MODULE TraceTree ------------------------------
(* Code -> spec binding for C02: one trace = one tree archived with writeall  *)
(* (or pack_7zarchive / the CLI) and extracted into an empty directory.       *)
(*   tree {nodes, deref}                                                      *)
(*   obs  {ok, entries: [{path, what, src, mode_ok, ticks, data_ok}]}         *)
(* what/src are read back from the extracted tree; ticks = |mtime difference| *)
(* in 100 ns units against the source; the set of entries must be exactly     *)
(* Expected(tree, deref).                                                     *)
EXTENDS Tree, Json, IOUtils, TLCExt
Traces == JsonDeserialize(IOEnv.TRACE_FILE)
Explain == IOEnv.EXPLAIN = "1"
VARIABLES tid, l
vars == <<tid, l>>
Init == tid \in 1..Len(Traces) /\ l = 1
T == Traces[tid][1].nodes
D == Traces[tid][1].deref
O == Traces[tid][2]
Check == /\ l = 1 /\ l' = 2 /\ UNCHANGED tid
         /\ O.ok                                                                \* neither archiving nor extraction raised
         /\ { [path |-> O.entries[k].path, what |-> O.entries[k].what, src |-> O.entries[k].src] : k \in 1..Len(O.entries) } = Expected(T, D)
         /\ \A k \in 1..Len(O.entries) :
              /\ O.entries[k].data_ok                                           \* identical bytes / identical link target
              /\ O.entries[k].mode_ok                                           \* identical permission bits
              /\ O.entries[k].ticks <= 50                                       \* modification time within 5 microseconds
Next == Check
Spec == Init /\ [][Next]_vars
Done == /\ (l = 2) => PrintT(<<"ACC", tid>>)
        /\ Explain => PrintT(<<"AT", tid, l>>)
=============================================================================
