SPECIFICATION Spec
CONSTANT MaxCalls = 3
CONSTANT MaxSessions = 2
CONSTANT MaxFaults = 1
CONSTANT Rollback = FALSE
INVARIANT InStep
INVARIANT NoRetry
INVARIANT Committed
PROPERTY FaultRaised
PROPERTY AppendOnly
CHECK_DEADLOCK FALSE
