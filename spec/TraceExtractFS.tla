---------------------------- MODULE TraceExtractFS ----------------------------
(* Code -> spec binding for C03.  One trace = one real extraction:            *)
(*   arch     {entries: [{name, kind, tgt}], dest}    the hostile archive      *)
(*   observed {effects: [path...], raised}            what the audit hook saw  *)
(* The specification extracts the same archive step by step (silent steps);    *)
(* the observed effects must all lie inside the destination (the property),    *)
(* and are compared with the specification's own effects (drift report).       *)
EXTENDS ExtractFS, Json, IOUtils, TLCExt

Traces == JsonDeserialize(IOEnv.TRACE_FILE)
Explain == IOEnv.EXPLAIN = "1"

VARIABLES tid, l
tvars == <<vars, tid, l>>

TInit == /\ tid \in 1..Len(Traces) /\ l = 2
         /\ arch = Traces[tid][1].entries /\ dest = Traces[tid][1].dest
         /\ fs = FS0 /\ effects = {} /\ pc = "register" /\ i = 1 /\ raised = FALSE /\ regd = <<>>

ToSet(s) == { s[k] : k \in 1..Len(s) }
Ev == Traces[tid][l]

Observed == /\ pc = "done" /\ l = 2 /\ Ev.e = "observed"
            /\ \A p \in ToSet(Ev.effects) : Inside(p)                       \* C03
            /\ (ToSet(Ev.effects) # effects \/ Ev.raised # raised) =>
                 PrintT(<<"DRIFT", tid>>)                                   \* the I-level predicted other effects: reported, not an alarm
            /\ l' = 3 /\ UNCHANGED <<vars, tid>>

TNext == (Next /\ UNCHANGED <<tid, l>>) \/ Observed
TSpec == TInit /\ [][TNext]_tvars

Done == /\ (l = 3) => PrintT(<<"ACC", tid>>)
        /\ Explain => PrintT(<<"AT", tid, l>>)
=============================================================================
