SPECIFICATION Spec
CONSTANT Archives <- MCArchives
CONSTANT MaxCalls = 3
CONSTANT WriteGuarded = TRUE
CONSTANT TestZipResets = FALSE
INVARIANT Restriction
INVARIANT Repeatable
PROPERTY Untouched
CHECK_DEADLOCK FALSE
