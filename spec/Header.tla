------------------------------- MODULE Header -------------------------------
(***************************************************************************)
(* The meaning of a 7z header and py7zr's reading of it (C06).             *)
(*                                                                         *)
(* A layout L is what an independent writer may emit for a logical         *)
(* archive:                                                                *)
(*   files    Seq of [k, attr]  k: "file" (has a data stream) | "dir" |    *)
(*            "empty" (zero-length file);  attr: attributes defined?       *)
(*   folders  Seq of [n, crc]   n: number of substreams (members) of the   *)
(*            folder, crc: "sub" (per-member digests in SubStreamsInfo) |  *)
(*            "folder" (one CRC in UnpackInfo) | "none"                    *)
(*   omitnum  NumUnpackStream omitted (legal when every n = 1)             *)
(*   nosub    SubStreamsInfo omitted altogether (legal when every n = 1    *)
(*            and no per-member digest is needed)                          *)
(*   efvec    EmptyFile vector written "auto" (iff an empty file exists) / *)
(*            "always"                                                     *)
(*   packpos, dummy, header mode: carried to the reference writer only     *)
(*                                                                         *)
(* Sem(L)        what the format assigns to each member                    *)
(* ReaderAlgo(L) what py7zr's _real_get_contents / SubstreamsInfo._read /  *)
(*               ArchiveFile derive (the cursor folder/stream/outstreams/  *)
(*               input transcribed)                                        *)
(***************************************************************************)
EXTENDS Naturals, Sequences, FiniteSets, TLC

CONSTANT DirFallback   \* TRUE: without an attribute word a member is a directory iff it is an empty stream that is not an empty file (repaired tree)

RECURSIVE SumN(_, _)
SumN(fs, k) == IF k = 0 THEN 0 ELSE fs[k].n + SumN(fs, k - 1)

DataIdx(L) == { i \in 1..Len(L.files) : L.files[i].k = "file" }
Rank(L, i) == Cardinality({ j \in DataIdx(L) : j <= i })          \* i is the Rank-th data member

(* folder and position of the r-th substream *)
FolderOf(L, r) == CHOOSE f \in 1..Len(L.folders) : SumN(L.folders, f - 1) < r /\ r <= SumN(L.folders, f)
PosOf(L, r) == r - SumN(L.folders, FolderOf(L, r) - 1)

WellFormedLayout(L) ==
  /\ SumN(L.folders, Len(L.folders)) = Cardinality(DataIdx(L))
  /\ (L.omitnum => \A f \in 1..Len(L.folders) : L.folders[f].n = 1)
  /\ (L.nosub => /\ L.omitnum
                 /\ \A f \in 1..Len(L.folders) : L.folders[f].crc # "sub")
  /\ \A f \in 1..Len(L.folders) : (L.folders[f].crc = "folder" => L.folders[f].n >= 1)

---------------------------------------------------------------------------
(* the format's meaning *)
SemKind(L, i) == L.files[i].k      \* "dir": empty stream without EmptyFile bit (and/or directory attribute); "empty": EmptyFile bit

SemMember(L, i) ==
  IF L.files[i].k # "file" THEN [kind |-> SemKind(L, i), folder |-> 0, pos |-> 0, crc |-> FALSE]
  ELSE LET r == Rank(L, i)  f == FolderOf(L, r) IN
       [kind |-> "file", folder |-> f, pos |-> PosOf(L, r),
        (* the member's CRC is known when digests are stored per member, or the folder has one member and a folder CRC; *)
        (* the reference writer adds per-member digests to a multi-member folder that carries a folder CRC               *)
        crc |-> L.folders[f].crc \in {"sub", "folder"}]

Sem(L) == [i \in 1..Len(L.files) |-> SemMember(L, i)]

---------------------------------------------------------------------------
(* py7zr's reading.  The cursor walks the file list; state = <<folder, input, out>> (0-based folder index, members taken   *)
(* from the current folder, substreams seen so far).                                                                          *)
NumUnpack(L, f) == L.folders[f].n            \* num_unpackstreams_folders: read, or [1]*numfolders when omitted: the same numbers

(* SubstreamsInfo._read: is the digest of substream r defined after parsing? *)
ReaderDigestDefined(L, r) ==
  LET f == FolderOf(L, r) IN
  IF L.folders[f].crc = "sub" THEN TRUE
  ELSE IF L.folders[f].crc = "folder" THEN TRUE     \* single-stream folder: the folder CRC is taken over; otherwise per-member digests are present too
  ELSE FALSE

RECURSIVE Walk(_, _, _, _, _, _)
(* Walk(L, i, folder, input, out, acc): process file i with cursor (folder: 1-based, input, out) *)
Walk(L, i, folder, input, out, acc) ==
  IF i > Len(L.files) THEN acc
  ELSE IF L.files[i].k # "file"
       THEN Walk(L, i + 1, folder, input, out,
                 Append(acc, [kind |-> IF L.files[i].k = "dir" /\ ~L.files[i].attr /\ ~DirFallback
                                       THEN "empty"                  \* is_directory looks at the attribute word only
                                       ELSE L.files[i].k,
                              folder |-> 0, pos |-> 0, crc |-> FALSE]))
       ELSE LET f0 == folder
                \* skip folders that hold no stream
                RECURSIVE Skip(_)
                Skip(f) == IF f <= Len(L.folders) /\ NumUnpack(L, f) = 0 THEN Skip(f + 1) ELSE f
                f == Skip(f0)
                inp == IF f = f0 THEN input ELSE 0
                m == [kind |-> "file", folder |-> f, pos |-> inp + 1, crc |-> ReaderDigestDefined(L, out + 1)]
                last == inp + 1 >= NumUnpack(L, f)
            IN  Walk(L, i + 1, IF last THEN f + 1 ELSE f, IF last THEN 0 ELSE inp + 1, out + 1, Append(acc, m))

ReaderAlgo(L) == Walk(L, 1, 1, 0, 0, <<>>)
=============================================================================
