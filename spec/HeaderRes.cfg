SPECIFICATION Spec
CONSTANT Size = 6
CONSTANT Big = 1000
CONSTANT Validated = TRUE
INVARIANT Proportional
PROPERTY Terminates
CHECK_DEADLOCK FALSE
