SPECIFICATION Spec
CONSTANT Size = 6
CONSTANT Big = 1000
CONSTANT Validated = TRUE
CONSTANT SumValidated = TRUE
CONSTANT Rounds = 1
INVARIANT Proportional
PROPERTY Terminates
CHECK_DEADLOCK FALSE
