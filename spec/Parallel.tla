------------------------------ MODULE Parallel ------------------------------
(***************************************************************************)
(* Multi-folder extraction with a progress callback (C13, C18).            *)
(*                                                                         *)
(* Processes (each an interleaved set of actions):                         *)
(*   Main      _extract: enqueue "pre", start one worker per folder, join  *)
(*             them, inspect the exception queue, enqueue "post"; later    *)
(*             close(): enqueue the sentinel, join the reporter            *)
(*   Worker f  for each member of folder f: enqueue "s", decode, write the *)
(*             output (the step a scheduler can order), check the CRC,     *)
(*             enqueue "u" and "e"; an exception goes to the exception     *)
(*             queue it can see                                            *)
(*   Reporter  takes events from the queue and runs the callback, which    *)
(*             may take arbitrarily long                                   *)
(* Mode "seq": workers run one after the other inside Main.                *)
(* Mode "thread": workers interleave freely, share q and exc_q with Main.  *)
(* Mode "process": workers interleave freely; ChildSeesQueues says whether *)
(*   what a child puts into exc_q / q arrives in the parent.               *)
(***************************************************************************)
EXTENDS Naturals, Sequences, FiniteSets, TLC

CONSTANTS NF,              \* number of folders
          Sizes,           \* Sizes[f] = Seq of member sizes of folder f
          Damaged,         \* set of folders whose data is damaged (CRC / decoder error at its first member)
          Mode,            \* "seq" | "thread" | "process"
          ChildSeesQueues, \* process mode: puts of a child reach the parent's queues (repaired: TRUE for exc_q)
          JoinWaits,       \* close() waits for the reporter without a time limit (repaired tree)
          WithCallback     \* a progress callback was given (otherwise nothing is enqueued and no reporter runs)

Folders == 1..NF
(* Where the worker of a folder in Damaged meets its error.  FALSE: at its first member (damaged packed data: decoder failure, CRC   *)
(* mismatch).  TRUE (a configuration overrides the definition): at its LAST member, the earlier ones having been delivered - an     *)
(* output that cannot be written (full disk, something else standing in the file's place).                                        *)
FailLast == FALSE
NM(f) == Len(Sizes[f])
AllMembers == UNION { { <<f, i>> : i \in 1..NM(f) } : f \in Folders }

VARIABLES mpc,        \* Main: "pre" | "run" | "join" | "check" | "post" | "open" | "closing" | "closed" | "raised"
          wpc,        \* wpc[f]: "idle" | "s" | "write" | "e" | "done" | "failed"
          wi,         \* wi[f]: member index being processed
          out,        \* set of members whose output has been written completely
          q,          \* progress queue (Seq of events)
          excq,       \* exception queue as Main sees it (Seq of folders)
          lost,       \* exceptions put where Main cannot see them
          rpc,        \* Reporter: "wait" | "cb" | "stopped"
          cur,        \* event the callback is working on
          delivered,  \* Seq of events whose callback has completed
          closeRet,   \* close() has returned (or raised)
          late,       \* callbacks completed after close() returned
          callerSaw   \* the caller of extract got an exception

vars == <<mpc, wpc, wi, out, q, excq, lost, rpc, cur, delivered, closeRet, late, callerSaw>>

Ev(k, f, i, n) == [k |-> k, f |-> f, i |-> i, n |-> n]
Put(qq, e) == IF WithCallback THEN Append(qq, e) ELSE qq
None == Ev("none", 0, 0, 0)

Init == /\ mpc = "pre" /\ wpc = [f \in Folders |-> "idle"] /\ wi = [f \in Folders |-> 1]
        /\ out = {} /\ q = <<>> /\ excq = <<>> /\ lost = {}
        /\ rpc = "wait" /\ cur = None /\ delivered = <<>> /\ closeRet = FALSE /\ late = 0 /\ callerSaw = FALSE

---------------------------------------------------------------------------
MainPre == /\ mpc = "pre" /\ mpc' = "run"
           /\ q' = Put(q, Ev("pre", 0, 0, 0))
           /\ UNCHANGED <<wpc, wi, out, excq, lost, rpc, cur, delivered, closeRet, late, callerSaw>>

(* start the workers (threads/processes), or in sequential mode simply let them run in folder order *)
MainStart == /\ mpc = "run" /\ mpc' = "join"
             /\ wpc' = [f \in Folders |-> IF NM(f) = 0 THEN "done" ELSE "s"]
             /\ UNCHANGED <<wi, out, q, excq, lost, rpc, cur, delivered, closeRet, late, callerSaw>>

MayRun(f) == IF Mode = "seq" THEN \A g \in Folders : g < f => wpc[g] \in {"done", "failed"} ELSE TRUE
(* sequential mode: an exception of folder g propagates at once, later folders never run *)
SeqAborted == Mode = "seq" /\ \E g \in Folders : wpc[g] = "failed"

WStart(f) == /\ mpc = "join" /\ wpc[f] = "s" /\ MayRun(f) /\ ~SeqAborted
             /\ q' = Put(q, Ev("s", f, wi[f], 0))
             /\ wpc' = [wpc EXCEPT ![f] = "write"]
             /\ UNCHANGED <<mpc, wi, out, excq, lost, rpc, cur, delivered, closeRet, late, callerSaw>>

(* decode + write + CRC check of one member; a damaged folder fails here *)
WWrite(f) == /\ mpc = "join" /\ wpc[f] = "write"
             /\ IF f \in Damaged /\ (FailLast => wi[f] = NM(f))
                THEN /\ wpc' = [wpc EXCEPT ![f] = "failed"]
                     /\ IF Mode = "process" /\ ~ChildSeesQueues
                        THEN lost' = lost \cup {f} /\ UNCHANGED excq
                        ELSE excq' = Append(excq, f) /\ UNCHANGED lost
                     /\ UNCHANGED <<out, q>>
                ELSE /\ out' = out \cup {<<f, wi[f]>>}
                     /\ q' = Put(q, Ev("u", f, wi[f], Sizes[f][wi[f]]))
                     /\ wpc' = [wpc EXCEPT ![f] = "e"]
                     /\ UNCHANGED <<excq, lost>>
             /\ UNCHANGED <<mpc, wi, rpc, cur, delivered, closeRet, late, callerSaw>>

WEnd(f) == /\ mpc = "join" /\ wpc[f] = "e"
           /\ q' = Put(q, Ev("e", f, wi[f], Sizes[f][wi[f]]))
           /\ IF wi[f] < NM(f) THEN wi' = [wi EXCEPT ![f] = @ + 1] /\ wpc' = [wpc EXCEPT ![f] = "s"]
              ELSE wpc' = [wpc EXCEPT ![f] = "done"] /\ UNCHANGED wi
           /\ UNCHANGED <<mpc, out, excq, lost, rpc, cur, delivered, closeRet, late, callerSaw>>

(* join all workers, then look at the exception queue *)
MainJoin == /\ mpc = "join" /\ (\A f \in Folders : wpc[f] \in {"done", "failed"} \/ (SeqAborted /\ wpc[f] = "s"))
            /\ mpc' = "check"
            /\ UNCHANGED <<wpc, wi, out, q, excq, lost, rpc, cur, delivered, closeRet, late, callerSaw>>

MainCheck == /\ mpc = "check"
             /\ IF excq # <<>> THEN mpc' = "open" /\ callerSaw' = TRUE /\ UNCHANGED q       \* re-raised: no "post"
                ELSE mpc' = "open" /\ q' = Put(q, Ev("post", 0, 0, 0)) /\ UNCHANGED callerSaw
             /\ UNCHANGED <<wpc, wi, out, excq, lost, rpc, cur, delivered, closeRet, late>>

(* close(): post the sentinel, join the reporter *)
MainClose == /\ mpc = "open" /\ mpc' = "closing"
             /\ q' = Put(q, Ev("stop", 0, 0, 0))
             /\ UNCHANGED <<wpc, wi, out, excq, lost, rpc, cur, delivered, closeRet, late, callerSaw>>

MainJoined == /\ mpc = "closing" /\ (rpc = "stopped" \/ ~WithCallback) /\ mpc' = "closed" /\ closeRet' = TRUE
              /\ UNCHANGED <<wpc, wi, out, q, excq, lost, rpc, cur, delivered, late, callerSaw>>

(* join(timeout=1) gives up while the reporter is still busy: InternalError, events still queued *)
JoinTimesOut == /\ ~JoinWaits /\ WithCallback /\ mpc = "closing" /\ rpc # "stopped" /\ mpc' = "raised" /\ closeRet' = TRUE
                /\ UNCHANGED <<wpc, wi, out, q, excq, lost, rpc, cur, delivered, late, callerSaw>>

(* reporter thread *)
RTake == /\ rpc = "wait" /\ q # <<>>
         /\ cur' = Head(q) /\ q' = Tail(q)
         /\ rpc' = IF Head(q).k = "stop" THEN "stopped" ELSE "cb"
         /\ UNCHANGED <<mpc, wpc, wi, out, excq, lost, delivered, closeRet, late, callerSaw>>

RDone == /\ rpc = "cb" /\ rpc' = "wait"
         /\ delivered' = Append(delivered, cur)
         /\ late' = IF closeRet THEN late + 1 ELSE late
         /\ UNCHANGED <<mpc, wpc, wi, out, q, excq, lost, cur, closeRet, callerSaw>>

Next == \/ MainPre \/ MainStart \/ MainJoin \/ MainCheck \/ MainClose \/ MainJoined \/ JoinTimesOut
        \/ \E f \in Folders : WStart(f) \/ WWrite(f) \/ WEnd(f)
        \/ RTake \/ RDone

Spec == Init /\ [][Next]_vars /\ WF_vars(Next)

---------------------------------------------------------------------------
Finished == mpc \in {"closed", "raised"} /\ rpc \in {"stopped", "wait"} /\ (rpc = "wait" => q = <<>>)

(* C13: under every interleaving the delivered outputs are exactly the members of the intact folders ... *)
Surviving == { m \in AllMembers : m[1] \notin Damaged \/ (FailLast /\ m[2] < NM(m[1])) }
Deterministic == mpc \in {"open", "closing", "closed", "raised"} =>
                   IF Mode = "seq"
                   THEN out \subseteq Surviving
                   ELSE out = Surviving
(* ... and an error met by any worker reaches the caller *)
ErrorReachesCaller == mpc \in {"open", "closing", "closed", "raised"} => (callerSaw <=> (Damaged # {}))

(* C18 on the delivered sequence *)
Pos(k, f, i) == { p \in 1..Len(delivered) : delivered[p].k = k /\ delivered[p].f = f /\ delivered[p].i = i }
Ordered == /\ \A p \in 1..Len(delivered) : delivered[p].k = "pre" => p = 1
           /\ \A p \in 1..Len(delivered) : delivered[p].k = "post" => \A r \in 1..Len(delivered) : r <= p
           /\ \A m \in AllMembers : /\ Cardinality(Pos("s", m[1], m[2])) <= 1 /\ Cardinality(Pos("e", m[1], m[2])) <= 1
                                    /\ \A pe \in Pos("e", m[1], m[2]) : \E ps \in Pos("s", m[1], m[2]) : ps < pe
                                    /\ \A pe \in Pos("e", m[1], m[2]) : delivered[pe].n = Sizes[m[1]][m[2]]
Complete == (mpc = "closed" /\ Damaged = {} /\ WithCallback) =>
              /\ \A m \in AllMembers : Cardinality(Pos("s", m[1], m[2])) = 1 /\ Cardinality(Pos("e", m[1], m[2])) = 1
              /\ delivered[1].k = "pre" /\ delivered[Len(delivered)].k = "post"
(* all events are delivered before close() returns and none after *)
NoneAfterClose == late = 0
CloseNeverFails == mpc # "raised"
Terminates == <>(mpc \in {"closed", "raised"})
=============================================================================
