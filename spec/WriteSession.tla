---------------------------- MODULE WriteSession ----------------------------
(***************************************************************************)
(* Write side of a SevenZipFile: create / append sessions made of write,   *)
(* writestr, writef calls, each of which can fail, followed by close.      *)
(* Serves C15 (a failed write does not poison), C08 (append preserves      *)
(* history) and the session-level part of C01 (what is written is what is  *)
(* listed).                                                                *)
(*                                                                         *)
(* A-level (what a user can observe)                                       *)
(*   arch   the members a reader finds in the archive file, or Unreadable  *)
(*   good   members of the successful calls of all sessions so far         *)
(* I-level (what the code does, one action per step of a call)             *)
(*   files  header.files_info.files / SevenZipFile.files (same list)       *)
(*   subs   substreamsinfo.{digests,unpacksizes}: one entry per member     *)
(*          whose data went through the compressor                         *)
(*   widx   Worker.current_file_index                                      *)
(*   folder what the open folder's compressor has swallowed                *)
(*   pc     program counter inside the public call                         *)
(*                                                                         *)
(* Member = [n |-> name id, c |-> content id].  Content ids are the call   *)
(* numbers, so every call writes distinguishable data.                     *)
(***************************************************************************)
EXTENDS Naturals, Sequences, FiniteSets, TLC

CONSTANTS MaxCalls,      \* calls per session
          MaxSessions,   \* 1 = create only, 2 = create then append, ...
          MaxFaults,     \* faults per history
          Rollback       \* TRUE: the tree un-registers a member when archiving it raises (repaired tree)

Kinds == {"writestr", "writef", "write", "writedir"}     \* writedir: write() of a directory (an empty-stream member)
(* where a call can fail.  pre-read faults: the source was never read *)
PreFaults(k) == IF k = "write" THEN {"missing", "lstat", "open"} ELSE IF k = "writedir" THEN {"missing", "lstat"} ELSE {"badname"}
MidFaults(k) == IF k \in {"writestr", "writedir"} THEN {} ELSE {"read"}          \* read raises after k >= 0 bytes
Faults(k) == PreFaults(k) \cup MidFaults(k)

Unreadable == [ok |-> FALSE, m |-> <<>>]
Ok(m) == [ok |-> TRUE, m |-> m]

VARIABLES sess,        \* number of the open session (1..MaxSessions), 0 before the first
          st,          \* "closed" | "open"
          arch,        \* A-level: Seq(Member) on disk or Unreadable
          good,        \* A-level: members of successful calls (all sessions)
          tainted,     \* A-level: some call of the open session failed midway through its source
          files, subs, widx, folder,      \* I-level
          pc, call,    \* current call: [k, n, c, fault]
          exc,         \* exception delivered to the caller by the last call ("none" or a fault name)
          reads,       \* per content id: how many times its source was opened/read (attempts)
          ncalls, nfaults

vars == <<sess, st, arch, good, tainted, files, subs, widx, folder, pc, call, exc, reads, ncalls, nfaults>>

NoCall == [k |-> "none", n |-> 0, c |-> 0, fault |-> "none"]

Init == /\ sess = 0 /\ st = "closed" /\ arch = Ok(<<>>) /\ good = <<>> /\ tainted = FALSE
        /\ files = <<>> /\ subs = <<>> /\ widx = 0 /\ folder = <<>>
        /\ pc = "idle" /\ call = NoCall /\ exc = "none" /\ reads = [c \in {} |-> 0]
        /\ ncalls = 0 /\ nfaults = 0

---------------------------------------------------------------------------
(* What a reader makes of an I-level header: the k-th file with a data stream owns the k-th substream entry. *)
(* (All members of this module have data; empty-stream members are modelled in Header.tla.)                  *)
(* Members without a data stream (es = TRUE) own no substream: directories read back with content id 0,    *)
(* empty files of a preloaded archive with content id 1.  Ids of real data are >= 11.                      *)
Rank(fs, i) == Cardinality({ j \in 1..i : ~fs[j].es })
Readback(fs, ss) == IF Cardinality({ j \in 1..Len(fs) : ~fs[j].es }) # Len(ss) THEN Unreadable
                    ELSE Ok([i \in 1..Len(fs) |-> [n |-> fs[i].n, c |-> IF fs[i].es THEN (IF fs[i].c = 1 THEN 1 ELSE 0) ELSE ss[Rank(fs, i)]]])

---------------------------------------------------------------------------
(* open a create session (first) or an append session on what is on disk *)
Open == /\ st = "closed" /\ sess < MaxSessions /\ arch.ok
        /\ sess' = sess + 1 /\ st' = "open"
        /\ files' = [i \in 1..Len(arch.m) |-> [n |-> arch.m[i].n, c |-> arch.m[i].c, es |-> arch.m[i].c <= 1]]      \* mode "a": header parsed from disk
        /\ subs' = LET d == SelectSeq(arch.m, LAMBDA x : x.c > 1) IN [i \in 1..Len(d) |-> d[i].c]
        /\ widx' = Len(arch.m)                                                        \* Worker.__init__: len(files)
        /\ folder' = <<>> /\ tainted' = FALSE /\ ncalls' = 0
        /\ pc' = "idle" /\ call' = NoCall /\ exc' = "none"
        /\ UNCHANGED <<arch, good, reads, nfaults>>

(* the archive on disk was produced by another writer (reference writer layout or third-party fixture) *)
Preload(m) == /\ st = "closed" /\ sess = 0
              /\ sess' = 1 /\ arch' = Ok(m) /\ good' = m
              /\ UNCHANGED <<st, tainted, files, subs, widx, folder, pc, call, exc, reads, ncalls, nfaults>>

(* a public write call begins *)
Begin(k, n, f) ==
        /\ st = "open" /\ pc = "idle" /\ ncalls < MaxCalls
        /\ (f # "none" => nfaults < MaxFaults)
        /\ call' = [k |-> k, n |-> n, c |-> sess * 10 + ncalls + 1, fault |-> f]
        /\ ncalls' = ncalls + 1 /\ nfaults' = IF f = "none" THEN nfaults ELSE nfaults + 1
        /\ pc' = "check" /\ exc' = "none"
        /\ UNCHANGED <<sess, st, arch, good, tainted, files, subs, widx, folder, reads>>

(* argument checks: writestr/writef reject a bad name before any state change; write() stats the source *)
Check == /\ pc = "check"
         /\ IF call.fault \in {"badname", "missing", "lstat"}
            THEN /\ exc' = call.fault /\ pc' = "idle" /\ call' = NoCall
                 /\ UNCHANGED <<files, subs, widx, folder, reads>>
            ELSE /\ pc' = "register" /\ UNCHANGED <<exc, call, files, subs, widx, folder, reads>>
         /\ UNCHANGED <<sess, st, arch, good, tainted, ncalls, nfaults>>

(* header.files_info.files.append(file_info); self.files.append(file_info) *)
Register == /\ pc = "register"
            /\ files' = Append(files, [n |-> call.n, c |-> call.c, es |-> call.k = "writedir"])
            /\ pc' = "archive"
            /\ UNCHANGED <<sess, st, arch, good, tainted, subs, widx, folder, call, exc, reads, ncalls, nfaults>>

(* Worker.archive: f = files[current_file_index]  -- NOT the entry just registered, the one at the cursor *)
Archive == /\ pc = "archive"
           /\ LET f == files[widx + 1]                       \* 0-based index widx
                  failing == (f.c = call.c /\ call.fault \in {"open", "read"}) \/ (f.c # call.c)   \* a stale cursor entry is a source that failed before
              IN  IF f.es /\ f.c = call.c
                  THEN \* a directory: nothing to read, only the cursor moves
                       /\ widx' = widx + 1
                       /\ good' = Append(good, [n |-> call.n, c |-> 0])
                       /\ UNCHANGED <<reads, exc, tainted, files, subs, folder>>
                  ELSE
                  /\ reads' = IF f.c \in DOMAIN reads THEN [reads EXCEPT ![f.c] = @ + 1] ELSE reads @@ (f.c :> 1)   \* open/read attempts per source
                  /\ IF failing
                     THEN /\ exc' = IF f.c = call.c THEN call.fault ELSE "stale"
                          /\ folder' = IF f.c = call.c /\ call.fault = "read" THEN Append(folder, <<f.c, "partial">>) ELSE folder
                          /\ tainted' = (tainted \/ (f.c = call.c /\ call.fault = "read"))
                          /\ IF Rollback THEN files' = SubSeq(files, 1, Len(files) - 1) ELSE files' = files
                          /\ UNCHANGED <<subs, widx, good>>
                     ELSE /\ folder' = Append(folder, <<f.c, "full">>)
                          /\ subs' = Append(subs, f.c)                  \* _after_write
                          /\ widx' = widx + 1
                          /\ good' = Append(good, [n |-> call.n, c |-> call.c])
                          /\ UNCHANGED <<exc, tainted, files>>
           /\ pc' = "idle" /\ call' = NoCall
           /\ UNCHANGED <<sess, st, arch, ncalls, nfaults>>

(* close() / __exit__: flush the folder, serialise whatever is registered, rewrite the signature header *)
Close == /\ st = "open" /\ pc = "idle"
         /\ st' = "closed"
         /\ arch' = IF \E i \in 1..Len(folder) : folder[i][2] = "partial"
                    THEN Unreadable                           \* data of a half-read source sits inside the solid block: sizes/CRCs cannot match
                    ELSE Readback(files, subs)
         /\ UNCHANGED <<sess, good, tainted, files, subs, widx, folder, pc, call, exc, reads, ncalls, nfaults>>

Next == \/ Open
        \/ \E k \in Kinds, n \in 1..2 : Begin(k, n, "none")
        \/ \E k \in Kinds, n \in 1..2 : \E f \in Faults(k) : Begin(k, n, f)
        \/ Check \/ Register \/ Archive \/ Close

Spec == Init /\ [][Next]_vars

---------------------------------------------------------------------------
(* C15, first sentence: between calls the registration lists and the cursor agree - a failed call left nothing behind *)
InStep == (st = "open" /\ pc = "idle") => (Len(files) = widx /\ Len(subs) = Cardinality({ j \in 1..Len(files) : ~files[j].es }))

(* the failed source is not retried behind the caller's back *)
NoRetry == \A c \in DOMAIN reads : reads[c] <= 1

(* the exception reaches the caller: a call with a fault never ends with exc = "none" -- checked as action property *)
FaultRaised == [][(pc = "check" /\ call.fault \in {"badname", "missing", "lstat"}) => exc' = call.fault]_vars

(* C15 + C08 + C01 at the A-level: after close the archive holds exactly the successful calls of all sessions, in order,  *)
(* unless a source failed midway, in which case it may also be unreadable - but never readable with other contents.         *)
Committed == (st = "closed" /\ sess > 0) =>
               \/ arch = Ok(good)
               \/ (tainted /\ arch = Unreadable)

(* C08: appending never alters what was there: arch only grows (action property) *)
AppendOnly == [][(arch.ok /\ arch'.ok) =>
                   (Len(arch.m) <= Len(arch'.m) /\ SubSeq(arch'.m, 1, Len(arch.m)) = arch.m)]_vars

=============================================================================
