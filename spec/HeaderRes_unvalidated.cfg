SPECIFICATION Spec
CONSTANT Size = 6
CONSTANT Big = 1000
CONSTANT Validated = FALSE
INVARIANT Proportional
PROPERTY Terminates
CHECK_DEADLOCK FALSE
