------------------------------- MODULE TreeMC -------------------------------
(* Every tree up to MaxNodes nodes, grown node by node (kind, parent), then   *)
(* every link given every admissible target; the invariants are evaluated on *)
(* the finished trees, which are also printed for the replay into the code.  *)
EXTENDS Tree, Json, IOUtils, Integers
CONSTANT MaxNodes
VARIABLES tree, phase, deref
vars == <<tree, phase, deref>>
Init == tree = <<>> /\ phase = "grow" /\ deref \in BOOLEAN
Add == /\ phase = "grow" /\ Len(tree) < MaxNodes
       /\ \E k \in {"dir", "file", "empty", "link"} : \E p \in 0..Len(tree) :
            /\ (p # 0 => tree[p].k = "dir")
            /\ tree' = Append(tree, [k |-> k, p |-> p, t |-> IF k = "link" THEN -1 ELSE 0])
       /\ UNCHANGED <<phase, deref>>
StartLinking == phase = "grow" /\ Len(tree) >= 1 /\ phase' = "link" /\ UNCHANGED <<tree, deref>>
Unlinked == { i \in 1..Len(tree) : tree[i].k = "link" /\ tree[i].t = -1 }
SetTarget == /\ phase = "link" /\ Unlinked # {}
             /\ LET i == CHOOSE x \in Unlinked : \A y \in Unlinked : x <= y IN
                \* a file, a directory, or a link that already has its target (lower index: links are targeted in index order)
                \* (0: the root itself, only from below the top level - at the top level '.' would be the link's own directory)
                \E t \in 0..Len(tree) : /\ t # i /\ (t = 0 => tree[i].p # 0) /\ (t > 0 /\ tree[t].k = "link" => t < i)
                                        /\ Resolve(tree, t) # -1
                                        /\ tree' = [tree EXCEPT ![i].t = t]
             /\ UNCHANGED <<phase, deref>>
Finish == phase = "link" /\ Unlinked = {} /\ phase' = "done" /\ UNCHANGED <<tree, deref>>
Next == Add \/ StartLinking \/ SetTarget \/ Finish
Spec == Init /\ [][Next]_vars
Claimed == phase = "done" /\ (deref => Acyclic(tree))        \* dereferencing a cyclic link graph is outside the property
RT == Claimed => RoundTrip(tree, deref)
PF == Claimed => ParentsFirst(tree, deref)
Emit == (phase = "done" /\ ~deref) => PrintT(<<"BEH", ToJson(tree)>>)
=============================================================================
