-------------------------------- MODULE Crash --------------------------------
(***************************************************************************)
(* C14: a crash while writing never leaves a file that opens with wrong    *)
(* contents.                                                               *)
(*                                                                         *)
(* The archive file is a row of cells:                                     *)
(*   sig    the 32-byte signature header as its 6 fields                   *)
(*          magic, ver, scrc (start header CRC), ofs, size, hcrc           *)
(*   body   positions 1..: packed data units, the packed header (when the  *)
(*          header is encoded) and the header record                       *)
(* A session (create, or append on top of an old archive) issues the write *)
(* operations in the order the code issues them:                           *)
(*   create: skeleton signature header (placeholders), data units, [HP],   *)
(*           HR, then seek(0) and the six fields one by one                *)
(*   append: seek to the end of the old packed data (= where the old       *)
(*           header starts), data units, [HP], HR, then the six fields     *)
(* The process may die between any two operations or inside one (the cell  *)
(* is then torn); the last operation that reached the OS may be dropped or *)
(* overtaken by the one before it.                                         *)
(* Accept is the reader's open pipeline: magic, start-header CRC over      *)
(* ofs/size/hcrc, next-header CRC over the header record, decoding of the  *)
(* packed header.                                                          *)
(***************************************************************************)
EXTENDS Naturals, Sequences, FiniteSets, TLC

CONSTANTS IsAppend,      \* TRUE: append session on an old archive; FALSE: create
          NOld,        \* data units of the old archive (append)
          NNew,        \* data units written by the session
          Encoded,     \* the header is written as packed header (HP) + record (HR)
          OldEncoded,  \* same for the old archive
          HeaderCrc    \* the decoded header of an encoded header is covered by a CRC (folder CRC in the header record)

SigFields == <<"magic", "ver", "scrc", "ofs", "size", "hcrc">>

(* tokens: what a cell holds.  gen = "old" | "new" | "skel" ; kind = "D" | "HP" | "HR" | sig field *)
Tok(gen, kind, idx) == <<gen, kind, idx>>
NoneTok == <<"none", "", 0>>
Torn == <<"torn", "", 0>>

(* layout of the old archive's body and of the finished new one *)
OldBody == [p \in 1..(NOld + (IF OldEncoded THEN 2 ELSE 1)) |->
              IF p <= NOld THEN Tok("old", "D", p)
              ELSE IF OldEncoded /\ p = NOld + 1 THEN Tok("old", "HP", 0) ELSE Tok("old", "HR", 0)]
NewLen == NOld + NNew + (IF Encoded THEN 2 ELSE 1)
NewTokAt(p) == IF p <= NOld THEN Tok("old", "D", p)
               ELSE IF p <= NOld + NNew THEN Tok("new", "D", p - NOld)
               ELSE IF Encoded /\ p = NOld + NNew + 1 THEN Tok("new", "HP", 0) ELSE Tok("new", "HR", 0)

(* the write operations of the session, in program order: <<"sig", field, token>> or <<"body", position, token>> *)
SkeletonOps == [k \in 1..6 |-> <<"sig", SigFields[k], Tok("skel", SigFields[k], 0)>>]
BodyOps == [k \in 1..(NewLen - NOld) |-> <<"body", NOld + k, NewTokAt(NOld + k)>>]
FinalSigOps == [k \in 1..6 |-> <<"sig", SigFields[k], Tok("new", SigFields[k], 0)>>]
Ops == (IF IsAppend THEN <<>> ELSE SkeletonOps) \o BodyOps \o FinalSigOps

VARIABLES sig, body, done, crashed
vars == <<sig, body, done, crashed>>

MaxPos == IF Len(OldBody) > NewLen THEN Len(OldBody) ELSE NewLen

Init == /\ sig = [f \in {"magic", "ver", "scrc", "ofs", "size", "hcrc"} |->
                    IF IsAppend THEN Tok("old", f, 0) ELSE NoneTok]
        /\ body = [p \in 1..MaxPos |-> IF IsAppend /\ p <= Len(OldBody) THEN OldBody[p] ELSE NoneTok]
        /\ done = 0 /\ crashed = FALSE

Apply(s, b, op, tok) == IF op[1] = "sig" THEN <<[s EXCEPT ![op[2]] = tok], b>> ELSE <<s, [b EXCEPT ![op[2]] = tok]>>

(* one more operation reaches the disk completely *)
Step == /\ ~crashed /\ done < Len(Ops)
        /\ LET r == Apply(sig, body, Ops[done + 1], Ops[done + 1][3]) IN sig' = r[1] /\ body' = r[2]
        /\ done' = done + 1 /\ UNCHANGED crashed

(* the process dies: cleanly between operations, inside the next one (torn cell), with the last one dropped,     *)
(* or with the last one having overtaken the one before it (that one is lost, the last one is on disk)           *)
CrashClean == ~crashed /\ crashed' = TRUE /\ UNCHANGED <<sig, body, done>>
CrashTorn == /\ ~crashed /\ done < Len(Ops) /\ crashed' = TRUE
             /\ LET r == Apply(sig, body, Ops[done + 1], Torn) IN sig' = r[1] /\ body' = r[2]
             /\ UNCHANGED done
(* state before the last two operations, needed to express reordering: recompute from scratch *)
RECURSIVE Replay(_, _, _, _)
Replay(s, b, k, skip) == IF k > done THEN <<s, b>>
                         ELSE IF k = skip THEN Replay(s, b, k + 1, skip)
                         ELSE LET r == Apply(s, b, Ops[k], Ops[k][3]) IN Replay(r[1], r[2], k + 1, skip)
Sig0 == [f \in {"magic", "ver", "scrc", "ofs", "size", "hcrc"} |-> IF IsAppend THEN Tok("old", f, 0) ELSE NoneTok]
Body0 == [p \in 1..MaxPos |-> IF IsAppend /\ p <= Len(OldBody) THEN OldBody[p] ELSE NoneTok]
CrashDropLast == /\ ~crashed /\ done >= 1 /\ crashed' = TRUE
                 /\ LET r == Replay(Sig0, Body0, 1, done) IN sig' = r[1] /\ body' = r[2]
                 /\ UNCHANGED done
CrashReordered == /\ ~crashed /\ done >= 2 /\ crashed' = TRUE
                  /\ LET r == Replay(Sig0, Body0, 1, done - 1) IN sig' = r[1] /\ body' = r[2]
                  /\ UNCHANGED done

Next == Step \/ CrashClean \/ CrashTorn \/ CrashDropLast \/ CrashReordered
Spec == Init /\ [][Next]_vars

---------------------------------------------------------------------------
(* the reader's open pipeline on the image: "reject" | "old" | "new" | "wrong" *)
Gen(tok) == tok[1]
Accept ==
  IF Gen(sig["magic"]) \notin {"old", "new", "skel"} THEN "reject"                       \* not a 7z file
  ELSE LET g == Gen(sig["scrc"]) IN
       IF g \notin {"old", "new"} \/ Gen(sig["ofs"]) # g \/ Gen(sig["size"]) # g \/ Gen(sig["hcrc"]) # g
       THEN "reject"                                                                      \* start header CRC (a placeholder never verifies)
       ELSE LET enc == IF g = "old" THEN OldEncoded ELSE Encoded
                hr == IF g = "old" THEN Len(OldBody) ELSE NewLen                          \* where ofs points (record position)
            IN  IF body[hr] # Tok(g, "HR", 0) THEN "reject"                               \* next header CRC
                ELSE IF enc /\ body[hr - 1] # Tok(g, "HP", 0)
                     THEN (IF Gen(body[hr - 1]) \in {"none", "torn"} \/ body[hr - 1][2] # "HP" THEN "reject"   \* not a decodable stream
                           ELSE IF HeaderCrc THEN "reject" ELSE "wrong")                  \* another header's packed stream decodes: only the folder CRC notices
                ELSE g

(* C14 *)
CrashSafe == crashed => (Accept \in (IF IsAppend THEN {"reject", "old", "new"} ELSE {"reject", "new"}))
(* "new" only once everything of the new archive is in place; "old" only while the old archive is untouched *)
Honest == /\ Accept = "new" => \A p \in 1..NewLen : body[p] = NewTokAt(p)
          /\ Accept = "old" => \A p \in 1..Len(OldBody) : body[p] = OldBody[p]
=============================================================================
