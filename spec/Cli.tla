--------------------------------- MODULE Cli ---------------------------------
(***************************************************************************)
(* C19: the command line mirrors the library and its exit status tells     *)
(* the truth.  Every subcommand is a composition of library session        *)
(* actions followed by Exit(code):                                         *)
(*   c  = OpenW ; writeall/write* ; Close        a = OpenA ; write* ; Close *)
(*   x  = OpenR ; extractall ; Close             l = OpenR ; archiveinfo ;  *)
(*   t  = OpenR ; testzip ; Close                    list ; Close          *)
(*   i  = (no archive)                                                     *)
(* Succeeds(cmd, cond, opt) says whether that composition succeeds in the  *)
(* library's terms; the exit status must be 0 exactly then.                *)
(***************************************************************************)
EXTENDS Naturals, Integers, TLC

Cmds == {"c", "a", "l", "x", "t", "i"}
(* condition of the archive the command meets *)
Conds == {"intact", "intact-empty", "intact-dirs", "header-damaged", "data-damaged", "stored-damaged", "noname-damaged", "needs-password", "unsupported-method", "absent", "exists"}
(* intact-empty: an archive without members; intact-dirs: directories only (no packed streams at all);                      *)
(* stored-damaged: a byte of a stored (Copy) member changed - no decoder notices, only the member's CRC                     *)
(* noname-damaged: the same, the damaged member being one whose recorded name is the empty string (testzip() answers '')    *)
Good == {"intact", "intact-empty", "intact-dirs"}
(* option class: volume size argument (for c), or none *)
Opts == {"none", "verbose", "vol-digits", "vol-b", "vol-k", "vol-m", "vol-g", "vol-upper", "vol-tiny", "vol-bad-unit", "vol-empty", "no-suffix", "dotted-name", "cwd"}
(* no-suffix: archive name given without ".7z" (the CLI appends it); dotted-name: ... and with another dot in it ("arc.v1" -> "arc.v1.7z") *)

VolumeValid(o) == o \in {"vol-digits", "vol-b", "vol-k", "vol-m", "vol-g", "vol-upper", "vol-tiny"}      \* (vol-tiny: 200b for 400 KB of data, ~2000 volumes)        \* the grammar the help describes: [0-9]+[bkmg]?

Meaningful(cmd, cond, opt) ==
  CASE cmd = "i" -> cond = "absent" /\ opt = "none"
    [] cmd = "c" -> cond \in {"absent", "exists"} /\ opt \in {"none", "no-suffix", "dotted-name", "vol-digits", "vol-b", "vol-k", "vol-m", "vol-g", "vol-upper", "vol-tiny", "vol-bad-unit", "vol-empty"}
    [] cmd = "a" -> cond \in {"intact", "absent", "header-damaged"} /\ opt = "none"
    [] cmd = "l" -> cond \in Good \cup {"header-damaged", "data-damaged", "stored-damaged", "needs-password"} /\ opt \in {"none", "verbose"}
    [] cmd = "x" -> cond \in Good \cup {"header-damaged", "data-damaged", "stored-damaged", "noname-damaged", "needs-password", "unsupported-method"} /\ opt \in {"none", "verbose", "cwd"}
    [] cmd = "t" -> cond \in Good \cup {"header-damaged", "data-damaged", "stored-damaged", "noname-damaged", "needs-password", "unsupported-method"} /\ opt = "none"

Succeeds(cmd, cond, opt) ==
  CASE cmd = "i" -> TRUE
    [] cmd = "c" -> cond = "absent" /\ (opt \in {"none", "no-suffix", "dotted-name"} \/ VolumeValid(opt))
    [] cmd = "a" -> cond = "intact"
    [] cmd = "l" -> cond \in Good \cup {"data-damaged", "stored-damaged", "needs-password"}      \* listing reads the (unencrypted) header only
    [] cmd \in {"x", "t"} -> cond \in Good

VARIABLES cmd, cond, opt, exit
vars == <<cmd, cond, opt, exit>>
Init == cmd \in Cmds /\ cond \in Conds /\ opt \in Opts /\ Meaningful(cmd, cond, opt) /\ exit = -1
Run == exit = -1 /\ exit' = (IF Succeeds(cmd, cond, opt) THEN 0 ELSE 1) /\ UNCHANGED <<cmd, cond, opt>>
Spec == Init /\ [][Run]_vars
Truthful == exit # -1 => ((exit = 0) <=> Succeeds(cmd, cond, opt))
=============================================================================
