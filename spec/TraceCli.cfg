SPECIFICATION TSpec
CONSTRAINT Done
CHECK_DEADLOCK FALSE
