-------------------------- MODULE GenWriteSession --------------------------
(* Spec -> code binding: every history of WriteSession within the bounds is *)
(* printed (one JSON line per closed session chain) and replayed into the   *)
(* real SevenZipFile by harness/drivers/wsession.py.                        *)
EXTENDS WriteSession, Json

VARIABLE hist
gvars == <<vars, hist>>

GInit == Init /\ hist = <<>>
GNext == \/ Open /\ hist' = Append(hist, [op |-> "open", mode |-> IF sess = 0 THEN "w" ELSE "a"])
         \/ \E k \in Kinds, n \in 1..2 : Begin(k, n, "none") /\ hist' = Append(hist, [op |-> "call", k |-> k, n |-> n, fault |-> "none"])
         \/ \E k \in Kinds, n \in 1..2 : \E f \in Faults(k) : Begin(k, n, f) /\ hist' = Append(hist, [op |-> "call", k |-> k, n |-> n, fault |-> f])
         \/ (Check \/ Register \/ Archive) /\ UNCHANGED hist
         \/ Close /\ hist' = Append(hist, [op |-> "close"])
GSpec == GInit /\ [][GNext]_gvars

(* print every history that ends with a close *)
Emit == (st = "closed" /\ sess > 0) => PrintT(<<"BEH", ToJson(hist)>>)
=============================================================================
