SPECIFICATION GSpec
CONSTANT MaxCalls = 3
CONSTANT Base = 2
CONSTANT WriteGuarded = TRUE
CONSTANT Rewinds = TRUE
CONSTRAINT Emit
CHECK_DEADLOCK FALSE
