SPECIFICATION Spec
CONSTANT Params <- MemRepaired
CONSTANT StallMax = 2
CONSTANT Guarded = TRUE
INVARIANT ChunkBound
INVARIANT Exact
INVARIANT Conserved
INVARIANT MemBound
INVARIANT BufBound
INVARIANT InputBound
INVARIANT OutBound
INVARIANT NoFalseAlarm
PROPERTY Terminates
CHECK_DEADLOCK FALSE
