SPECIFICATION Spec
CONSTANT MaxCoders = 4
CONSTANT FollowsPairs = TRUE
CONSTRAINT Emit
CHECK_DEADLOCK FALSE
