SPECIFICATION Spec
CONSTANT MaxCoders = 4
CONSTANT FollowsPairs = TRUE
INVARIANT TypeOK
INVARIANT ReaderAgrees
INVARIANT PositionalKept
INVARIANT WalkBounded
INVARIANT IllFormedPositional
INVARIANT PackedIsChainStart
PROPERTY Terminates
CHECK_DEADLOCK FALSE
