SPECIFICATION TSpec
CONSTANT MaxCoders = 4
CONSTANT FollowsPairs = TRUE
CONSTRAINT Done
CHECK_DEADLOCK FALSE
