------------------------------- MODULE Names -------------------------------
(***************************************************************************)
(* C16: member names are kept relative on write.                           *)
(*                                                                         *)
(* A name is [lead, comps, trail]: number of leading '/', the components   *)
(* between separators (possibly "" for doubled separators), and whether a  *)
(* trailing '/' follows.  Components are abstract tokens:                  *)
(*   "a" "b"  ordinary;  ".."  ".";  ""  empty;  "c:" drive-like;          *)
(*   "p1" "p2"  the two directory names py7zr uses internally as probe.    *)
(*                                                                         *)
(*  SpecVerdict : the independent definition (property statement)          *)
(*  AlgoVerdict : transcription of helpers.check_archive_path on POSIX     *)
(*                (pathlib normalisation, dummy parent, canonical_path,    *)
(*                 relative_to)                                            *)
(***************************************************************************)
EXTENDS Naturals, Sequences, FiniteSets, TLC

Alphabet == {"a", "b", "..", ".", "", "c:", "p1", "p2"}

(* ---------------- the independent definition ---------------- *)
RECURSIVE Climb(_, _)
(* walk the components; FALSE as soon as depth would go negative *)
Climb(cs, depth) ==
  IF cs = <<>> THEN TRUE
  ELSE LET c == Head(cs) IN
       IF c = "" \/ c = "." THEN Climb(Tail(cs), depth)
       ELSE IF c = ".." THEN (depth > 0 /\ Climb(Tail(cs), depth - 1))
       ELSE Climb(Tail(cs), depth + 1)

SpecVerdict(n) == n.lead = 0 /\ Climb(n.comps, 0)

(* ---------------- py7zr's algorithm (POSIX) ---------------- *)
(* pathlib.PurePosixPath(str).parts without the root: "" and "." vanish *)
PathParts(cs) == SelectSeq(cs, LAMBDA c : c # "" /\ c # ".")

ProbeParent == <<"/", "foo", "boo", "fuga", "hoge", "p2", "p1">>   \* /foo/boo/fuga/hoge/a90sufoiasj09/dafj08sajfa

RECURSIVE Canon(_, _)
(* helpers.canonical_path: the stack walk over .parts *)
Canon(parts, stack) ==
  IF parts = <<>> THEN stack
  ELSE LET p == Head(parts) IN
       IF p # ".." \/ stack = <<>> THEN Canon(Tail(parts), Append(stack, p))
       ELSE IF stack[Len(stack)] = ".." THEN Canon(Tail(parts), Append(stack, p))
       ELSE IF stack[Len(stack)] = "/" THEN Canon(Tail(parts), stack)
       ELSE Canon(Tail(parts), SubSeq(stack, 1, Len(stack) - 1))

IsPrefixOf(p, s) == Len(p) <= Len(s) /\ SubSeq(s, 1, Len(p)) = p

(* the pinned tree: probe-parent approach *)
AlgoVerdictProbe(n) ==
  /\ n.lead = 0                                                   \* Path(arcname).is_absolute()
  /\ IsPrefixOf(ProbeParent, Canon(ProbeParent \o PathParts(n.comps), <<>>))

(* the repaired tree: canonicalise the relative name itself, no '..' may remain *)
AlgoVerdictFixed(n) ==
  /\ n.lead = 0
  /\ \A i \in DOMAIN Canon(PathParts(n.comps), <<>>) : Canon(PathParts(n.comps), <<>>)[i] # ".."

(* ---------------- stored form ---------------- *)
(* pathlib.Path(arcname).as_posix() as stored by writestr/writef for an accepted name *)
StoredComps(n) == PathParts(n.comps)

(* _sanitize_archive_arcname (write/writeall): strip leading separators, then a drive prefix, then separators again *)
Sanitized(n) ==
  LET cs == n.comps
      afterlead == cs                                 \* leading '/' are dropped: lead := 0
      dropdrive == IF cs # <<>> /\ Head(cs) = "c:" THEN Tail(cs) ELSE cs     \* "c:/x" -> "/x" -> "x"
  IN  [lead |-> 0, comps |-> dropdrive, trail |-> n.trail]

=============================================================================
