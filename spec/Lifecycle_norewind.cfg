SPECIFICATION Spec
CONSTANT MaxCalls = 5
CONSTANT Base = 2
CONSTANT WriteGuarded = TRUE
CONSTANT Rewinds = FALSE
INVARIANT ReadNeverWrites
INVARIANT AppendKeeps
INVARIANT CreateHolds
PROPERTY ClosedInert
CHECK_DEADLOCK FALSE
