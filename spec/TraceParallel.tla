--------------------------- MODULE TraceParallel ---------------------------
(* Code -> spec binding for C13 / C18.  One trace = one extraction of a       *)
(* multi-folder archive under a harness-controlled schedule:                  *)
(*   arch    {sizes: [[..]..], damaged: [f..], mode, delivered: [[f,i]..]}    *)
(*   cb      {k: pre|s|u|e|post, f, i, n}   a callback invocation completed   *)
(*   result  {raised, good: [[f,i]..], bad: [[f,i]..]}   extract returned     *)
(*   closeret{exc}                          close() returned                  *)
(* The properties of Parallel.tla (Deterministic, ErrorReachesCaller,         *)
(* Ordered, Complete, NoneAfterClose) are evaluated on the recorded events.   *)
EXTENDS Naturals, Sequences, FiniteSets, TLC, Json, IOUtils, TLCExt

Traces == JsonDeserialize(IOEnv.TRACE_FILE)
Explain == IOEnv.EXPLAIN = "1"

VARIABLES tid, l, sizes, damaged, want, started, ended, usum, pre, post, closed, resulted,
          round     \* number of the extraction being reported; each extraction has its own callback object
vars == <<tid, l, sizes, damaged, want, started, ended, usum, pre, post, closed, resulted, round>>
Ev == Traces[tid][l]
ToSet(s) == { s[k] : k \in 1..Len(s) }
RECURSIVE SumOver(_)
SumOver(S) == IF S = {} THEN 0 ELSE LET m == CHOOSE x \in S : TRUE IN sizes[m[1]][m[2]] + SumOver(S \ {m})

Init == /\ tid \in 1..Len(Traces) /\ l = 1 /\ sizes = <<>> /\ damaged = {} /\ want = {}
        /\ started = {} /\ ended = {} /\ usum = 0 /\ pre = FALSE /\ post = FALSE /\ closed = FALSE /\ resulted = FALSE /\ round = 0
IsEvent(name) == l <= Len(Traces[tid]) /\ Ev.e = name /\ l' = l + 1 /\ tid' = tid

Arch == /\ IsEvent("arch") /\ l = 1
        \* folders whose worker meets an error: damaged packed data (CRC mismatch, decoder failure) or an output that cannot be written
        /\ sizes' = Ev.sizes /\ want' = ToSet(Ev.delivered)
        /\ damaged' = ToSet(Ev.damaged) \cup (IF "failsink" \in DOMAIN Ev THEN ToSet(Ev.failsink) ELSE {})
        /\ UNCHANGED <<started, ended, usum, pre, post, closed, resulted, round>>

(* C18: a callback completed.  Nothing may be delivered after close() returned. *)
Cb == /\ IsEvent("cb") /\ ~closed
      /\ round' = IF Ev.k = "pre" THEN round + 1 ELSE round
      /\ Ev.cb = round'                                             \* the event goes to the callback of the extraction it belongs to
      /\ \/ Ev.k = "pre" /\ (~pre \/ post) /\ started = ended           \* first event of an extraction (a later one starts afresh)
                         /\ pre' = TRUE /\ post' = FALSE /\ started' = {} /\ ended' = {} /\ usum' = 0
         \/ Ev.k = "s" /\ pre /\ ~post /\ <<Ev.f, Ev.i>> \notin started
                       /\ started' = started \cup {<<Ev.f, Ev.i>>} /\ UNCHANGED <<ended, usum, pre, post>>
         \/ Ev.k = "u" /\ pre /\ ~post /\ usum' = usum + Ev.n /\ UNCHANGED <<started, ended, pre, post>>
         \/ Ev.k = "e" /\ pre /\ ~post /\ <<Ev.f, Ev.i>> \in started \ ended
                       /\ (Ev.f > 0 => Ev.n = sizes[Ev.f][Ev.i])                      \* the end event carries the member's size (f = 0: a directory)
                       /\ ended' = ended \cup {<<Ev.f, Ev.i>>} /\ UNCHANGED <<started, usum, pre, post>>
         \/ Ev.k = "post" /\ pre /\ ~post /\ started = ended /\ post' = TRUE /\ UNCHANGED <<started, ended, usum, pre>>
      /\ UNCHANGED <<sizes, damaged, want, closed, resulted>>

(* C13: extract/extractall returned or raised *)
Result == /\ IsEvent("result")
          /\ Ev.raised = (damaged # {})                                 \* a worker's error reaches the caller; no spurious error
          /\ Ev.bad = <<>>                                              \* nothing is delivered with different bytes
          /\ (damaged = {} => ToSet(Ev.good) = want)                    \* identical to the sequential result under this schedule
          /\ resulted' = TRUE
          /\ UNCHANGED <<sizes, damaged, want, started, ended, usum, pre, post, closed, round>>

CloseRet == /\ IsEvent("closeret") /\ ~closed
            /\ Ev.exc = ""                                              \* close() does not fail because events were still queued
            /\ (Ev.callback /\ damaged = {}) =>
                   /\ pre /\ post                                       \* everything was delivered before close() returned
                   /\ want \subseteq started /\ started = ended                \* every processed member (delivered ones included): one start, one end
                   /\ ("streamless" \in DOMAIN Traces[tid][1] => ToSet(Traces[tid][1].streamless) \subseteq started)   \* directories and empty files of a full extraction too
                   /\ usum = SumOver(want)                              \* the update events add up to the bytes of the delivered members
            /\ closed' = TRUE
            /\ UNCHANGED <<sizes, damaged, want, started, ended, usum, pre, post, resulted, round>>

Next == Arch \/ Cb \/ Result \/ CloseRet
Spec == Init /\ [][Next]_vars

Done == /\ (l = Len(Traces[tid]) + 1) => PrintT(<<"ACC", tid>>)
        /\ Explain => PrintT(<<"AT", tid, l>>)
=============================================================================
