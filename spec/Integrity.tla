------------------------------ MODULE Integrity ------------------------------
(***************************************************************************)
(* C04: damage is detected - no success with different content.            *)
(*                                                                         *)
(* An archive is a row of regions; a layout says which checksums the       *)
(* writer stored; one region is damaged; a read path is taken.  The        *)
(* verdict is computed from the checks the code performs on that path      *)
(* (which checksum covers which region), i.e. this module is the coverage  *)
(* map of the format's integrity mechanisms as py7zr uses them:            *)
(*   magic compare; start-header CRC over ofs/size/hcrc; next-header CRC   *)
(*   over the header record; folder CRC of an encoded header (if stored);  *)
(*   per-file CRC of every decoded member, also of members decoded only to *)
(*   be skipped; folder CRC at the end of a folder; packed-stream CRCs in  *)
(*   test(); full decode in testzip().                                     *)
(***************************************************************************)
EXTENDS Naturals, Sequences, FiniteSets, TLC

CONSTANTS NFolders,       \* folders; folder f holds Members[f] members
          Members,
          HeaderCrcWritten \* the writer stores a CRC of the decoded header of an encoded header (py7zr: FALSE, reference writer: TRUE)

Simple == {"magic", "version", "startcrc", "ofs", "size", "hcrc", "gap", "hdrpack", "hdrrec", "trailing"}
Regions == { <<r, 0>> : r \in Simple } \cup { <<"pack", f>> : f \in 1..NFolders }
Paths == { <<p, 0, 0>> : p \in {"extractall", "test", "testzip"} } \cup { <<"extract", f, i>> : f \in 1..NFolders, i \in 1..3 }

Layouts == [filecrc : BOOLEAN, foldercrc : BOOLEAN, packcrc : BOOLEAN, encoded : BOOLEAN, hdrcrc : BOOLEAN, aes : BOOLEAN,
            codecChecks : BOOLEAN]      \* codecChecks: the codec itself notices damage (LZMA & co. mostly do, Copy never does)

VARIABLES lay, region, path, pos, verdict
vars == <<lay, region, path, pos, verdict>>

(* pos: for a pack region, which member of the folder the damage falls into *)
Init == /\ lay \in Layouts /\ region \in Regions /\ path \in Paths
        /\ pos \in 1..3 /\ verdict = "pending"
        /\ (lay.hdrcrc => lay.encoded)
        /\ (region[1] = "hdrpack" => lay.encoded)
        /\ (region[1] = "pack" => pos <= Members[region[2]])
        /\ (region[1] # "pack" => pos = 1)
        /\ (path[1] = "extract" => path[3] <= Members[path[2]])

IsPack == region[1] = "pack"
(* does the path decode the damaged member?  extract(f,i) decodes members 1..i of folder f (predecessors are decoded to be skipped) *)
Decodes == IF ~IsPack THEN FALSE
           ELSE IF path[1] \in {"extractall", "testzip"} THEN TRUE
           ELSE IF path[1] = "test" THEN FALSE
           ELSE path[2] = region[2] /\ pos <= path[3]

(* a damaged packed member is noticed by: the codec, or the member's CRC, or (at the end of the folder) the folder CRC *)
Noticed == lay.codecChecks \/ lay.filecrc \/ (lay.foldercrc /\ (path[1] \in {"extractall", "testzip"} \/ (path[1] = "extract" /\ path[3] = Members[path[2]])))

Judge ==
  /\ verdict = "pending"
  /\ verdict' =
       CASE region[1] = "magic" -> "error"
         [] region[1] \in {"version", "gap", "trailing"} -> "same"                   \* not part of any member: content unaffected
         [] region[1] \in {"startcrc", "ofs", "size", "hcrc"} -> "error"             \* start header CRC
         [] region[1] = "hdrrec" -> "error"                                          \* next header CRC
         [] region[1] = "hdrpack" -> IF lay.hdrcrc \/ lay.codecChecks THEN "error" ELSE "different-header"
         [] IsPack /\ path[1] = "test" -> IF lay.packcrc THEN "error" ELSE "no-verdict"  \* test() answers None without packed CRCs
         [] IsPack /\ ~Decodes -> "same"                                             \* the damaged member is not delivered
         [] IsPack /\ Decodes -> IF Noticed THEN "error" ELSE "different-content"
         [] OTHER -> "error"
  /\ UNCHANGED <<lay, region, path, pos>>

Next == Judge
Spec == Init /\ [][Next]_vars

(* C04 for the archives of its quantifier: per-file CRCs present *)
NoWrongSuccess == (lay.filecrc /\ verdict # "pending") => verdict \notin {"different-content"}
(* the header of an encoded header is covered as well - when the writer stored its CRC or the codec checks *)
HeaderCovered == (verdict # "pending" /\ (lay.hdrcrc \/ lay.codecChecks)) => verdict # "different-header"
(* what a writer that stores no header CRC leaves uncovered (py7zr before the repair; HeaderCrcWritten records what the tree under test does) *)
UncoveredByWriter == (verdict = "different-header") => ~(HeaderCrcWritten \/ lay.codecChecks)
=============================================================================
