------------------------------ MODULE NamesMC ------------------------------
(* Design check + generator for C16: every name up to MaxComps components.  *)
EXTENDS Names, Json, IOUtils, SequencesExt

CONSTANT MaxComps, Fixed     \* Fixed: which transcription matches the tree under test

VARIABLES name, phase, verdict
vars == <<name, phase, verdict>>

SeqsUpTo(S, n) == UNION { [1..k -> S] : k \in 1..n }

(* a leading empty component is expressed by lead, so comps[1] is never "" *)
AllNames == { [lead |-> l, comps |-> cs, trail |-> t] : l \in 0..2, cs \in { c \in SeqsUpTo(Alphabet, MaxComps) : c[1] # "" }, t \in BOOLEAN }

Algo(n) == AlgoVerdictProbe(n) /\ (Fixed => AlgoVerdictFixed(n))

Init == name \in AllNames /\ phase = "offered" /\ verdict = FALSE
Check == /\ phase = "offered" /\ phase' = "judged"
         /\ verdict' = Algo(name) /\ UNCHANGED name
Next == Check
Spec == Init /\ [][Next]_vars

(* C16 first sentence *)
VerdictRight == phase = "judged" => verdict = SpecVerdict(name)
(* accepted names are stored without '..' above the root and never absolute *)
StoredRelative == (phase = "judged" /\ verdict) => Climb(StoredComps(name), 0)
(* second sentence: whatever the source path, the sanitised arcname is not absolute *)
SanitizedRelative == Sanitized(name).lead = 0

Emit == IOEnv.OUT_FILE # "" =>
          JsonSerialize(IOEnv.OUT_FILE,
             SetToSeq({ [lead |-> n.lead, comps |-> n.comps, trail |-> n.trail, spec |-> SpecVerdict(n), algo |-> Algo(n)] : n \in AllNames }))
ASSUME Emit
=============================================================================
