---- MODULE IntegrityMC ----
EXTENDS Integrity
M23 == <<2, 3>>
====
