SPECIFICATION Spec
CONSTANT MaxCalls = 3
CONSTANT MaxSessions = 2
CONSTANT MaxFaults = 1
CONSTANT Rollback = TRUE
INVARIANT InStep
INVARIANT NoRetry
INVARIANT Committed
PROPERTY FaultRaised
PROPERTY AppendOnly
CHECK_DEADLOCK FALSE
