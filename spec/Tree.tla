-------------------------------- MODULE Tree --------------------------------
(***************************************************************************)
(* C02: archiving a directory tree and extracting it reproduces the tree.  *)
(*                                                                         *)
(* A tree is a sequence of nodes [k, p, t]: kind "dir" | "file" | "empty"  *)
(* | "link", parent index (0 = the root directory being archived), link    *)
(* target index.  Parents come before children.                            *)
(*   Walk(T, deref)    the member list writeall produces: the root, then   *)
(*                     depth first with children in listing order; a link  *)
(*                     is stored as a link WITH ITS OWN TARGET (also when  *)
(*                     that is another link), or - dereferenced - as what  *)
(*                     the chain finally leads to (a directory is walked)  *)
(*   Materialise(ms)   the tree extraction builds from a member list       *)
(*   Expected(T, d)    the source tree, links replaced when dereferencing  *)
(***************************************************************************)
EXTENDS Naturals, Integers, Sequences, FiniteSets, TLC

Children(T, i) == { j \in 1..Len(T) : T[j].p = i }
RECURSIVE IsAncestor(_, _, _)
IsAncestor(T, a, i) == i # 0 /\ (T[i].p = a \/ IsAncestor(T, a, T[i].p))

(* where a link finally leads: links may point at links (chains); 0 when the chain does not end within Len(T) hops (a cycle) *)
(* A link's target is a node, or 0: the root directory itself (upward-but-inside).  -1: no target yet / the chain never ends.      *)
RECURSIVE ResolveF(_, _, _)
ResolveF(T, i, fuel) == IF i = 0 THEN 0
                        ELSE IF T[i].k # "link" THEN i
                        ELSE IF fuel = 0 \/ T[i].t = -1 THEN -1
                        ELSE ResolveF(T, T[i].t, fuel - 1)
Resolve(T, i) == ResolveF(T, i, Len(T))

WellFormed(T) ==
  /\ \A i \in 1..Len(T) : /\ T[i].p < i /\ (T[i].p # 0 => T[T[i].p].k = "dir")
                          /\ (T[i].k = "link" => /\ T[i].t \in 0..Len(T) /\ T[i].t # i
                                                 /\ Resolve(T, i) # -1)                   \* chains end somewhere (ancestors and the root are allowed:
                                                                                          \*  stored as links they are harmless, followed they loop - see Acyclic)
                          /\ (T[i].k # "link" => T[i].t = 0)

(* Dereferencing is only meaningful when following links never comes back: the graph "directory -> child, link -> target" is acyclic. *)
(* (Two directories linking to each other sideways are a legal tree, stored link by link; followed, they unfold without end.)        *)
Edge(T, i, j) == T[j].p = i \/ (T[i].k = "link" /\ T[i].t = j) \/ (T[i].k = "link" /\ T[i].t = 0 /\ T[j].p = 0)   \* a link to the root reaches every top-level node
RECURSIVE ReachFrom(_, _, _)
ReachFrom(T, S, n) == IF n = 0 THEN S ELSE ReachFrom(T, S \cup { j \in 1..Len(T) : \E i \in S : Edge(T, i, j) }, n - 1)
Acyclic(T) == \A i \in 1..Len(T) : i \notin ReachFrom(T, { j \in 1..Len(T) : Edge(T, i, j) }, Len(T))

(* a member: path = sequence of node indices from the root, what = kind, src = node whose content / target it carries *)
M(path, what, src) == [path |-> path, what |-> what, src |-> src]

RECURSIVE WalkNode(_, _, _, _, _)
RECURSIVE WalkSet(_, _, _, _, _)
(* walk node i reached under `prefix`; fuel bounds the expansion of dereferenced directory links *)
WalkNode(T, i, prefix, deref, fuel) ==
  LET path == Append(prefix, i) IN
  IF T[i].k = "link" /\ ~deref THEN <<M(path, "link", T[i].t)>>
  ELSE LET n == IF T[i].k = "link" THEN Resolve(T, i) ELSE i IN   \* what it denotes (through a chain of links)
       IF T[n].k = "dir"
       THEN IF fuel = 0 THEN <<M(path, "dir", n)>>
            ELSE <<M(path, "dir", n)>> \o WalkSet(T, Children(T, n), path, deref, fuel - 1)
       ELSE <<M(path, T[n].k, n)>>
WalkSet(T, S, prefix, deref, fuel) ==
  IF S = {} THEN <<>>
  ELSE LET i == CHOOSE x \in S : \A y \in S : x <= y          \* listing order (sorted names = index order)
       IN  WalkNode(T, i, prefix, deref, fuel) \o WalkSet(T, S \ {i}, prefix, deref, fuel)

Walk(T, deref) == WalkSet(T, Children(T, 0), <<>>, deref, Len(T))

(* extraction: one object per member at its path *)
Materialise(ms) == { [path |-> ms[k].path, what |-> ms[k].what, src |-> ms[k].src] : k \in 1..Len(ms) }

RECURSIVE ExpectNode(_, _, _, _, _)
RECURSIVE ExpectSet(_, _, _, _, _)
ExpectNode(T, i, prefix, deref, fuel) ==
  LET path == Append(prefix, i)
      n == IF T[i].k = "link" /\ deref THEN Resolve(T, i) ELSE i IN
  IF T[n].k = "link" THEN {M(path, "link", T[n].t)}
  ELSE IF T[n].k = "dir" THEN {M(path, "dir", n)} \cup (IF fuel = 0 THEN {} ELSE ExpectSet(T, Children(T, n), path, deref, fuel - 1))
  ELSE {M(path, T[n].k, n)}
ExpectSet(T, S, prefix, deref, fuel) == UNION { ExpectNode(T, i, prefix, deref, fuel) : i \in S }
Expected(T, deref) == ExpectSet(T, Children(T, 0), <<>>, deref, Len(T))

RoundTrip(T, deref) == Materialise(Walk(T, deref)) = Expected(T, deref)
(* every member's parent directory is a member too and comes earlier (extraction never needs a missing parent) *)
ParentsFirst(T, deref) ==
  LET ms == Walk(T, deref) IN
  \A k \in 1..Len(ms) : Len(ms[k].path) > 1 =>
     \E j \in 1..(k - 1) : ms[j].path = SubSeq(ms[k].path, 1, Len(ms[k].path) - 1) /\ ms[j].what = "dir"
=============================================================================
