----------------------------- MODULE TraceCrypto -----------------------------
(* Code -> spec binding for C11.  One trace = one write session + readings:   *)
(*   cfg    {pw, aes, hdrenc}                  constructor arguments          *)
(*   set    {which: encrypted|encoded, m}      setter calls in order          *)
(*   facts  {raw_content, raw_names, nokey_content, nokey_names, mode,        *)
(*           iv_fresh, cipher_fresh, folders_aes}  derived from the bytes      *)
(*   read   {pwkind: right|absent|wrong, opened, listed, delivered_good,      *)
(*           delivered_bad, exc}                                              *)
EXTENDS Crypto, Json, IOUtils, TLCExt
Traces == JsonDeserialize(IOEnv.TRACE_FILE)
Explain == IOEnv.EXPLAIN = "1"
VARIABLES tid, l
tvars == <<vars, tid, l>>
Ev == Traces[tid][l]
TInit == /\ tid \in 1..Len(Traces) /\ l = 2
         /\ pw = Traces[tid][1].pw /\ aes = Traces[tid][1].aes /\ hdrenc = Traces[tid][1].hdrenc
         /\ encoded = TRUE /\ closed = FALSE /\ nsets = 0
IsEvent(name) == l <= Len(Traces[tid]) /\ Ev.e = name /\ l' = l + 1 /\ tid' = tid
TSet == /\ IsEvent("set") /\ nsets' = 0
        /\ IF Ev.which = "encrypted"
           THEN (IF Ev.m THEN encoded' = TRUE /\ hdrenc' = TRUE ELSE hdrenc' = FALSE /\ UNCHANGED encoded)
           ELSE (IF Ev.m THEN encoded' = TRUE /\ UNCHANGED hdrenc ELSE encoded' = FALSE /\ hdrenc' = FALSE)
        /\ UNCHANGED <<pw, aes, closed>>
TFacts == /\ IsEvent("facts") /\ ~closed /\ closed' = TRUE
          /\ Ev.mode = HeaderMode                                            \* the header was written the way the configuration says
          /\ ContentProtected => (~Ev.raw_content /\ ~Ev.nokey_content)      \* neither the bytes nor a keyless decode show the contents
          /\ ContentProtected => Ev.folders_aes                              \* every folder that holds data has a 7zAES coder (also behind an encrypted header)
          /\ NamesProtected => (~Ev.raw_names /\ ~Ev.nokey_names)            \* ... nor the member names
          /\ (ContentProtected \/ NamesProtected) => (Ev.iv_fresh /\ Ev.cipher_fresh)   \* no IV / ciphertext shared with the twin archive
          /\ UNCHANGED <<pw, aes, encoded, hdrenc, nsets>>
TRead == /\ IsEvent("read") /\ closed
         /\ Ev.delivered_bad = 0                                             \* never bytes that differ from the original
         /\ CASE Ev.pwkind = "right" -> Ev.opened /\ Ev.exc = "none"
              [] Ev.pwkind = "absent" ->
                   /\ (NamesProtected => ~Ev.opened /\ Ev.exc = "PasswordRequired")
                   /\ (ContentProtected => Ev.delivered_good = 0 /\ Ev.exc = "PasswordRequired")
              [] Ev.pwkind = "wrong" ->
                   /\ (NamesProtected => ~Ev.listed)                         \* names do not come out with a wrong password
                   /\ (ContentProtected \/ NamesProtected) => (Ev.delivered_good = 0 /\ Ev.exc # "none")
         /\ UNCHANGED vars
TNext == TSet \/ TFacts \/ TRead
TSpec == TInit /\ [][TNext]_tvars
Done == /\ (l = Len(Traces[tid]) + 1) => PrintT(<<"ACC", tid>>)
        /\ Explain => PrintT(<<"AT", tid, l>>)
=============================================================================
