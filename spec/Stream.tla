------------------------------- MODULE Stream -------------------------------
(***************************************************************************)
(* The chunked decode pipeline of one folder, at the level of byte COUNTS: *)
(*   Worker.decompress            loop "while out_remaining > 0"           *)
(*   SevenZipDecompressor.decompress   _buf/_pos carry-over, max_length    *)
(*   SevenZipDecompressor._read_data   min(rest, block) input reads        *)
(* The decoder chain is an arbitrary FIFO transformer: after c packed      *)
(* bytes it can have produced any amount up to what the stream holds;      *)
(* a decoder that honours max_length never returns more than asked, one    *)
(* that ignores it (Deflate, Deflate64, ZStandard, Brotli, Copy, BCJ...)   *)
(* returns whatever the input block expands to.                            *)
(*                                                                         *)
(* Serves C01 (every member receives exactly its bytes, in order, for      *)
(* every chunking), C05 (the loop ends for every input: conforming         *)
(* streams deliver, short streams raise), C20 (what py7zr itself parks in  *)
(* memory is bounded by the chunk limit plus one input block's expansion). *)
(***************************************************************************)
EXTENDS Naturals, Sequences, FiniteSets, TLC

CONSTANTS Params,      \* set of parameter records, one is chosen at Init (so that one TLC run covers all of them):
                       \*   sizes    Seq of member sizes of the solid block (declared unpack sizes)
                       \*   pack     packed size of the folder
                       \*   block    input read block (get_default_blocksize)
                       \*   limit    extraction chunk limit (get_memory_limit)
                       \*   honours  the last decoder honours max_length
                       \*   slack    ... up to a constant overshoot (Brotli's soft limit, one Deflate64 input slice); 0 = exactly
                       \*   drains   the glue asks a decoder that still holds data for more before it reads the next block
                       \*            (repaired tree); FALSE: it reads a block on every call (tree before the repair)
                       \*   short    hostile stream: the packed data holds `short` fewer plain bytes than declared
          StallMax,    \* Worker.decompress gives up after this many fruitless calls on exhausted input
          Guarded      \* FALSE: the loop before the repair (no stall counter) - used as negative control

VARIABLE p
Sizes == p.sizes
PackSize == p.pack
Block == p.block
Limit == p.limit
Honours == p.honours
Short == p.short
Slack == p.slack
Drains == p.drains

Min(a, b) == IF a < b THEN a ELSE b
RECURSIVE Sum(_)
Sum(s) == IF s = <<>> THEN 0 ELSE Head(s) + Sum(Tail(s))
Total == Sum(Sizes)
Plain == Total - Short        \* plain bytes the packed stream really holds

VARIABLES mi,          \* index of the member being delivered (1..Len(Sizes)+1)
          remaining,   \* out_remaining of the current member
          delivered,   \* Seq: bytes delivered per member
          consumed,    \* packed bytes read from the archive file
          decoded,     \* plain bytes the decoder chain has emitted so far
          held,        \* plain bytes decoded from the consumed input but still inside the decoders
          buf,         \* len(_buf) - _pos : decoded bytes parked between calls
          stalled,
          outcome,     \* "running" | "done" | "raised"
          last         \* observation of the last decompress call: [m, res, tmp, d]

vars == <<p, mi, remaining, delivered, consumed, decoded, held, buf, stalled, outcome, last>>

Init == /\ p \in Params
        /\ mi = 1 /\ remaining = (IF Len(p.sizes) > 0 THEN p.sizes[1] ELSE 0)
        /\ delivered = [i \in 1..Len(p.sizes) |-> 0]
        /\ consumed = 0 /\ decoded = 0 /\ held = 0 /\ buf = 0 /\ stalled = 0
        /\ outcome = (IF Len(p.sizes) = 0 THEN "done" ELSE "running") /\ last = [m |-> 0, res |-> 0, tmp |-> 0, d |-> 0]

(* What the decoder chain may return for d new packed bytes and limit m. *)
(* It has seen consumed+d packed bytes; everything is decodable once the whole stream has been fed. *)
Avail(c) == IF c >= PackSize THEN Plain ELSE (Plain * c) \div PackSize     \* plain bytes determined by the first c packed bytes (any monotone map would do)

DecoderReturns(d, m) ==
  LET pending == Avail(consumed + d) - decoded           \* decodable now, not yet emitted
  IN  IF Honours THEN { t \in 0..Min(pending, m + Slack) : (pending > 0 /\ m > 0) => t > 0 }    \* at most m (+ slack), progress when it can
      ELSE { pending }                                                               \* everything the input decodes to

(* one iteration of Worker.decompress: tmp = decompressor.decompress(fp, min(out_remaining, max_block_size)) *)
Step == /\ outcome = "running" /\ mi <= Len(Sizes) /\ remaining > 0
        /\ LET m == Min(remaining, Limit) IN
           IF buf >= m
           THEN \* enough parked data: no read, no decoder call
                /\ buf' = buf - m
                /\ last' = [m |-> m, res |-> m, tmp |-> 0, d |-> 0]
                /\ remaining' = remaining - m
                /\ delivered' = [delivered EXCEPT ![mi] = @ + m]
                /\ stalled' = 0
                /\ UNCHANGED <<consumed, decoded, held>>
           ELSE \* the decoders are asked only for what the parked bytes do not cover (so an overshoot is not added to them call after call)
                \E d \in {IF Drains /\ held > 0 THEN 0 ELSE Min(PackSize - consumed, Block)} : \E t \in DecoderReturns(d, m - buf) :
                  LET res == IF buf + t <= m THEN buf + t ELSE m IN
                  /\ consumed' = consumed + d
                  /\ decoded' = decoded + t
                  /\ held' = Avail(consumed + d) - (decoded + t)
                  /\ buf' = buf + t - res
                  /\ last' = [m |-> m, res |-> res, tmp |-> t, d |-> d]
                  /\ remaining' = remaining - res
                  /\ delivered' = [delivered EXCEPT ![mi] = @ + res]
                  /\ stalled' = IF res > 0 THEN 0
                                ELSE IF Guarded /\ consumed + d >= PackSize /\ buf = 0 THEN stalled + 1 ELSE stalled
        /\ UNCHANGED <<p, mi, outcome>>

(* the member is complete: next member of the solid block, same decoder *)
NextMember == /\ outcome = "running" /\ mi <= Len(Sizes) /\ remaining = 0
              /\ mi' = mi + 1
              /\ remaining' = IF mi + 1 <= Len(Sizes) THEN Sizes[mi + 1] ELSE 0
              /\ outcome' = IF mi + 1 > Len(Sizes) THEN "done" ELSE "running"
              /\ UNCHANGED <<p, delivered, consumed, decoded, held, buf, stalled, last>>

GiveUp == /\ outcome = "running" /\ stalled > StallMax
          /\ outcome' = "raised"
          /\ UNCHANGED <<p, mi, remaining, delivered, consumed, decoded, held, buf, stalled, last>>

Next == (Step /\ stalled <= StallMax) \/ NextMember \/ GiveUp
Spec == Init /\ [][Next]_vars /\ WF_vars(Next)

---------------------------------------------------------------------------
(* C01: a chunk never exceeds what was asked; at the end every member has exactly its size *)
ChunkBound == last.res <= last.m
Exact      == outcome = "done" => \A i \in 1..Len(Sizes) : delivered[i] = Sizes[i]
NoOverrun  == \A i \in 1..Len(Sizes) : delivered[i] <= Sizes[i]
InOrder    == \A i \in 1..Len(Sizes) : (i > mi => delivered[i] = 0)
Conserved  == Sum(delivered) + buf = decoded                      \* nothing lost, nothing duplicated in the carry-over
(* C20: what py7zr parks is bounded by the chunk limit (honouring decoders) or one block's expansion *)
ExpBlock   == (Plain * Block) \div PackSize + 1                  \* what one input block can expand to
BufBound   == buf <= (IF Honours THEN Slack ELSE Limit + ExpBlock)   \* honouring decoders: at most one call's overshoot stays parked
(* C20: the memory the pipeline holds at any moment - the input block just read, packed bytes taken from the file but still  *)
(* inside the decoders, the decoders' output of this call, the carry-over, the chunk handed out - stays within a budget that  *)
(* depends on the chunk limit, the block size and the overshoot constant only: not on the member's size, not on its ratio.    *)
Needed(x) == IF x = 0 THEN 0 ELSE CHOOSE c \in 0..PackSize : Avail(c) >= x /\ \A c2 \in 0..(c - 1) : Avail(c2) < x
InHeld     == consumed - Needed(decoded)                          \* packed bytes read ahead of what has been decoded
Budget     == 3 * Limit + 2 * Slack + 2 * Block
Resident   == last.d + InHeld + last.tmp + buf + last.res
MemBound   == Resident <= Budget
InputBound == InHeld <= Block
OutBound   == last.tmp <= (IF Honours THEN last.m + Slack ELSE Block)   \* a call's decoder output: at most the request (+ overshoot), or (1:1 coders) the block
(* a conforming stream is never rejected *)
NoFalseAlarm == (Short = 0) => outcome # "raised"
(* C05: the loop ends: with everything delivered, or with an exception when the stream is short *)
Terminates == <>(outcome \in {"done", "raised"})
ShortRaises == (Short > 0) => [](outcome # "done")
=============================================================================
