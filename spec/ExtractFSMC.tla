----------------------------- MODULE ExtractFSMC -----------------------------
EXTENDS ExtractFS

NamesFull == { <<"a">>, <<"b">>, <<"a", "c">>, <<"b", "a">>, <<"b", "a", "c">>, <<"b", "a", "c", "e">>,
               <<"..", "x">>, <<"a", "..", "..", "x">>, <<"/", "a">>, <<"/", "O", "x">>, <<"J", "a">>, <<".", "a">>, <<"a", "..", "b">> }
Targets == { <<".">>, <<"..">>, <<"..", "..">>, <<"a">>, <<"a", "..">>, <<"/", "J", "a">>, <<"/", "O">>, <<"c">>, <<"..", "Jx">> }
E(n, k, t) == [name |-> n, kind |-> k, tgt |-> t]
EntriesOf(names, targets) == { E(n, "file", <<>>) : n \in names } \cup { E(n, "dir", <<>>) : n \in names }
                             \cup { E(n, "link", t) : n \in names, t \in targets }
Full == EntriesOf(NamesFull, Targets)
NamesRed == { <<"b", "a">>, <<"b", "a", "c">>, <<"b", "a", "c", "e">>, <<"a">>, <<"a", "c">> }
Red == { E(n, "file", <<>>) : n \in NamesRed } \cup { E(n, "link", t) : n \in NamesRed, t \in { <<".">>, <<"..">>, <<"..", "..">>, <<"..", "Jx">> } }

Len1 == { <<e>> : e \in Full }
Len2 == { <<e1, e2>> : e1 \in Full, e2 \in Full }
Len3Red == { <<e1, e2, e3>> : e1 \in Red, e2 \in Red, e3 \in Red }
QuickArchives == Len1 \cup Len2 \cup Len3Red
(* known escapes of the unguarded extraction: the negative control *)
NegArchives == { << E(<<"b", "a">>, "link", <<"..">>), E(<<"b", "a", "c">>, "link", <<"..">>), E(<<"b", "a", "c", "e">>, "file", <<>>) >>,
                 << E(<<"a">>, "link", <<".">>), E(<<"a", "..", "b">>, "link", <<"a">>) >>,
                 << E(<<"b", "a">>, "link", <<"..">>), E(<<"b", "a", "c">>, "link", <<"..", "Jx">>), E(<<"b", "a", "c", "e">>, "file", <<>>) >> }
=============================================================================
