------------------------------- MODULE Crypto -------------------------------
(***************************************************************************)
(* C11: what a write session protects and what a reader gets without the   *)
(* right password.                                                         *)
(*                                                                         *)
(* Configuration machine of a write session:                               *)
(*   pw       a password was given to the constructor                      *)
(*   aes      the filter chain ends in 7zAES (explicitly, or by default    *)
(*            when a password is given without filters)                    *)
(*   encoded  SevenZipFile.encoded_header_mode  (initially TRUE)           *)
(*   hdrenc   SevenZipFile.header_encryption    (constructor flag)         *)
(* and the setters set_encrypted_header(m), set_encoded_header_mode(m).    *)
(* At close the header is AES-encoded iff hdrenc, LZMA-encoded iff         *)
(* encoded /\ ~hdrenc, raw otherwise.                                      *)
(***************************************************************************)
EXTENDS Naturals, Sequences, TLC

VARIABLES pw, aes, encoded, hdrenc, closed, nsets
vars == <<pw, aes, encoded, hdrenc, closed, nsets>>

Init == /\ pw \in BOOLEAN /\ aes \in BOOLEAN /\ (aes => pw)
        /\ encoded = TRUE /\ hdrenc \in BOOLEAN /\ (hdrenc => pw)          \* the constructor flag
        /\ closed = FALSE /\ nsets = 0

SetEncrypted(m) == /\ ~closed /\ nsets < 3 /\ nsets' = nsets + 1
                   /\ (m => pw)                                            \* encrypting a header needs a password
                   /\ IF m THEN encoded' = TRUE /\ hdrenc' = TRUE ELSE hdrenc' = FALSE /\ UNCHANGED encoded
                   /\ UNCHANGED <<pw, aes, closed>>
SetEncoded(m) == /\ ~closed /\ nsets < 3 /\ nsets' = nsets + 1
                 /\ IF m THEN encoded' = TRUE /\ UNCHANGED hdrenc ELSE encoded' = FALSE /\ hdrenc' = FALSE
                 /\ UNCHANGED <<pw, aes, closed>>
Close == ~closed /\ closed' = TRUE /\ UNCHANGED <<pw, aes, encoded, hdrenc, nsets>>
Next == (\E m \in BOOLEAN : SetEncrypted(m) \/ SetEncoded(m)) \/ Close
Spec == Init /\ [][Next]_vars

HeaderMode == IF hdrenc THEN "aes" ELSE IF encoded THEN "lzma" ELSE "raw"
NamesProtected == hdrenc
ContentProtected == aes

(* an encrypted header is always an encoded one; encryption never happens without a password *)
Consistent == (hdrenc => encoded) /\ (hdrenc => pw) /\ (aes => pw)
=============================================================================
