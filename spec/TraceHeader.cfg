SPECIFICATION Spec
CONSTANT DirFallback = TRUE
CONSTRAINT Done
CHECK_DEADLOCK FALSE
