------------------------------ MODULE HeaderMC ------------------------------
(* Design check + generator for C06: every layout within the bounds.         *)
EXTENDS Header, Json, IOUtils, SequencesExt

CONSTANTS MaxFiles, MaxFolders
FileKinds == { [k |-> kk, attr |-> a] : kk \in {"file", "dir", "empty"}, a \in BOOLEAN }
FolderKinds == { [n |-> nn, crc |-> c] : nn \in 0..3, c \in {"sub", "folder", "none"} }
SeqsUpTo(S, n) == UNION { [1..k -> S] : k \in 0..n }

Layouts == { L \in [files : SeqsUpTo(FileKinds, MaxFiles), folders : SeqsUpTo(FolderKinds, MaxFolders), omitnum : BOOLEAN, nosub : BOOLEAN,
                    efvec : {"auto", "always"}] : WellFormedLayout(L) }

VARIABLES lay, got
vars == <<lay, got>>
Init == lay \in Layouts /\ got = <<>>
Read == got = <<>> /\ Len(lay.files) > 0 /\ got' = ReaderAlgo(lay) /\ UNCHANGED lay
Next == Read
Spec == Init /\ [][Next]_vars

(* C06: names, kinds, folder assignment, CRC knowledge as the format defines them *)
Conforms == got # <<>> => got = Sem(lay)

ASSUME IOEnv.OUT_FILE # "" =>
  JsonSerialize(IOEnv.OUT_FILE, SetToSeq({ [lay |-> L, sem |-> Sem(L)] : L \in Layouts }))
=============================================================================
