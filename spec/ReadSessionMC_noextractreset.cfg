SPECIFICATION Spec
CONSTANT Archives <- MCArchives
CONSTANT MaxCalls = 3
CONSTANT ExtractResets <- FalseDef
CONSTANT WriteGuarded = TRUE
CONSTANT TestZipResets = TRUE
INVARIANT Restriction
INVARIANT Repeatable
PROPERTY Untouched
CHECK_DEADLOCK FALSE
