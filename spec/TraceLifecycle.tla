--------------------------- MODULE TraceLifecycle ---------------------------
(* Code -> spec binding for Lifecycle.tla.  One trace = one object:           *)
(*   open  {mode, via}                                                        *)
(*   call  {k: list|decode|test|write|setter|close, raised, same}             *)
(*         same = the archive's bytes are what they were before the session   *)
(*   final {members, ok, same}   what a FRESH reader finds afterwards:        *)
(*         member count (-1: unreadable), names in order and bytes as written *)
EXTENDS Lifecycle, Json, IOUtils, TLCExt

Traces == JsonDeserialize(IOEnv.TRACE_FILE)
Explain == IOEnv.EXPLAIN = "1"

VARIABLES tid, l
tvars == <<vars, tid, l>>
Ev == Traces[tid][l]

TInit == tid \in 1..Len(Traces) /\ l = 1 /\ Init
IsEvent(name) == l <= Len(Traces[tid]) /\ Ev.e = name /\ l' = l + 1 /\ tid' = tid

TOpen == IsEvent("open") /\ l = 1 /\ mode = Ev.mode /\ via = Ev.via /\ UNCHANGED vars

Act(k) == CASE k = "list" -> List [] k = "decode" -> Decode [] k = "test" -> Test [] k = "write" -> Write [] k = "setter" -> Setter [] k = "close" -> Close

(* a write call that failed on an open writer belongs to C15 (WriteSession): here it only must not count as a member *)
FailedWrite == Ev.k = "write" /\ Ev.raised /\ phase = "open" /\ mode # "r"

TCall == /\ IsEvent("call")
         /\ IF FailedWrite THEN Inert("write") ELSE Act(Ev.k)
         /\ (mode = "r" => Ev.same)                        \* C12: not a byte changed, at once, whatever was called, open or closed
         /\ (last'.raised # Ev.raised => PrintT(<<"DRIFT", tid>>))     \* refusing / not refusing is the model's guess, not a property

TFinal == /\ IsEvent("final") /\ phase = "closed"
          /\ Ev.members = disk.members                     \* C08 / C01: what was there plus what was added, nothing else
          /\ Ev.ok                                         \* names in order, bytes as written
          /\ (mode = "r" => Ev.same)
          /\ UNCHANGED vars

TNext == TOpen \/ TCall \/ TFinal
TSpec == TInit /\ [][TNext]_tvars

Done == /\ (l = Len(Traces[tid]) + 1) => PrintT(<<"ACC", tid>>)
        /\ Explain => PrintT(<<"AT", tid, l>>)
=============================================================================
