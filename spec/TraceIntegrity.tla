--------------------------- MODULE TraceIntegrity ---------------------------
(* Code -> spec binding for C04.  One trace = one (possibly damaged) image   *)
(* of a sample archive read through every path:                              *)
(*   img  {region, damage, intact}                                           *)
(*   out  {path, outcome, verdict}   outcome: error | same | different | hang *)
(*        verdict (test/testzip): good | bad | none                          *)
(* "same": every member that was delivered has its original name and bytes.  *)
EXTENDS Naturals, Sequences, TLC, Json, IOUtils, TLCExt

Traces == JsonDeserialize(IOEnv.TRACE_FILE)
Explain == IOEnv.EXPLAIN = "1"
VARIABLES tid, l, intact, full   \* full: outcome of extractall on this image ("?" until seen)
vars == <<tid, l, intact, full>>
Ev == Traces[tid][l]
Init == tid \in 1..Len(Traces) /\ l = 1 /\ intact = FALSE /\ full = "?"
IsEvent(name) == l <= Len(Traces[tid]) /\ Ev.e = name /\ l' = l + 1 /\ tid' = tid

Img == IsEvent("img") /\ l = 1 /\ intact' = Ev.intact /\ UNCHANGED full

Out == /\ IsEvent("out")
       /\ Ev.outcome # "different"                                   \* never success with different content
       /\ (intact => Ev.outcome = "same")                            \* an intact archive reads without error ...
       /\ (intact /\ Ev.path \in {"test", "testzip"} => Ev.verdict \in {"good", "none"})    \* ... and is not reported damaged
       \* an integrity call never certifies an image whose members would not extract to their original bytes
       /\ (Ev.path \in {"test", "testzip"} /\ Ev.verdict = "good") => full \in {"same"}
       /\ full' = IF Ev.path = "extractall" THEN Ev.outcome ELSE full
       /\ UNCHANGED intact

Next == Img \/ Out
Spec == Init /\ [][Next]_vars
Done == /\ (l = Len(Traces[tid]) + 1) => PrintT(<<"ACC", tid>>)
        /\ Explain => PrintT(<<"AT", tid, l>>)
=============================================================================
