SPECIFICATION Spec
CONSTANT Archives <- QuickArchives
CONSTANT Dests = {"abs", "none"}
CONSTANT Guarded = FALSE
CONSTANT Fuel = 6
INVARIANT NoEscape
INVARIANT OutsideUntouched
CHECK_DEADLOCK FALSE
