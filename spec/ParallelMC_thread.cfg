SPECIFICATION Spec
CONSTANT NF = 3
CONSTANT Sizes <- S212
CONSTANT Damaged = {}
CONSTANT Mode = "thread"
CONSTANT ChildSeesQueues = TRUE
CONSTANT JoinWaits = TRUE
CONSTANT WithCallback = FALSE
INVARIANT Deterministic
INVARIANT ErrorReachesCaller
INVARIANT Ordered
INVARIANT Complete
INVARIANT NoneAfterClose
INVARIANT CloseNeverFails
PROPERTY Terminates
CHECK_DEADLOCK FALSE
