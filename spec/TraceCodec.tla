---------------------------- MODULE TraceCodec ----------------------------
(* Code -> spec binding for C17: events recorded from py7zr's primitives    *)
(* (write_uint64, read_uint64, write_boolean, read_boolean, write_utf16,    *)
(* read_utf16, Header.write/Header.retrieve) are accepted only if they are  *)
(* steps the specification allows.                                          *)
EXTENDS Codec, Json, IOUtils, TLCExt

Traces == JsonDeserialize(IOEnv.TRACE_FILE)
Explain == IOEnv.EXPLAIN = "1"

VARIABLES tid, l, cur
vars == <<tid, l, cur>>

None == [v |-> <<>>, enc |-> <<>>]
Ev == Traces[tid][l]

Init == tid \in 1..Len(Traces) /\ l = 1 /\ cur = None

IsEvent(name) == l <= Len(Traces[tid]) /\ Ev.e = name /\ l' = l + 1 /\ tid' = tid

IsByteSeq(s) == \A i \in 1..Len(s) : s[i] \in 0..255

WNum == /\ IsEvent("wnum")
        /\ Len(Ev.v) = 8 /\ IsByteSeq(Ev.v) /\ IsByteSeq(Ev.enc)
        /\ Len(Ev.enc) <= 9
        /\ Ev.enc \in SpecEncodings(Ev.v)
        /\ cur' = [v |-> Ev.v, enc |-> Ev.enc]

RNum == /\ IsEvent("rnum")
        /\ SpecWellFormed(Ev.enc)
        /\ Ev.dec = SpecDecode(Ev.enc)
        /\ (cur.enc = Ev.enc => Ev.dec = cur.v)
        /\ cur' = None

WBool == /\ IsEvent("wbool")
         /\ Ev.enc \in SpecBoolEncodings(Ev.bits, Ev.alldef)
         /\ cur' = [v |-> Ev.bits, enc |-> Ev.enc]

(* reader side: enc is conforming when its all-defined byte is 0/1 and it has the right length *)
RBool == /\ IsEvent("rbool")
         /\ LET conf == \/ ~Ev.checkall /\ Len(Ev.enc) = VecLen(Ev.count)
                        \/ Ev.checkall /\ Ev.enc = <<1>>
                        \/ Ev.checkall /\ Len(Ev.enc) = 1 + VecLen(Ev.count) /\ Ev.enc[1] = 0
            IN  /\ conf
                /\ Len(Ev.dec) = Ev.count
                /\ Ev.used = Len(Ev.enc)                                    \* consumes exactly the vector, not what follows it
                /\ Ev.dec = ReadBoolAlgo(Ev.enc, Ev.count, Ev.checkall)    \* for conforming input the algorithm IS the definition
                /\ (cur.enc = Ev.enc /\ Len(cur.v) = Ev.count => Ev.dec = cur.v)
         /\ cur' = None

WName == /\ IsEvent("wname")
         /\ Ev.enc = NameBytes(Ev.cps)
         /\ cur' = [v |-> Ev.cps, enc |-> Ev.enc]

RName == /\ IsEvent("rname")
         /\ Ev.enc = NameBytes(Ev.cps)
         /\ cur' = None

(* whole-header round trip: a field stored in a Header and what Header.retrieve gave back *)
Field == /\ IsEvent("field")
         /\ Ev.loaded = Ev.stored
         /\ cur' = None

Next == WNum \/ RNum \/ WBool \/ RBool \/ WName \/ RName \/ Field
Spec == Init /\ [][Next]_vars

Done == /\ (l = Len(Traces[tid]) + 1) => PrintT(<<"ACC", tid>>)
        /\ Explain => PrintT(<<"AT", tid, l>>)
===========================================================================
