SPECIFICATION Spec
INVARIANT Consistent
CHECK_DEADLOCK FALSE
