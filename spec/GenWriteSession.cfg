SPECIFICATION GSpec
CONSTANT MaxCalls = 3
CONSTANT MaxSessions = 1
CONSTANT MaxFaults = 1
CONSTANT Rollback = TRUE
CONSTRAINT Emit
INVARIANT InStep
INVARIANT NoRetry
INVARIANT Committed
CHECK_DEADLOCK FALSE
