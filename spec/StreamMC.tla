------------------------------ MODULE StreamMC ------------------------------
EXTENDS Stream
SizeLists == { <<3>>, <<0, 2>>, <<2, 0, 1>>, <<1, 3>>, <<4, 1, 1>>, <<>> , <<0>> }
MCParams == { [sizes |-> s, pack |-> pk, block |-> b, limit |-> l, honours |-> h, short |-> sh] :
                s \in SizeLists, pk \in {1, 3, 5}, b \in {1, 2, 4}, l \in {1, 2, 8}, h \in BOOLEAN, sh \in {0, 1, 2} }
Valid == { q \in MCParams : q.short <= Sum(q.sizes) /\ (Sum(q.sizes) = 0 => q.short = 0) }
=============================================================================
