------------------------------ MODULE StreamMC ------------------------------
EXTENDS Stream
SizeLists == { <<3>>, <<0, 2>>, <<2, 0, 1>>, <<1, 3>>, <<4, 1, 1>>, <<>> , <<0>> }
MCParams == { [sizes |-> s, pack |-> pk, block |-> b, limit |-> l, honours |-> h, short |-> sh, slack |-> 0, drains |-> dr] :
                s \in SizeLists, pk \in {1, 3, 5}, b \in {1, 2, 4}, l \in {1, 2, 8}, h \in BOOLEAN, sh \in {0, 1, 2}, dr \in BOOLEAN }
Valid == { q \in MCParams : q.short <= Sum(q.sizes) /\ (Sum(q.sizes) = 0 => q.short = 0) }

(* C20: the big member first, last, between small ones, alone; from highly compressible (pack 1) to incompressible. *)
MemSizes == { <<12>>, <<1, 1, 1, 1, 8>>, <<8, 1, 1, 1>>, <<1, 1, 8, 1, 1>>, <<1, 0, 1, 9>> }
MemBase == { [sizes |-> s, pack |-> pk, block |-> b, limit |-> l, honours |-> h, short |-> 0, slack |-> sl, drains |-> dr] :
               s \in MemSizes, pk \in {1, 2, 6, 12, 14}, b \in {1, 2}, l \in {2, 3}, h \in BOOLEAN, sl \in {0, 1}, dr \in BOOLEAN }
(* the repaired tree: expanding decoders honour the request (exactly or with a constant overshoot) and are drained before     *)
(* the next read; decoders that ignore the request are the 1:1 coders (Copy, BCJ, 7zAES): pack >= plain                       *)
MemRepaired == { q \in MemBase : q.drains /\ (q.honours \/ (q.pack >= Sum(q.sizes) /\ q.slack = 0)) }
(* negative controls: the tree before the repairs *)
MemIgnoring == { q \in MemBase : q.drains /\ ~q.honours /\ q.slack = 0 }      \* Deflate, Deflate64, ZStandard, Brotli returned a whole block's expansion
MemNoDrain  == { q \in MemBase : ~q.drains /\ q.honours }                     \* honouring decoders were fed a new block on every call
=============================================================================
