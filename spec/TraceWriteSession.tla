------------------------- MODULE TraceWriteSession -------------------------
(* Code -> spec binding for C15 / C08 / C01(session level).  A trace is the  *)
(* record of one chain of sessions on one archive:                           *)
(*   base    {members}                   archive produced by another writer  *)
(*   open    {mode}                                                          *)
(*   call    {k, n, fault}               a public write call begins          *)
(*   ret     {exc, nfiles, widx, nsubs, tries, stale}   what it left behind  *)
(*   close   {}                                                              *)
(*   reopen  {ok, members, metas}        read back by py7zr (and refcodec)   *)
(* The internal steps of a call (Check, Register, Archive) are silent.       *)
EXTENDS WriteSession, Json, IOUtils, TLCExt, SequencesExt

Traces == JsonDeserialize(IOEnv.TRACE_FILE)
Explain == IOEnv.EXPLAIN = "1"

VARIABLES tid, l, seen,     \* seen: [n, c, meta] list of the previous successful reopen (metadata must not change)
          seenref,           \* the same as the independent reference reader saw it
          nbase              \* number of members of a foreign base archive (0 otherwise)
tvars == <<vars, tid, l, seen, seenref, nbase>>
Ev == Traces[tid][l]

TInit == Init /\ tid \in 1..Len(Traces) /\ l = 1 /\ seen = <<>> /\ seenref = <<>> /\ nbase = 0
IsEvent(name) == l <= Len(Traces[tid]) /\ Ev.e = name /\ l' = l + 1 /\ tid' = tid
Silent == UNCHANGED <<tid, l, seen, seenref, nbase>>

(* a foreign base: the baseline is what each reader saw BEFORE any append (the two may disagree on kinds - that is C06) *)
TBase == IsEvent("base") /\ Preload(Ev.members) /\ seen' = Ev.metas /\ seenref' = Ev.refmetas /\ nbase' = Len(Ev.members)
TOpen == IsEvent("open") /\ Open /\ UNCHANGED <<seen, seenref, nbase>>
TCall == IsEvent("call") /\ Begin(Ev.k, Ev.n, Ev.fault) /\ UNCHANGED <<seen, seenref, nbase>>

(* the call has returned: compare what the real object shows with the specification state *)
TRet == /\ IsEvent("ret") /\ pc = "idle" /\ st = "open"
        /\ (Ev.exc = "none") = (exc = "none")                 \* the exception reached the caller / no spurious exception
        /\ Ev.nfiles = Len(files)                              \* SevenZipFile.files, header.files_info.files
        /\ Ev.widx = widx                                      \* Worker.current_file_index
        /\ Ev.nsubs = Len(subs)                                \* substreamsinfo.digests
        /\ Ev.stale = 0                                        \* no earlier failed source was touched again
        /\ Ev.tries <= 1                                       \* the call's own source was opened/read at most once
        /\ UNCHANGED <<vars, seen, seenref, nbase>>

TClose == IsEvent("close") /\ Close /\ UNCHANGED <<seen, seenref, nbase>>

(* A-level acceptance of what a reader finds (C15, C01) and history preservation incl. metadata (C08) *)
TReopen == /\ IsEvent("reopen") /\ st = "closed"
           /\ \/ (Ev.ok /\ Ev.members = good)
              \/ (tainted /\ ~Ev.ok)
           /\ Ev.ok => /\ Len(seen) <= Len(Ev.metas)
                       /\ SubSeq(Ev.metas, 1, Len(seen)) = seen
           /\ seen' = IF Ev.ok THEN Ev.metas ELSE seen
           \* the independent reader recovers the same members, and what it saw of earlier sessions is unchanged
           /\ (Ev.ok /\ Ev.ref.present) => /\ Ev.ref.ok
                                           /\ Len(Ev.ref.members) = Len(Ev.members)
                                           /\ SubSeq(Ev.ref.members, nbase + 1, Len(Ev.members)) = SubSeq(Ev.members, nbase + 1, Len(Ev.members))
                                           /\ Len(seenref) <= Len(Ev.ref.metas)
                                           /\ SubSeq(Ev.ref.metas, 1, Len(seenref)) = seenref
           /\ seenref' = IF Ev.ok /\ Ev.ref.present /\ Ev.ref.ok THEN Ev.ref.metas ELSE seenref
           \* the I-level predicts Unreadable after a half-read source; a source that failed before its first byte leaves a
           \* readable archive.  Both are allowed by the property: bind arch to what was observed.
           /\ arch' = IF Ev.ok THEN Ok(Ev.members) ELSE Unreadable
           /\ UNCHANGED <<sess, st, good, tainted, files, subs, widx, folder, pc, call, exc, reads, ncalls, nfaults, nbase>>

TNext == \/ TBase \/ TOpen \/ TCall \/ TRet \/ TClose \/ TReopen
         \/ ((Check \/ Register \/ Archive) /\ Silent)
TSpec == TInit /\ [][TNext]_tvars

Done == /\ (l = Len(Traces[tid]) + 1) => PrintT(<<"ACC", tid>>)
        /\ Explain => PrintT(<<"AT", tid, l>>)
=============================================================================
