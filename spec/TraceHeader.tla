---------------------------- MODULE TraceHeader ----------------------------
(* Code -> spec binding for C06: one trace = one archive written by the       *)
(* reference writer for a layout, read by py7zr:                              *)
(*   lay      the layout (files, folders, omitnum, nosub, efvec)              *)
(*   observed per member: kind, folder (0 = none), crc known, name ok,        *)
(*            size ok, bytes ok                                               *)
(* The observed listing must equal Sem(lay), with the right bytes.            *)
EXTENDS Header, Json, IOUtils, TLCExt
Traces == JsonDeserialize(IOEnv.TRACE_FILE)
Explain == IOEnv.EXPLAIN = "1"
VARIABLES tid, l
vars == <<tid, l>>
Init == tid \in 1..Len(Traces) /\ l = 1
Lay == Traces[tid][1].lay
Obs == Traces[tid][2]
Check == /\ l = 1 /\ l' = 2 /\ UNCHANGED tid
         /\ Obs.ok                                                   \* a valid layout is not rejected
         /\ Len(Obs.members) = Len(Lay.files)
         /\ \A i \in 1..Len(Lay.files) :
              LET s == Sem(Lay)[i]  o == Obs.members[i] IN
              /\ o.kind = s.kind /\ o.folder = s.folder /\ o.crc = s.crc
              /\ o.name /\ o.size /\ o.bytes /\ o.meta
Next == Check
Spec == Init /\ [][Next]_vars
Done == /\ (l = 2) => PrintT(<<"ACC", tid>>)
        /\ Explain => PrintT(<<"AT", tid, l>>)
=============================================================================
