---------------------------- MODULE ReadSession ----------------------------
(***************************************************************************)
(* Read side of a SevenZipFile: one archive, one open session, a sequence  *)
(* of public calls.  Serves C09 (selective extraction = restriction of     *)
(* full extraction), C10 (listings tell the truth), C12 (sessions are      *)
(* repeatable, integrity verdicts right at any point, archive untouched).  *)
(*                                                                         *)
(* Archive (chosen at Init from the constant set Archives):                *)
(*   members  Seq of [kind, folder, pos, parent]                           *)
(*            kind   "file" | "dir" | "empty"                              *)
(*            folder 0 for members without data, else 1..nfolders          *)
(*            pos    position inside the folder's solid block (1..)        *)
(*            parent index of the directory member holding it, 0 = root    *)
(*   damaged  set of folders whose packed data is damaged                  *)
(* Member i's content is identified with i itself.                         *)
(*                                                                         *)
(* I-level state: the per-folder decoder cache (how many substreams the    *)
(* cached decoder has already produced; -1 = no decoder), the worker's     *)
(* target map, what the last call delivered / returned.                    *)
(***************************************************************************)
EXTENDS Naturals, Integers, Sequences, FiniteSets, TLC

CONSTANTS Archives, MaxCalls,
          TestZipResets,     \* TRUE: testzip() drops the cached decoders itself (repaired tree)
          WriteGuarded       \* TRUE: write-side calls on a read-mode object are refused before anything happens (repaired tree);
                             \* FALSE: they compress into the caller's stream (tree before the fix, archive opened from a stream)

VARIABLES a,          \* the archive
          dec,        \* folder -> substreams already produced by the cached decoder, -1 = None
          dirty,      \* some decoding call happened since open/reset (extract after that needs reset)
          targets,    \* member index -> BOOLEAN (registered for delivery) ; <<>> when no plan
          res,        \* result of the last call
          ncalls,
          disk        \* the archive file's bytes, abstractly: a version number that nothing may change

vars == <<a, dec, dirty, targets, res, ncalls, disk>>

N == Len(a.members)
Idx == 1..N
IsData(i) == a.members[i].folder # 0
NFolders == a.nfolders
FolderMembers(f) == { i \in Idx : a.members[i].folder = f }

RECURSIVE Under(_, _)
(* member i lies beneath directory member d *)
Under(i, d) == LET p == a.members[i].parent IN p # 0 /\ (p = d \/ Under(p, d))

NoRes == [call |-> "none", ok |-> TRUE, out |-> {}]

Init == /\ a \in Archives
        /\ dec = [f \in 1..a.nfolders |-> -1]
        /\ dirty = FALSE /\ targets = <<>> /\ res = NoRes /\ ncalls = 0 /\ disk = 0

---------------------------------------------------------------------------
(* A-level: what a call must return on a freshly opened archive *)

Selected(T, recursive) == { i \in Idx : i \in T \/ (recursive /\ \E d \in T : d \in Idx /\ Under(i, d)) }

(* members whose extraction needs a damaged folder *)
NeedsDamaged(S) == \E i \in S : IsData(i) /\ a.members[i].folder \in a.damaged

(* a member precedes a selected one in the same solid block: it is decoded (and CRC-checked) on the way *)
DecodedFor(S) == { j \in Idx : IsData(j) /\ \E i \in S : IsData(i) /\ a.members[j].folder = a.members[i].folder /\ a.members[j].pos <= a.members[i].pos }

FreshExtract(S) == IF \E j \in DecodedFor(S) : a.members[j].folder \in a.damaged
                   THEN [call |-> "extract", ok |-> FALSE, out |-> {}]
                   ELSE [call |-> "extract", ok |-> TRUE, out |-> S]

FreshTestZip == [call |-> "testzip", ok |-> a.damaged = {}, out |-> {}]

---------------------------------------------------------------------------
(* I-level: decode the members of S from folder f with the cached decoder; returns <<ok, dec'[f]>> *)
(* The decoder only moves forward: member at position p can be produced iff the decoder stands at p-1 *)
(* after decode-and-discard of the unselected predecessors.                                            *)
LastPos(f, S) == LET ps == { a.members[i].pos : i \in { j \in S : a.members[j].folder = f } } IN
                 IF ps = {} THEN 0 ELSE CHOOSE m \in ps : \A q \in ps : q <= m

(* Definitions that a configuration may override (CONSTANT X <- Y):                                                        *)
(* ExtractResets  extract()/extractall() drop the cached decoders themselves before decoding (repaired tree: TRUE; the tree   *)
(*                as found continued with whatever the last call had left: a second extract() of a solid folder delivered    *)
(*                the bytes of OTHER members under the requested names, silently where only a folder CRC or none is stored)   *)
(* NeedReset      callers put reset() in front of an extract that follows a decoding call (the property's quantifier;        *)
(*                with ExtractResets nothing depends on it any more)                                                         *)
ExtractResets == TRUE
NeedReset == FALSE

DecodeFolder(d, f, S, upto) ==
  LET start == IF d[f] = -1 THEN 0 ELSE d[f] IN
  IF upto = 0 THEN <<TRUE, d[f]>>                      \* folder skipped
  ELSE IF start # 0 THEN <<FALSE, start>>                \* stale decoder: wrong bytes -> CRC / decoder error
  ELSE IF f \in a.damaged THEN <<FALSE, upto>>
  ELSE <<TRUE, upto>>

DoExtract(S, all) ==
  LET d0 == IF ExtractResets THEN [f \in 1..NFolders |-> -1] ELSE dec
      r == [f \in 1..NFolders |-> DecodeFolder(d0, f, S, IF all THEN Cardinality(FolderMembers(f)) ELSE LastPos(f, S))]
      ok == \A f \in 1..NFolders : r[f][1]
  IN  /\ dec' = [f \in 1..NFolders |-> r[f][2]]
      /\ res' = [call |-> "extract", ok |-> ok, out |-> IF ok THEN S ELSE {}]

Pure(name) == /\ ncalls < MaxCalls /\ ncalls' = ncalls + 1
              /\ res' = [call |-> name, ok |-> TRUE, out |-> {}]
              /\ UNCHANGED <<a, dec, dirty, targets, disk>>

GetNames == Pure("getnames")
List == Pure("list")
ArchiveInfo == Pure("archiveinfo")
NeedsPassword == Pure("needs_password")
GetInfo == Pure("getinfo")

(* extract(targets=T, recursive) / extractall(): allowed by the quantifier only when no decoding call preceded without reset *)
Extract(T, recursive) ==
  /\ ncalls < MaxCalls /\ ncalls' = ncalls + 1 /\ (NeedReset => ~dirty)
  /\ targets' = [i \in Idx |-> i \in Selected(T, recursive)]
  /\ DoExtract(Selected(T, recursive), FALSE)
  /\ dirty' = TRUE
  /\ UNCHANGED <<a, disk>>

ExtractAll ==
  /\ ncalls < MaxCalls /\ ncalls' = ncalls + 1 /\ (NeedReset => ~dirty)
  /\ targets' = [i \in Idx |-> TRUE]
  /\ DoExtract(Idx, FALSE)
  /\ dirty' = TRUE
  /\ UNCHANGED <<a, disk>>

(* testzip(): new worker, every member registered as "decode only", all folders decoded completely *)
TestZip ==
  /\ ncalls < MaxCalls /\ ncalls' = ncalls + 1
  /\ targets' = [i \in Idx |-> FALSE]
  /\ LET d0 == IF TestZipResets THEN [f \in 1..NFolders |-> -1] ELSE dec
         r == [f \in 1..NFolders |->
                 LET start == IF d0[f] = -1 THEN 0 ELSE d0[f]
                     n == Cardinality(FolderMembers(f)) IN
                 IF n = 0 THEN <<TRUE, d0[f]>>
                 ELSE IF start # 0 THEN <<FALSE, start>>
                 ELSE IF f \in a.damaged THEN <<FALSE, n>> ELSE <<TRUE, n>>]
     IN  /\ dec' = [f \in 1..NFolders |-> r[f][2]]
         /\ res' = [call |-> "testzip", ok |-> \A f \in 1..NFolders : r[f][1], out |-> {}]
  /\ dirty' = TRUE
  /\ UNCHANGED <<a, disk>>

(* test(): packed-stream CRCs only, no decoder involved; new worker *)
Test == /\ ncalls < MaxCalls /\ ncalls' = ncalls + 1
        /\ targets' = <<>>
        /\ res' = [call |-> "test", ok |-> TRUE, out |-> {}]       \* verdict: None/True/False by packed CRCs - never an error
        /\ UNCHANGED <<a, dec, dirty, disk>>

Reset == /\ ncalls < MaxCalls /\ ncalls' = ncalls + 1
         /\ dec' = [f \in 1..NFolders |-> -1] /\ dirty' = FALSE /\ targets' = <<>>
         /\ res' = [call |-> "reset", ok |-> TRUE, out |-> {}]
         /\ UNCHANGED <<a, disk>>

(* a write-side call (write, writeall, writef, writestr; the header-mode setters) made on a read-mode object: whether or not it   *)
(* raises, it changes neither the archive nor anything the later read calls depend on                                          *)
WrongMode == /\ ncalls < MaxCalls /\ ncalls' = ncalls + 1
             /\ res' = [call |-> "wrongmode", ok |-> FALSE, out |-> {}]
             /\ disk' = IF WriteGuarded THEN disk ELSE disk + 1
             /\ UNCHANGED <<a, dec, dirty, targets>>

Next == \/ WrongMode
        \/ GetNames \/ List \/ GetInfo \/ ArchiveInfo \/ NeedsPassword \/ Test \/ TestZip \/ Reset \/ ExtractAll
        \/ \E T \in SUBSET (0..N) : \E rec \in BOOLEAN : Extract(T, rec)        \* 0 = a name that is not in the archive

Spec == Init /\ [][Next]_vars

---------------------------------------------------------------------------
(* C09: what extract delivers is the restriction of full extraction *)
Restriction == (res.call = "extract" /\ res.ok) => res.out \subseteq Idx
(* C12: every result equals the result on a freshly opened archive *)
Repeatable == /\ (res.call = "extract" /\ targets # <<>>) =>
                   res = FreshExtract({ i \in Idx : targets[i] })
              /\ res.call = "testzip" => res = FreshTestZip
(* C12: no read-mode call changes the archive file *)
Untouched == [][disk' = disk]_vars
=============================================================================
