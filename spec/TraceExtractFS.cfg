SPECIFICATION TSpec
CONSTANT Archives = {}
CONSTANT Dests = {}
CONSTANT Guarded = TRUE
CONSTANT Fuel = 8
CONSTRAINT Done
CHECK_DEADLOCK FALSE
