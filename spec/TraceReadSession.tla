------------------------- MODULE TraceReadSession -------------------------
(* Code -> spec binding for C09 / C10 / C12: one trace = one read session on *)
(* one archive.  arch {members, nfolders};  call {name, T, rec, sink, ok,    *)
(* out, bad, extra, verdict, names, sizes, crcs, dirs, flag};  closed {same} *)
EXTENDS ReadSession, Json, IOUtils, TLCExt

Traces == JsonDeserialize(IOEnv.TRACE_FILE)
Explain == IOEnv.EXPLAIN = "1"

VARIABLES tid, l
tvars == <<vars, tid, l>>
Ev == Traces[tid][l]

EmptyArch == [members |-> <<>>, nfolders |-> 0, damaged |-> {}, encrypted |-> FALSE, bypath |-> TRUE, methods |-> <<"?">>, extra |-> 0]
TInit == /\ tid \in 1..Len(Traces) /\ l = 1
         /\ a = EmptyArch /\ dec = <<>> /\ dirty = FALSE /\ targets = <<>> /\ res = NoRes /\ ncalls = 0 /\ disk = 0
IsEvent(name) == l <= Len(Traces[tid]) /\ Ev.e = name /\ l' = l + 1 /\ tid' = tid

ToSet(s) == { s[i] : i \in 1..Len(s) }

TArch == /\ IsEvent("arch") /\ a = EmptyArch
         /\ a' = [members |-> Ev.members, nfolders |-> Ev.nfolders,
                  damaged |-> IF "damaged" \in DOMAIN Ev THEN ToSet(Ev.damaged) ELSE {},     \* folders whose packed stream starts with a damaged byte
                  encrypted |-> Ev.encrypted, bypath |-> Ev.bypath,
                  methods |-> IF "methods" \in DOMAIN Ev THEN Ev.methods ELSE <<"?">>,
                  extra |-> IF "extra" \in DOMAIN Ev THEN Ev.extra ELSE 0]       \* folders that hold no stream (sessions of directories only)
         /\ dec' = [f \in 1..Ev.nfolders |-> -1]
         /\ UNCHANGED <<dirty, targets, res, ncalls, disk>>

NonDirs(S) == { i \in S : a.members[i].kind # "dir" }
Dirs(S) == { i \in S : a.members[i].kind = "dir" }
Parents(S) == { d \in Idx : \E i \in S : Under(i, d) }        \* directories needed to hold the members of S

TExtract == /\ IsEvent("call") /\ Ev.name \in {"extract", "extractall"}
            /\ IF Ev.name = "extract" THEN Extract(ToSet(Ev.T), Ev.rec) ELSE ExtractAll
            \* C09 / C12: exactly the selected members, each with its own bytes, nothing else
            \* intact archive: succeeds exactly as a fresh session would.  Damaged folder: a call that HAS to decode it must raise; the
            \* code may decode more than it has to (members in front of a selected empty entry) and meet the damage there as well
            /\ (a.damaged = {} => Ev.ok = res'.ok)
            /\ (~res'.ok => ~Ev.ok)
            /\ (res'.ok /\ Ev.ok) =>
                 /\ ToSet(Ev.out) = NonDirs(res'.out)
                 /\ IF Ev.sink = "factory" THEN Ev.dirs_out = <<>>                    \* a WriterFactory never receives directories
                    ELSE /\ Dirs(res'.out) \subseteq ToSet(Ev.dirs_out)              \* selected directories are created
                         /\ ToSet(Ev.dirs_out) \subseteq Dirs(res'.out) \cup Parents(res'.out)   \* ... and only needed parents besides
                 /\ Ev.extra = 0
            /\ Ev.bad = <<>>                                                     \* never a member with other bytes, also when the call fails

TTestZip == /\ IsEvent("call") /\ Ev.name = "testzip" /\ TestZip
            \* intact: None, at any point of the session; a damaged folder: a bad member is named, or the decoder's error is raised - never None
            /\ IF res'.ok THEN Ev.ok /\ Ev.verdict = "none" ELSE (~Ev.ok \/ Ev.verdict # "none")

TTest == /\ IsEvent("call") /\ Ev.name = "test" /\ Test
         /\ Ev.ok /\ Ev.verdict \in (IF a.damaged = {} THEN {"none", "true"} ELSE {"none", "false"})   \* packed CRCs, when stored, tell

TReset == IsEvent("call") /\ Ev.name = "reset" /\ Reset /\ Ev.ok

(* C10: listings *)
Lim(x) == <<x % 65536, x \div 65536>>
TNames == /\ IsEvent("call") /\ Ev.name = "getnames" /\ GetNames
          /\ Ev.ok /\ Ev.names = [i \in 1..N |-> i]             \* stored order
          /\ Ev.flag                                             \* getnames = namelist = files = list
TList == /\ IsEvent("call") /\ Ev.name = "list" /\ List
         /\ Ev.ok /\ Ev.names = [i \in 1..N |-> i]
         /\ \A i \in Idx : /\ Ev.sizes[i] = a.members[i].size                  \* reported size = length of the extracted bytes
                           \* reported CRC = CRC of those bytes where the archive stores one (a CRC of 0 included), None (<<70000, 70000>>) where not
                           /\ (IsData(i) => Ev.crcs[i] = (IF "hascrc" \in DOMAIN a.members[i] /\ ~a.members[i].hascrc
                                                          THEN <<70000, 70000>> ELSE a.members[i].crc))
                           /\ Ev.dirs[i] = (a.members[i].kind = "dir")         \* directory flag = what extraction creates
                           \* the listed time: undefined stays undefined (not the previous member's), a defined one is the stored one
                           /\ ("mtdef" \in DOMAIN Ev /\ "mtdef" \in DOMAIN a.members[i]) =>
                                  (Ev.mtdef[i] = a.members[i].mtdef /\ Ev.mtsame[i])
TGetInfo == IsEvent("call") /\ Ev.name = "getinfo" /\ Pure("getinfo") /\ Ev.ok /\ Ev.flag
TNeedsPw == /\ IsEvent("call") /\ Ev.name = "needs_password" /\ NeedsPassword
            /\ Ev.ok /\ Ev.flag = a.encrypted
RECURSIVE SumSizes(_)
SumSizes(i) == IF i = 0 THEN <<0, 0>> ELSE
                 LET r == SumSizes(i - 1) s == a.members[i].size t == r[1] + s[1] IN <<t % 65536, r[2] + s[2] + (t \div 65536)>>
TArchInfo == /\ IsEvent("call") /\ Ev.name = "archiveinfo" /\ ArchiveInfo
             \* the summary needs the archive's file name (os.stat): only asked of archives opened by path
             /\ a.bypath =>
                  /\ Ev.ok
                  /\ Ev.sizes[1] = SumSizes(N)                                   \* total size
                  /\ Ev.names[1] = NFolders + a.extra                            \* block count
                  /\ Ev.flag = (\E f \in 1..NFolders : Cardinality(FolderMembers(f)) > 1)   \* solid flag
                  /\ (a.methods # <<"?">> => Ev.methods = a.methods)                   \* method names = coders present

(* C12 "whatever calls it makes": a write-side call on the read-mode object leaves the archive's bytes alone, at once *)
TWrongMode == IsEvent("call") /\ Ev.name = "wrongmode" /\ WrongMode /\ Ev.same

TClosed == /\ IsEvent("closed")
           /\ Ev.exc = "" /\ Ev.same                                             \* C12: not a byte of the archive changed
           /\ UNCHANGED vars

TNext == TWrongMode \/ TArch \/ TExtract \/ TTestZip \/ TTest \/ TReset \/ TNames \/ TList \/ TGetInfo \/ TNeedsPw \/ TArchInfo \/ TClosed
TSpec == TInit /\ [][TNext]_tvars

Done == /\ (l = Len(Traces[tid]) + 1) => PrintT(<<"ACC", tid>>)
        /\ Explain => PrintT(<<"AT", tid, l>>)
=============================================================================
