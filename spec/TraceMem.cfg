SPECIFICATION Spec
CONSTRAINT Done
CHECK_DEADLOCK FALSE
