SPECIFICATION Spec
CONSTANT MaxComps = 4
CONSTANT Fixed = TRUE
INVARIANT VerdictRight
INVARIANT StoredRelative
INVARIANT SanitizedRelative
CHECK_DEADLOCK FALSE
