---------------------------- MODULE GenParallel ----------------------------
(* Spec -> code binding for C13: every order in which the workers' output    *)
(* writes can happen (thread mode, no callback), printed as a schedule.      *)
EXTENDS ParallelMC, Json
VARIABLE order
gvars == <<vars, order>>
GInit == Init /\ order = <<>>
GNext == \/ \E f \in Folders : WWrite(f) /\ order' = IF f \in Damaged THEN order ELSE Append(order, f)
         \/ (MainPre \/ MainStart \/ MainJoin \/ MainCheck \/ (\E f \in Folders : WStart(f) \/ WEnd(f))) /\ UNCHANGED order
GSpec == GInit /\ [][GNext]_gvars
Emit == mpc = "open" => PrintT(<<"BEH", ToJson(order)>>)
=============================================================================
