---------------------------- MODULE TraceFolder -----------------------------
(* Code -> spec binding for Folder.tla.  One trace = one folder record as    *)
(* the real reader saw it and what it built from it:                          *)
(*   coders {n}              Folder._read: number of coder records            *)
(*   pair   {i, o}           one Bond as parsed (n-1 of them)                 *)
(*   built  {order, main, packed}  packed = folder.packed_indices           *)
(*                           positions (in folder.coders) of the coder dicts  *)
(*                           SevenZipDecompressor was constructed with, in    *)
(*                           the order given; main = position whose unpack    *)
(*                           size get_unpack_size() returned                  *)
(* The walk itself is not logged: Step/Finish are silent, bounded by n.       *)
EXTENDS Folder, Json, IOUtils, TLCExt

Traces == JsonDeserialize(IOEnv.TRACE_FILE)
Explain == IOEnv.EXPLAIN = "1"

VARIABLES tid, l
tvars == <<vars, tid, l>>
Ev == Traces[tid][l]

TInit == tid \in 1..Len(Traces) /\ l = 1 /\ Init
IsEvent(name) == l <= Len(Traces[tid]) /\ Ev.e = name /\ l' = l + 1 /\ tid' = tid
Silent == UNCHANGED <<tid, l>>

TCoders == IsEvent("coders") /\ ReadCoders /\ n' = Ev.n
TPair == IsEvent("pair") /\ Ev.i < n /\ Ev.o < n /\ ReadPair(Ev.i, Ev.o)
TWalk == (BeginWalk \/ Step \/ Finish) /\ Silent /\ l <= Len(Traces[tid]) /\ Ev.e = "built"
TBuilt == /\ IsEvent("built") /\ phase = "done"
          /\ Len(Ev.order) = n /\ \A k \in 1..n : Ev.order[k] = order[k]     \* the pipeline the code built is the model's
          /\ Ev.main = mainout
          /\ {Ev.packed[k] : k \in 1..Len(Ev.packed)} = Starts /\ Len(Ev.packed) = Cardinality(Starts)   \* packed_indices as Folder._read inferred them
          /\ (WellFormed => (order = SemOrder /\ mainout = SemMainOut))       \* ... and the one the format defines (C06)
          /\ UNCHANGED vars

TNext == TCoders \/ TPair \/ TWalk \/ TBuilt
TSpec == TInit /\ [][TNext]_tvars

Done == /\ (l = Len(Traces[tid]) + 1) => PrintT(<<"ACC", tid>>)
        /\ Explain => PrintT(<<"AT", tid, l>>)
=============================================================================
