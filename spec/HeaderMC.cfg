SPECIFICATION Spec
CONSTANT MaxFiles = 3
CONSTANT MaxFolders = 2
CONSTANT DirFallback = FALSE
INVARIANT Conforms
CHECK_DEADLOCK FALSE
