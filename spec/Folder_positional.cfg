SPECIFICATION Spec
CONSTANT MaxCoders = 4
CONSTANT FollowsPairs = FALSE
INVARIANT TypeOK
INVARIANT ReaderAgrees
INVARIANT PositionalKept
INVARIANT WalkBounded
INVARIANT IllFormedPositional
PROPERTY Terminates
CHECK_DEADLOCK FALSE
