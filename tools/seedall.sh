#!/bin/sh
# usage: tools/seedall.sh [pattern]   - run every stored seeded change (seeded/<id>-<k>/patch.diff) against its property's quick check;
# prints one line per seed: DETECTED (exit 1) / MISSED (exit 0) / NOAPPLY (patch no longer applies to the current tree) / BROKEN (exit 2)
cd "$(dirname "$0")/.."
for d in seeded/${1:-*}; do
  [ -f "$d/patch.diff" ] || continue
  id=$(basename "$d" | cut -d- -f1)
  D=$(mktemp -d /dev/shm/mrepo-XXXXXX)
  cp -r /repo/py7zr "$D/py7zr"; ln -s /repo/tests "$D/tests"
  if ! ( cd "$D" && patch -p1 -s --dry-run < "$OLDPWD/$d/patch.diff" >/dev/null 2>&1 ); then echo "$(basename $d) NOAPPLY"; rm -rf "$D"; continue; fi
  ( cd "$D" && patch -p1 -s < "$OLDPWD/$d/patch.diff" >/dev/null 2>&1 )
  VERIF_REPO="$D" VERIF_NO_EVIDENCE=1 ./check "$id" quick > /tmp/seedall-last-$$.log 2>&1; rc=$?
  rm -rf "$D"
  case $rc in 1) r=DETECTED;; 0) r=MISSED;; *) r="BROKEN($rc)";; esac
  echo "$(basename $d) $r $(grep -m1 'key=' /tmp/seedall-last-$$.log | cut -c1-110)"
done
