#!/venv/bin/python
"""Regenerate /verif/MANIFEST.json from the table below (single source of truth) and validate it against the schema."""
import json
import os
import sys

VERIF = os.path.dirname(os.path.dirname(os.path.abspath(__file__)))

# id -> dict(level, text, note, technique, design_ref, thorough=True)
CHECKS = {
    "C17": dict(
        level="model_checking",
        text="TLC checks the store/load machine of NUMBER and boolean vectors (py7zr's writer/reader transcribed next to the document's "
             "definition) over every control-relevant class; the same TLC run emits every class vector with all its conforming encodings, "
             "which are replayed into the real primitives; events recorded from the real primitives (all values below 2^16/2^20, "
             "2^k+-1, random 64-bit, bit vectors 0..130/300, names, whole-header round trips) are validated by TLC against TraceCodec.",
        note="Trusted: TLC 1.8, Json module, the transcription of docs/archive_format.rst in Codec.tla. Values travel as byte lists.",
        technique="TLA+ spec (Codec/CodecMC) model-checked by TLC + TLC-generated vectors replayed into code + trace validation (TraceCodec)",
        design_ref="3.1, 4 C17",
    ),
    "C16": dict(
        level="model_checking",
        text="TLC enumerates every name over the component alphabet {a,b,..,.,'',c:,probe names} x lead slashes x trailing slash up to "
             "4 (quick) / 5 (thorough) components and checks that the transcription of check_archive_path agrees with the independent "
             "definition; the same run emits each name with the specification's verdict, which is compared with the real "
             "check_archive_path (exhaustive); recorded writestr/writef/write/writeall sessions (incl. random Unicode names, all 6-component "
             "names in thorough) are validated by TLC against TraceNames: verdict, archive unchanged by a rejected call, listing relative.",
        note="Trusted: TLC, the independent definition SpecVerdict in Names.tla; component classes abstract concrete strings (ordinary "
             "components are interchangeable for the verdict). POSIX path semantics only.",
        technique="TLA+ spec (Names/NamesMC) exhaustively model-checked + TLC-enumerated names replayed into code + trace validation (TraceNames)",
        design_ref="3.7, 4 C16",
    ),
    "C15": dict(
        level="model_checking",
        text="WriteSession.tla models each write call as check / register / archive-at-the-worker's-cursor steps with one injected "
             "fault per history (bad name, missing source, FIFO source, lstat/open raising, read raising after k bytes, source dead afterwards); writeall() "
             "is run as a composite whose entries are recorded as calls of their own; TLC checks InStep, NoRetry, "
             "Committed, FaultRaised, AppendOnly exhaustively (<=3 calls, <=2 sessions) and, as negative control, that the same spec "
             "without the rollback step (the tree before the fix) violates InStep. Every history TLC enumerates is executed on the real "
             "SevenZipFile with faults injected through pathlib/stream subclasses; the recorded call/ret/close/reopen traces (plus random "
             "longer multi-session ones) are validated by TLC against TraceWriteSession.",
        note="Trusted: TLC; fault injection through API objects (root user: no real permission faults); read-back through py7zr itself "
             "with content identified by SHA-256. A source failing at byte 0 is classified with mid-read faults (weak requirement).",
        technique="TLA+ spec (WriteSession) model-checked + TLC-enumerated histories replayed into code + trace validation (TraceWriteSession)",
        design_ref="3.3, 4 C15",
    ),
    "C08": dict(
        level="model_checking",
        text="WriteSession.tla with create + up to 2 append sessions: AppendOnly (action property) and Committed are model-checked; every "
             "fault-free history TLC enumerates is executed with a different filter chain / header mode per session by path and by stream; "
             "archives written by the independent reference writer (all layout options) and the third-party fixtures serve as foreign bases "
             "for random append sessions. After every session the archive is read by py7zr and by the strict reference reader and TLC "
             "(TraceWriteSession) checks members = base + successful calls in order and that name, bytes, kind, mtime and attributes of "
             "earlier members never change in either reader's view. Stream targets are handed over rewound, as the last session left them, "
             "or at their end. Lifecycle.tla (the object across modes: read-side calls inside an append session, calls after close(), "
             "repeated close) is model-checked (negative control: probing at the stream's position) and every call-class sequence "
             "<= 3 (thorough <= 5) is executed on a real appending object and validated by TraceLifecycle.",
        note="Trusted: TLC, harness/refcodec (independent reader/writer, self-tested against the third-party fixtures). Foreign bases py7zr "
             "cannot read correctly before any append are skipped here (reader conformance is C06). Bytes after the header are ignored.",
        technique="TLA+ spec (WriteSession) model-checked + TLC-enumerated histories replayed into code + trace validation with an independent reader",
        design_ref="3.3, 4 C08",
    ),
    "C01": dict(
        level="model_checking",
        text="Stream.tla models the chunked decode glue (Worker.decompress loop, _buf/_pos carry-over, block reads) at the level of byte "
             "counts for every chunking, block size, chunk limit, honouring and ignoring decoders and short streams; TLC checks exact "
             "delivery, conservation, the carry-over bound and termination (liveness; negative control: the loop without the stall guard). "
             "Config.tla enumerates the configuration space and transcribes the constructor's chain validation. Every chain the real "
             "constructor accepts is executed with real codecs (sizes around 16 / I/O block / chunk limit, Unicode names, textures, "
             "header raw/encoded/encrypted, path/BytesIO/buffered/multi-volume targets); the session trace is validated against "
             "TraceWriteSession (names in order, identical bytes) and every decoder/AES object's step trace against TraceStream. "
             "Lifecycle.tla sequences (read-side calls between writes, calls after close()) run on creating objects (TraceLifecycle).",
        note="Trusted: TLC; block size / chunk limit varied by replacing get_default_blocksize/get_memory_limit; codec byte fidelity is "
             "observed (hash equality), not modelled; pyppmd failures are isolated by running the library alone (known finding).",
        technique="TLA+ specs (Stream, Config, WriteSession) model-checked incl. liveness + TLC-enumerated configurations executed + trace validation (TraceWriteSession, TraceStream)",
        design_ref="3.3, 3.4, 4 C01",
    ),
    "C12": dict(
        level="model_checking",
        text="ReadSession.tla models the per-folder decoder cache and the worker's target map; TLC checks Repeatable (every result equals "
             "the result on a fresh open) and Untouched over all call sequences <= 3 on five model archives, with the pre-fix testzip "
             "as negative control. Every sequence the quantifier allows (TLC-enumerated, <= 3 quick / <= 4 thorough) is executed on real "
             "single- and multi-folder archives, plain and encrypted, by path and by stream, ended by close / with / exception; random "
             "5-6 call sequences on random shapes; TraceReadSession validates every result and the archive hash. 'Whatever calls it "
             "makes' includes write-side calls (ReadSession.WrongMode) and, through Lifecycle.tla, calls after close() and repeated "
             "close: the archive hash is compared after every call (negative controls: unguarded write calls).",
        note="Trusted: TLC; archives come from the independent reference writer; content identified byte-for-byte.",
        technique="TLA+ spec (ReadSession) model-checked + TLC-enumerated call sequences replayed into code + trace validation (TraceReadSession)",
        design_ref="3.3, 4 C12",
    ),
    "C09": dict(
        level="model_checking",
        text="ReadSession.tla defines Selected(T, recursive) and the decode-and-discard bookkeeping; TLC checks Restriction/Repeatable for "
             "every subset T of every model archive. On real archives (solid, multi-folder, random interleavings of directories and empty "
             "files, encrypted or not) every subset of names plus absent names (sampled to 128 subsets per shape in quick) x recursive x "
             "list/set x trailing slash x sink is extracted in a fresh session and TraceReadSession checks delivered = Selected, bytes "
             "identical, nothing else created but needed parent directories.",
        note="Trusted: TLC; reference writer; names are chosen prefix-free except along '/' as the quantifier demands.",
        technique="TLA+ spec (ReadSession) model-checked + exhaustive subset enumeration executed + trace validation (TraceReadSession)",
        design_ref="3.3, 4 C09",
    ),
    "C10": dict(
        level="model_checking",
        text="Listing calls are pure actions of ReadSession.tla (model-checked not to disturb results). On reference-written and "
             "py7zr-written archives (random shapes, 17 coder chains, encrypted or not, path/stream) getnames/namelist/list/files, "
             "getinfo, needs_password and archiveinfo are recorded before and after an extraction and TLC (TraceReadSession) compares "
             "them with the member map: stored order, size and CRC32 of the extracted bytes, directory flag, KeyError for unknown names, "
             "total size, block count, solid flag, method names = coders present, needs_password = AES coder or password supplied.",
        note="Trusted: TLC; sizes/CRCs travel as 16-bit limbs; archiveinfo needs a file name and is only judged for archives opened by path.",
        technique="TLA+ spec (ReadSession) + trace validation of recorded listing calls against the extracted member map (TraceReadSession)",
        design_ref="3.3, 4 C10",
    ),
    "C03": dict(
        level="model_checking",
        text="ExtractFS.tla is a file system with symbolic links plus _extract/_extract_single transcribed step by step (lexical "
             "sanitising, duplicate-name suffixes, directory phase, member phase with pathlib-style mkdir-parents / open / touch / "
             "unlink+symlink, utime+chmod post pass, the resolved-location guard of the repaired tree). TLC checks NoEscape and "
             "OutsideUntouched for every archive of 1-2 entries of a 13-name x file/dir/8-link-target alphabet and 3 entries of a reduced "
             "alphabet, destination absolute or None; the unguarded model (tree before the repair) is the negative control. The same "
             "archives (sampled in quick), hand-written chained-link shapes and random 3-5 entry archives are written by the reference "
             "writer and extracted by the real code in a sandboxed child under an audit hook that resolves every mutation's location at "
             "the moment it happens, plus a snapshot of everything around the jail; TLC (TraceExtractFS) re-runs the specification on each "
             "archive, requires every observed effect inside the destination and reports differences to the model as drift.",
        note="Trusted: TLC; the audit events open/os.mkdir/os.symlink/os.chmod/os.utime/os.remove/os.rename/os.truncate/os.rmdir/os.link "
             "cover the mutating calls py7zr makes (the outside snapshot is a second, independent observer). Linux path semantics, run as root.",
        technique="TLA+ spec (ExtractFS) exhaustively model-checked + real extractions of the same archive alphabets under an audit hook validated against the spec (TraceExtractFS)",
        design_ref="3.5, 4 C03",
    ),
    "C13": dict(
        level="model_checking",
        text="Parallel.tla models Main / one Worker per folder / Reporter as interleaved actions for the sequential, thread and process "
             "modes; TLC checks Deterministic and ErrorReachesCaller under every interleaving (and termination), with a process-mode child "
             "whose exception queue does not reach the parent as negative control. Every order of the workers' output writes that TLC "
             "enumerates (GenParallel; all for small shapes, sampled in quick) is forced on the real thread-parallel path by gates in the "
             "WriterFactory products, with one folder damaged at each position, and for two independent SevenZipFile objects on one path; "
             "the sequential path and the process-parallel option (OS scheduling, repeated) are run with damage at each position. "
             "TraceParallel validates: outputs identical, nothing delivered with other bytes, error raised iff a folder is damaged.",
        note="Trusted: TLC; process-mode children cannot be gated (exploration by repetition only); gating granularity is the first write "
             "of each member's product; process mode is exercised with a directory sink (a WriterFactory cannot receive data from another process).",
        technique="TLA+ spec (Parallel) model-checked + TLC-enumerated schedules forced on the real threads + trace validation (TraceParallel)",
        design_ref="3.6, 4 C13",
    ),
    "C18": dict(
        level="model_checking",
        text="Parallel.tla with a callback: the Reporter takes events from the queue and runs an arbitrarily slow callback while workers and "
             "close() proceed; TLC checks Ordered, Complete, NoneAfterClose and CloseNeverFails for every interleaving (negative control: "
             "close() joining with a time limit). Real extractions (TLC schedules forced by write gates, sequential path, directory and "
             "factory sinks, extract(T) with skipped folders/predecessors, two and three extractions in one session, instantaneous and "
             "blocking callbacks) record every completed callback, the return of extract and of close(); TraceParallel checks the order, "
             "pairing, sizes, byte accounting and that nothing is delivered after close() returned.",
        note="Trusted: TLC; callbacks are recorded at completion inside the callback; 1.5 s grace after close() to observe late deliveries.",
        technique="TLA+ spec (Parallel) model-checked + scheduled real extractions with recording callbacks + trace validation (TraceParallel)",
        design_ref="3.6, 4 C18",
    ),
    "C14": dict(
        level="model_checking",
        text="Crash.tla models the archive file as cells (six signature-header fields, data units, packed header, header record), the "
             "write operations of create and append sessions in program order, a crash between or inside any operation and the last "
             "operation dropped or reordered; Accept is the reader's open pipeline; TLC checks CrashSafe/Honest for nine session shapes "
             "with the header CRC the repaired tree writes (negative control: without it an append that rewrites the packed header in place is unsafe). "
             "The real seek/write stream of create and append sessions (incl. empty and directory-only appends, raw/encoded/encrypted "
             "header) is recorded, its order compared with the specification's commit order, and EVERY byte-granular prefix (plus "
             "reordered-last-operation variants) is materialised and opened in a sandbox: error, or exactly the old or new members.",
        note="Trusted: TLC; CRC32 mismatches are detected (no adversarial collisions); sessions are recorded through a stream target "
             "(path mode issues the same writes through the same code).",
        technique="TLA+ spec (Crash) model-checked + exhaustive crash-point enumeration of recorded write streams replayed into the reader",
        design_ref="3.3, 4 C14",
    ),
    "C04": dict(
        level="fault_enumeration",
        text="Integrity.tla is the coverage map of the format's integrity mechanisms as py7zr uses them (which checksum covers which "
             "region on which read path); TLC checks NoWrongSuccess/HeaderCovered over all layouts x regions x paths. Sample archives "
             "(py7zr- and reference-written, codec families, AES, raw/encoded header, 1-4 folders, per-file CRCs) are damaged by EVERY "
             "single-bit flip, truncation lengths, overwrites, bursts, block swaps, insert/remove, extension; each image is read through "
             "extractall, extract(T), test() and testzip() in a sandbox, and TLC (TraceIntegrity) validates: never success with different "
             "content, intact archives read and test clean, no integrity call certifies an image that would not extract.",
        note="Exhaustive over bit positions of each sample archive (<= 700 bytes in quick: all 8 bits of every byte). CRC32 detects every "
             "burst <= 32 bits; hangs/memory are counted and judged by C05.",
        technique="TLA+ coverage model (Integrity) + exhaustive single-bit fault enumeration on real archives validated by TLC (TraceIntegrity)",
        design_ref="3.7, 4 C04",
    ),
    "C05": dict(
        level="model_checking",
        text="Stream.tla proves (TLC, liveness under weak fairness) that the extraction loop ends - delivered or raised - for every chunking "
             "also when the stream holds less than declared (negative control: the loop before the repair); HeaderRes.tla models the header "
             "parser's loops with attacker-controlled counts (allocation proportional to bytes consumed; negative control: unvalidated "
             "counts). On the code: archives of every codec family are bit-flipped, truncated, spliced, and structure-mutated (every NUMBER "
             "field := 0,1,2,2^k-1,2^k,2^32,2^63,2^64-1; sections dropped/duplicated/swapped; all CRCs re-sealed so the parser is "
             "entered), read with wrong/missing passwords, under six call sequences (incl. extract twice without reset) in sandboxed "
             "children: 10 s wall clock, 1 GiB address space (a case that needs more is re-run with 8 GiB and judged by resident growth <= 512 MiB), "
             "abnormal exit detected; compound attacks: whole count vectors, counts near the validation bound, 60000-150000 items really present, "
             "self-referential packed headers, re-sealed start-header fields, coder properties.",
        note="'Bounded' is fixed as 10 s and 1 GiB of address space / 512 MiB of resident growth. PPMd archives: pyppmd does not check its "
             "model allocation and kills the interpreter when it fails (known finding).",
        technique="TLA+ specs (Stream liveness, HeaderRes) model-checked + structure-aware fault enumeration on the real reader under resource limits",
        design_ref="3.4, 4 C05",
    ),
    "C06": dict(
        level="model_checking",
        text="Header.tla defines Sem(L), the format's assignment of substreams, CRCs and kinds to the members of a layout L, and "
             "ReaderAlgo(L), the transcription of py7zr's cursor over folders/streams with its SubStreamsInfo defaults and kind "
             "derivation; TLC checks ReaderAlgo = Sem for EVERY layout within the bounds (<= 3 files and 2 folders quick, 4 and 3 "
             "thorough; folders without streams; CRC at substream / folder / none; NumUnpackStream and SubStreamsInfo omitted; "
             "attributes undefined), with the attribute-only directory test as negative control. Every layout TLC emits (sampled "
             "in quick) is written by the independent reference writer with real coders and further physical choices by seed "
             "(coder chain per folder, packed CRCs, packpos > 0, kDummy, EmptyFile vector, partial time/attribute vectors, "
             "non-minimal NUMBERs, raw/LZMA/AES header), read by py7zr and validated by TLC (TraceHeader) against Sem(L) incl. "
             "bytes, timestamps, attributes; the 62 third-party fixtures are compared member by member with the reference reader.",
        note="Trusted: TLC, harness/refcodec (self-tested against the fixtures).",
        technique="TLA+ specs (Header, Folder) exhaustively model-checked with negative controls + TLC-enumerated layouts and coder graphs written by an independent writer and read by the code + trace validation (TraceHeader, TraceFolder)",
        design_ref="3.2, 4 C06",
    ),
    "C07": dict(
        level="model_checking",
        text="HeaderGrammar.tla is the 7z header grammar as a state machine with the count agreements between sections (packed "
             "streams / folders / coder out-streams / substreams / files / empty-stream and empty-file vectors / exact property "
             "sizes). Archives written by py7zr (every accepted chain, raw/encoded/encrypted header, password, directories, zero-"
             "length files, symlinks, trees, 2-3 append sessions with different chains) are parsed by the independent reference "
             "reader in strict mode (signature header describes the bytes on disk, packed sizes tile the data area, sizes and CRCs "
             "equal the content) and decoded with its own codec glue and 7zAES key derivation; TLC validates each token stream "
             "against the grammar and the recovered members against what was written.",
        note="Trusted: TLC, harness/refcodec. Bytes after the header (left by a shrinking append) are ignored. A zero-length file stored "
             "as a zero-length stream is accepted (legal, unusual).",
        technique="TLA+ grammar spec (HeaderGrammar) + trace validation of token streams produced by an independent strict reader",
        design_ref="3.2, 4 C07",
    ),
    "C11": dict(
        level="model_checking",
        text="Crypto.tla is the configuration machine of a write session (password, chain ending in 7zAES, constructor flag, "
             "set_encrypted_header, set_encoded_header_mode) with NamesProtected / ContentProtected and the invariant Consistent, "
             "model-checked over every setter sequence. Configurations and setter sequences of the model's alphabet x chains ending in "
             "7zAES (alone, behind Copy/compressors/BCJ/Delta) x Unicode passwords (empty, non-BMP) are executed; every archive carries "
             "marker plaintext and marker names and is written twice. Facts derived from the bytes (marker search in the raw file, "
             "keyless decode by the independent reader, IV and ciphertext freshness of the twins over the AES pack regions) and the "
             "outcomes of open/getnames/extractall with the right, no and wrong passwords (different, prefix, case-changed) are "
             "validated by TLC against TraceCrypto.",
        note="Trusted: TLC, harness/refcodec's own 7zAES key derivation. Secrecy is judged by marker search and keyless decoding, not "
             "cryptanalysis; a wrong password must never deliver the marker bytes (error or CRC failure both count as refusal).",
        technique="TLA+ spec (Crypto) model-checked + configurations executed + trace validation of byte-level facts and password outcomes (TraceCrypto)",
        design_ref="3.8, 4 C11",
    ),
    "C02": dict(
        level="model_checking",
        text="Tree.tla defines Walk(T, deref) (the member list writeall produces), Materialise and Expected; TLC checks RoundTrip and "
             "ParentsFirst for EVERY tree of <= 4 (quick) / 5 (thorough) nodes with directories, files, empty files and links to files "
             "and directories. Every tree TLC emits (sampled in quick) is created on disk with Unicode names, permission bits "
             "0o400..0o777 and mtimes 1970..2100 with sub-second parts, archived by writeall (arcname None / given, dereference off / "
             "on, with and without password) or pack_7zarchive/unpack_7zarchive and extracted into an empty directory; TLC (TraceTree) "
             "requires the extracted tree to equal Expected(T, deref): entries, kinds, bytes, link targets, permission bits, "
             "|mtime difference| <= 5 microseconds.",
        note="Trusted: TLC; Linux, run as root (owner-unreadable files still readable). Timestamps travel as 16-bit limbs.",
        technique="TLA+ spec (Tree) exhaustively model-checked + TLC-enumerated trees materialised, archived and extracted + trace validation (TraceTree)",
        design_ref="3.9, 4 C02",
    ),
    "C19": dict(
        level="model_checking",
        text="Cli.tla models every subcommand as a composition of library session actions followed by Exit(code) with "
             "Succeeds(cmd, condition, option) in the library's terms; TLC checks Truthful (exit = 0 <=> succeeded) over all "
             "combinations and emits them. Every combination is run as `python -m py7zr ...` in a subprocess: c/a/l/x/t/i x archive "
             "condition (intact, header damaged, data damaged, password needed and not given, unsupported method, absent, already "
             "existing) x options (-v SIZE with/without unit and invalid, --verbose, output directory, archive name with/without "
             ".7z); trees of C02 go through c + x. TraceCli/TraceTree validate exit status and that the effect equals the library's.",
        note="Trusted: TLC; interactive password prompts are not driven (stdin closed, -P given or absent).",
        technique="TLA+ spec (Cli) model-checked + TLC-enumerated command lines executed in subprocesses + trace validation (TraceCli, TraceTree)",
        design_ref="3.10, 4 C19",
    ),
    "C20": dict(
        level="model_checking",
        text="Stream.tla carries resident-memory accounting (input block, packed bytes held inside decoders, decoder output of the call, "
             "carry-over, chunk handed out); TLC checks MemBound / InputBound / OutBound for every member size, ratio, solid position, chunk "
             "limit, block size and overshoot constant within the bounds, with two negative controls (decoders ignoring the request: the "
             "tree before the Deflate/Deflate64/ZStandard/Brotli repairs; a block read on every call: the tree before the glue repair). "
             "On the code, fresh processes write and then read archives with synthetic members of 0.5-1 GiB (thorough: up to 4 GiB): zeros, "
             "short period, text, incompressible x every codec family, also behind BCJ/Delta/7zAES x writef / write(path) / writestr series "
             "x extractall(path) / extractall(factory) / testzip x big member first/last/between up to 900 small ones; every chain again "
             "with the chunk limit scaled to 1 MiB; small archives declaring 3.5 GiB / 2^40 bytes. TLC (TraceMem) validates every "
             "decompress step, the writer's reads and retention, the outcome and peak RSS minus baseline <= 700 MiB.",
        note="Trusted: TLC; ru_maxrss of a fresh process (baseline after importing py7zr); 64 MiB constant overshoot allowed to soft output "
             "limits. Deflate64 on incompressible data: the delegated library inflate64 leaks (known finding, isolated by running it alone). "
             "PPMd only on compressible textures (pyppmd known finding of C01).",
        technique="TLA+ spec (Stream with memory accounting) model-checked with negative controls + large-member runs in fresh processes + trace validation of steps and peak RSS (TraceMem)",
        design_ref="3.4, 4 C20",
    ),
}

# dimensions added in the statement-literal round (DESIGN.md 11.3b), appended to the level text
ADDENDA = {
    "C02": "The tree's path is spelled plainly, with './', absolutely, with a trailing '/', through '..' and as 'tree/../tree'; one naming scheme lets "
           "names recur in different directories (a link's text can equal another member's path).",
    "C03": "A forced interleaving of two folder workers (one held between its check of a directory and its use, the other creating the links that "
           "lead it outside) is part of the quick tier.",
    "C04": "One sample archive holds a symbolic-link member and is extracted into a directory, judged by link targets.",
    "C05": "Compound attacks include a file count admitted by zero padding behind the header's END mark (open known finding).",
    "C06": "The reference writer also emits partially defined packed-stream CRC vectors. Folder.tla models the coder graph of a folder (records in "
           "any order, bind pairs written in any order, hostile pairs) against the reader's walk; all 159 well-formed graphs of <= 4 simple coders "
           "are executed with coder chains that do not commute and CRCs at substream / folder / none, and the pipeline the reader built is validated "
           "by TraceFolder (negative control: the reader that decodes in record order).",
    "C07": "Nothing may follow the end header the start header points at. Sessions of one archive differ in whether they encrypt.",
    "C09": "Absent names include string prefixes of member names and the empty string; the recursive flag is passed as False/None/0 and True/1; "
           "decoding calls follow one another without reset() (ReadSession.ExtractResets, negative control); folders that store no digests.",
    "C10": "Archives with partially defined time vectors and FILETIMEs beyond the year 9999: the listed time of every member is judged. "
           "Multi-session archives whose chains end in the same coder (plain first, 7zAES later): method names and needs_password.",
    "C17": "Header round trips include partially defined substream digest vectors (an undefined entry in front of a defined one).",
    "C13": "Error classes: damaged data, unwritable output (Parallel.FailLast), a worker process that dies; the process option also with a "
           "WriterFactory; an archive opened by a relative name followed by chdir. Worker threads are made to meet at the entry of Worker._check "
           "and Worker.decompress (k-th call with k-th call); members of different folders that are siblings differing in the last suffix only.",
    "C14": "Every crash image is also handed to an append session (mode 'a' + one member + close): refused, or old/new members plus its own. "
           "Create sessions also run on a stream that already holds an archive.",
    "C15": "Rejected arguments: climbing or absolute name, wrong content type, wrong name type, text stream, a name UTF-16 cannot hold, an embedded NUL. "
           "Members written after a failed write() (symbolic links to the failed source among them) are compared with a control session without the call.",
    "C16": "Traversal shapes are also spelled with backslashes (a separator in the 7z name table); source files whose names hold backslashes. "
           "Refused names are also offered right behind an accepted sibling that shares their directory part (verdicts must not depend on history).",
    "C18": "Extractions without a callback between those with one; the process option with a callback; selections that leave members behind the "
           "last selected one; callbacks that hold up the reporter in its last handlers only.",
    "C19": "'a' on a header-damaged archive (must fail and leave it untouched); 'c -v 200b' on 400 KB (delegated library, known finding); "
           "a volume size with an upper-case unit; a damaged member whose recorded name is the empty string.",
    "C20": "Several folders decoded at the same time; a member flagged as a symbolic link; an encoded header padded to 512 MiB (open known finding).",
}

NOT_YET = {}  # id -> reason; filled below for every property without a check


def main():
    props = [json.loads(l) for l in open(os.path.join(VERIF, "properties.jsonl"))]
    ids = [p["id"] for p in props]
    checks = []
    for i in ids:
        if i not in CHECKS:
            continue
        c = CHECKS[i]
        e = {
            "property_id": i,
            "quick_cmd": f"./check {i} quick",
            "evidence_file": f"/verif/evidence/{i}.json",
            "replay_cmd_template": f"./check {i} quick --replay {{path}}",
            "engine": "tlc",
            "level_claimed": {"category": c["level"], "text": c["text"] + (" " + ADDENDA[i] if i in ADDENDA else ""), "design_ref": "DESIGN.md section " + c["design_ref"]},
            "level_note": c["note"],
            "technique": c["technique"],
        }
        if c.get("thorough", True):
            e["thorough_cmd"] = f"./check {i} thorough"
        checks.append(e)
    na = [{"property_id": i, "reason": NOT_YET.get(i, "check not built yet in this round (work in progress; see DESIGN.md section 10)")}
          for i in ids if i not in CHECKS]
    m = {
        "version": 1,
        "setup_cmd": "./check setup",
        "hooks": {
            "guard": "PY7ZR_VERIF",
            "enable": "checks import py7zr from /repo's working tree (VERIF_REPO, default /repo) with PY7ZR_VERIF=1 in the environment; "
                      "observation is done by external wrappers, file objects and audit hooks",
            "baseline_off_cmd": "cd /repo && env -u PY7ZR_VERIF /venv/bin/python -m pytest -ra -q -p no:cacheprovider --timeout=900 "
                                "--continue-on-collection-errors",
            "source_commits": HOOK_COMMITS,
            "add_only": True,
        },
        "engines": [
            {"name": "tlc", "path": "/verif/spec", "serves_properties": [c["property_id"] for c in checks],
             "kind_free_text": "explicit TLA+ specifications checked by TLC 1.8; behaviours replayed into py7zr; recorded traces validated by TLC"},
        ],
        "checks": checks,
        "not_applicable": na,
        "notes": "Entry point ./check <id> <quick|thorough> [--replay file]; exit 2 = machinery failure. known_findings.json lists "
                 "recorded genuine defects (open) and repaired ones (fixed).",
    }
    out = os.path.join(VERIF, "MANIFEST.json")
    with open(out, "w") as f:
        json.dump(m, f, indent=1)
    try:
        import jsonschema

        jsonschema.validate(m, json.load(open("/root/.vp/MANIFEST.schema.json")))
        print("MANIFEST.json valid;", len(checks), "checks,", len(na), "not_applicable")
    except ImportError:
        print("jsonschema not available; wrote without validating")
    return 0


HOOK_COMMITS = []

if __name__ == "__main__":
    sys.exit(main())
