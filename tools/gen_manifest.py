#!/venv/bin/python
"""Regenerate /verif/MANIFEST.json from the table below (single source of truth) and validate it against the schema."""
import json
import os
import sys

VERIF = os.path.dirname(os.path.dirname(os.path.abspath(__file__)))

# id -> dict(level, text, note, technique, design_ref, thorough=True)
CHECKS = {
    "C17": dict(
        level="model_checking",
        text="TLC checks the store/load machine of NUMBER and boolean vectors (py7zr's writer/reader transcribed next to the document's "
             "definition) over every control-relevant class; the same TLC run emits every class vector with all its conforming encodings, "
             "which are replayed into the real primitives; events recorded from the real primitives (all values below 2^16/2^20, "
             "2^k+-1, random 64-bit, bit vectors 0..130/300, names, whole-header round trips) are validated by TLC against TraceCodec.",
        note="Trusted: TLC 1.8, Json module, the transcription of docs/archive_format.rst in Codec.tla. Values travel as byte lists.",
        technique="TLA+ spec (Codec/CodecMC) model-checked by TLC + TLC-generated vectors replayed into code + trace validation (TraceCodec)",
        design_ref="3.1, 4 C17",
    ),
    "C16": dict(
        level="model_checking",
        text="TLC enumerates every name over the component alphabet {a,b,..,.,'',c:,probe names} x lead slashes x trailing slash up to "
             "4 (quick) / 5 (thorough) components and checks that the transcription of check_archive_path agrees with the independent "
             "definition; the same run emits each name with the specification's verdict, which is compared with the real "
             "check_archive_path (exhaustive); recorded writestr/writef/write/writeall sessions (incl. random Unicode names, all 6-component "
             "names in thorough) are validated by TLC against TraceNames: verdict, archive unchanged by a rejected call, listing relative.",
        note="Trusted: TLC, the independent definition SpecVerdict in Names.tla; component classes abstract concrete strings (ordinary "
             "components are interchangeable for the verdict). POSIX path semantics only.",
        technique="TLA+ spec (Names/NamesMC) exhaustively model-checked + TLC-enumerated names replayed into code + trace validation (TraceNames)",
        design_ref="3.7, 4 C16",
    ),
}

NOT_YET = {}  # id -> reason; filled below for every property without a check


def main():
    props = [json.loads(l) for l in open(os.path.join(VERIF, "properties.jsonl"))]
    ids = [p["id"] for p in props]
    checks = []
    for i in ids:
        if i not in CHECKS:
            continue
        c = CHECKS[i]
        e = {
            "property_id": i,
            "quick_cmd": f"./check {i} quick",
            "evidence_file": f"/verif/evidence/{i}.json",
            "replay_cmd_template": f"./check {i} quick --replay {{path}}",
            "engine": "tlc",
            "level_claimed": {"category": c["level"], "text": c["text"], "design_ref": "DESIGN.md section " + c["design_ref"]},
            "level_note": c["note"],
            "technique": c["technique"],
        }
        if c.get("thorough", True):
            e["thorough_cmd"] = f"./check {i} thorough"
        checks.append(e)
    na = [{"property_id": i, "reason": NOT_YET.get(i, "check not built yet in this round (work in progress; see DESIGN.md section 10)")}
          for i in ids if i not in CHECKS]
    m = {
        "version": 1,
        "setup_cmd": "./check setup",
        "hooks": {
            "guard": "PY7ZR_VERIF",
            "enable": "checks import py7zr from /repo's working tree (VERIF_REPO, default /repo) with PY7ZR_VERIF=1 in the environment; "
                      "observation is done by external wrappers, file objects and audit hooks",
            "baseline_off_cmd": "cd /repo && env -u PY7ZR_VERIF /venv/bin/python -m pytest -ra -q -p no:cacheprovider --timeout=900 "
                                "--continue-on-collection-errors",
            "source_commits": HOOK_COMMITS,
            "add_only": True,
        },
        "engines": [
            {"name": "tlc", "path": "/verif/spec", "serves_properties": [c["property_id"] for c in checks],
             "kind_free_text": "explicit TLA+ specifications checked by TLC 1.8; behaviours replayed into py7zr; recorded traces validated by TLC"},
        ],
        "checks": checks,
        "not_applicable": na,
        "notes": "Entry point ./check <id> <quick|thorough> [--replay file]; exit 2 = machinery failure. known_findings.json lists "
                 "recorded genuine defects (open) and repaired ones (fixed).",
    }
    out = os.path.join(VERIF, "MANIFEST.json")
    with open(out, "w") as f:
        json.dump(m, f, indent=1)
    try:
        import jsonschema

        jsonschema.validate(m, json.load(open("/root/.vp/MANIFEST.schema.json")))
        print("MANIFEST.json valid;", len(checks), "checks,", len(na), "not_applicable")
    except ImportError:
        print("jsonschema not available; wrote without validating")
    return 0


HOOK_COMMITS = []

if __name__ == "__main__":
    sys.exit(main())
