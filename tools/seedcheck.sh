#!/bin/sh
# usage: tools/seedcheck.sh <seed-out-dir (patch.diff, demo.py)> <Cxx> [tier]
# confirms a seeded change (tests pass, demo fails with it and passes without) in a scratch worktree, then runs the check against it.
S=$(readlink -f "$1"); P=$2; T=${3:-quick}
W=$(mktemp -d /tmp/sc-XXXXXX); rmdir "$W"
git -C /repo worktree add -q --detach "$W" HEAD || exit 2
trap 'git -C /repo worktree remove --force "$W" >/dev/null 2>&1; rm -rf "$W" "$W.log"' EXIT
cd "$W" || exit 2
if ! git apply "$S/patch.diff"; then echo "RESULT patch does not apply"; exit 0; fi
mkdir -p out/k && cp "$S"/demo.py out/k/demo.py
tests=$(/venv/bin/python -m pytest -q -p no:cacheprovider -n 12 tests 2>&1 | tail -1)
/venv/bin/python out/k/demo.py >/dev/null 2>&1; d1=$?
cd /verif
VERIF_REPO="$W" VERIF_NO_EVIDENCE=1 ./check "$P" "$T" > "$W.log" 2>&1; c=$?
cd "$W" && git checkout -q -- . && /venv/bin/python out/k/demo.py >/dev/null 2>&1; d0=$?
echo "RESULT tests=[$tests] demo_with=$d1 demo_without=$d0 check_exit=$c"
grep -m3 "key=" "$W.log" | cut -c1-240
tail -1 "$W.log" | cut -c1-200
