#!/bin/sh
# usage: tools/mut.sh <patch.diff> <Cxx> [tier]   - run a check against a scratch copy of /repo with the patch applied
# The copy lives in /dev/shm and is removed afterwards.  /repo itself is never touched.
set -e
P=$(readlink -f "$1"); shift
D=$(mktemp -d /dev/shm/mrepo-XXXXXX)
trap 'rm -rf "$D"' EXIT
cp -r /repo/py7zr "$D/py7zr"
ln -s /repo/tests "$D/tests"
( cd "$D" && patch -p1 -s < "$P" )
cd "$(dirname "$0")/.."
rc=0
VERIF_REPO="$D" VERIF_NO_EVIDENCE=1 ./check "$@" || rc=$?
echo "mutant exit=$rc"
exit 0
