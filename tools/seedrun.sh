#!/bin/bash
# usage: tools/seedrun.sh SEED...   - every quick check under each VERIF_SEED, no evidence written; one line per (seed, check)
cd "$(dirname "$0")/.."
for s in "$@"; do
  for i in $(seq -w 1 20); do
    out=$(VERIF_SEED=$s VERIF_NO_EVIDENCE=1 ./check C$i quick 2>&1); rc=$?
    echo "seed=$s C$i rc=$rc $(echo "$out" | grep -c '^VIOLATION') $(echo "$out" | grep '^  key=' | head -2 | cut -c1-200)"
  done
done
